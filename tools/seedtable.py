"""write seeded/SUMMARY.md from seeded/*/result.json"""
import glob, json, os
V = os.path.dirname(os.path.dirname(os.path.abspath(__file__)))
rows = []
for d in sorted(glob.glob(os.path.join(V, 'seeded', '*-m*'))):
    sid = os.path.basename(d)
    meta = json.load(open(os.path.join(d, 'meta.json')))
    res = json.load(open(os.path.join(d, 'result.json'))) if os.path.exists(os.path.join(d, 'result.json')) else {}
    note = open(os.path.join(d, 'NOTES.md')).read() if os.path.exists(os.path.join(d, 'NOTES.md')) else ''
    title = next((ln.strip('# ').strip() for ln in note.split('\n') if ln.strip()), '')[:110]
    chk = res.get('checks', {})
    how = []
    for p, c in chk.items():
        if c.get('violation_line'):
            how.append(f"{p}: " + ('witness found' if 'no-failing-input-found' not in c['violation_line'] else 'obligation broken, no witness')
                       + (' (' + ', '.join(c.get('broken', [])[:3]) + ')' if c.get('broken') else ''))
        else:
            how.append(f'{p}: not caught')
    if meta.get('superseded'):
        rows.append((sid, meta['property'], title, 'superseded', '-', meta['superseded'][:160]))
        continue
    rows.append((sid, meta['property'], title, 'yes' if res.get('confirmed') else ('?' if not res else 'NO'),
                 'CAUGHT' if res.get('caught') else ('-' if not res else 'MISSED'), '; '.join(how)))
with open(os.path.join(V, 'seeded', 'SUMMARY.md'), 'w') as f:
    f.write('# Seeded changes\n\n| id | property | change | confirmed (demo passes clean, fails mutated, suite unchanged) | check | how |\n|---|---|---|---|---|---|\n')
    for r in rows:
        f.write('| ' + ' | '.join(str(x).replace('|', '/') for x in r) + ' |\n')
print(open(os.path.join(V, 'seeded', 'SUMMARY.md')).read())

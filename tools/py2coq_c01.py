"""py2coq extension for the lens-editing code (property C01).  Used through `kclass=C01Kernel`
in tools/kernels_C01.py.  Everything not listed falls through to the base translator (fail closed).

New kinds
  objlist   a Python list of objects (`self.surface_group.surfaces`, `self.wavelengths`).  It has no Coq
            value of its own: every attribute path p read or written on its elements is the list
            `L[].p` (one entry per element; kind list / boollist according to types['L[].p']).
  objelem   one element of an objlist (loop variable, `surf = L[i]` alias); .coq is its index (Z)
  boollist  `list bool`

New constructs
  kwargs.get('dx', 0)                 the effective value is the input `kwargs.dx` (the harness omits the key
                                       when it passes the default)
  C(...) for C in spec['ctors']       constructor call = tuple of the declared fields
                                       (spec ctors = {'C': [(param, field-or-None, default-or-None), ...]})
  L.append(C(...))                    appends each declared field to `L[].field`
  for [k,] s in [enumerate](L[lo:]):  body of assignments to attributes of s ->  one `map` over the indices
  L[i].p (read / = / op=)             getZ / setZ on `L[].p`
  s = L[i]                            alias
  l[a:] op= v, l op= v                elementwise list-scalar arithmetic (NumPy broadcasting on a vector)
  a, b = f()  with opaque_calls[f] = [kind, kind]   (the results are inputs `f().R0`, `f().R1`)
  f(x) with capture_calls[f] = name   the call is not executed; its arguments are outputs name, name_1, ...
"""
import ast

from py2coq import Kernel, Unsupported, V, app, paren


class C01Kernel(Kernel):
    def coq_type(self, kind):
        if kind == 'boollist':
            return 'list bool'
        return super().coq_type(kind)

    def bind_kind_ok(self, kind):
        return kind == 'boollist' or super().bind_kind_ok(kind)

    # ---------------- objlist helpers ----------------
    def elem_kind(self, key):
        return self.spec.get('types', {}).get(key, 'num')

    def is_objlist(self, dotted):
        return dotted is not None and self.types.get(dotted) == 'objlist'

    def attr_list(self, L, p, env):
        """current value of the list L[].p (an input when not written yet)"""
        key = f'{L}[].{p}'
        if key in env:
            return env[key]
        ek = self.elem_kind(key)
        lk = {'num': 'list', 'bool': 'boollist'}.get(ek)
        if lk is None:
            raise Unsupported(f'element attribute kind {ek} of {key}')
        self.types[key] = lk
        return self.get_input(key)

    def elem_read(self, L, idx, p, env):
        lst = self.attr_list(L, p, env)
        if lst.kind == 'list':
            return V('num', app('getZ', lst.coq, idx))
        if lst.kind == 'boollist':
            return V('bool', f'(match nthZ {paren(lst.coq)} {paren(idx)} with Some b_ => b_ | None => false end)')
        raise Unsupported('element read of ' + lst.kind)

    def elem_target(self, node, env):
        """node = <elem>.<p>  with <elem> a bound objelem name or L[i]  ->  (L, idx_coq, p) or None"""
        parts = []
        cur = node
        while isinstance(cur, ast.Attribute):
            parts.append(cur.attr)
            cur = cur.value
        parts.reverse()
        if not parts:
            return None
        if isinstance(cur, ast.Name) and cur.id in env and env[cur.id].kind == 'objelem':
            e = env[cur.id]
            return e.path, e.coq, '.'.join(parts)
        if isinstance(cur, ast.Subscript) and not isinstance(cur.slice, (ast.Slice, ast.Tuple)):
            L = self.dotted_of(cur.value)
            if self.is_objlist(L):
                i = self.expr(cur.slice, env)
                if i.kind != 'int':
                    raise Unsupported('objlist index kind ' + i.kind)
                return L, i.coq, '.'.join(parts)
        return None

    # ---------------- expressions ----------------
    def expr(self, node, env):
        if isinstance(node, ast.Attribute):
            t = self.elem_target(node, env)
            if t is not None:
                return self.elem_read(t[0], t[1], t[2], env)
        if isinstance(node, ast.Subscript) and not isinstance(node.slice, (ast.Slice, ast.Tuple)):
            L = self.dotted_of(node.value)
            if self.is_objlist(L):
                i = self.expr(node.slice, env)
                if i.kind != 'int':
                    raise Unsupported('objlist index kind ' + i.kind)
                return V('objelem', i.coq, path=L)
        return super().expr(node, env)

    def load_name(self, dotted, env):
        root = dotted.split('.')[0]
        if '[].' in dotted and dotted not in env:
            L, p_ = dotted.split('[].', 1)
            return self.attr_list(L, p_, env)
        if '.' in dotted and root in env and env[root].kind == 'objelem':
            e = env[root]
            return self.elem_read(e.path, e.coq, dotted.split('.', 1)[1], env)
        return super().load_name(dotted, env)

    def binop(self, node, env):
        a = self.expr(node.left, env)
        b = self.expr(node.right, env)
        f = {ast.Add: 'add', ast.Sub: 'sub', ast.Mult: 'mul', ast.Div: 'div'}.get(type(node.op))
        if a.kind == 'list' and b.kind in ('num', 'int') and f:
            bv = self.bind('s', V('num', self.to_num(b)))
            return V('list', f'(map (fun x_ => {f} x_ {paren(bv.coq)}) {paren(a.coq)})')
        return super().binop(node, env)

    def ctor(self, node, env):
        fields = self.spec['ctors'][node.func.id]
        bound = {}
        for (pn, _, _), a in zip(fields, node.args):
            bound[pn] = a
        for kw in node.keywords:
            bound[kw.arg] = kw.value
        unknown = set(bound) - {pn for pn, _, _ in fields}
        if unknown:
            raise Unsupported(f'constructor argument {sorted(unknown)}')
        items, labels = [], []
        for pn, fld, dflt in fields:
            if pn in bound:
                v = self.expr(bound[pn], env)
            elif dflt is not None:
                v = self.expr(ast.Constant(value=dflt), env) if not isinstance(dflt, float) else V('num', f'ofZ {int(dflt)}%Z')
            else:
                raise Unsupported(f'constructor argument {pn} missing')
            if fld is None:
                continue
            items.append(v)
            labels.append(fld)
        r = V('tuple', items=items)
        r.path = labels
        return r

    def call(self, node, env):
        fn = node.func
        dotted = self.dotted_of(fn)
        # kwargs.get('dx', default)
        if isinstance(fn, ast.Attribute) and fn.attr == 'get' and isinstance(fn.value, ast.Name) \
                and fn.value.id == getattr(self, 'kwarg_name', None) and len(node.args) == 2 \
                and isinstance(node.args[0], ast.Constant) and isinstance(node.args[0].value, str):
            key = f'{fn.value.id}.{node.args[0].value}'
            self.expr(node.args[1], env)       # the default must itself be translatable
            return self.get_input(key)
        if isinstance(fn, ast.Name) and fn.id in self.spec.get('ctors', {}):
            return self.ctor(node, env)
        oc = self.spec.get('opaque_calls', {})
        if dotted in oc and isinstance(oc[dotted], (list, tuple)):
            items = []
            for j, kd in enumerate(oc[dotted]):
                key = f'{dotted}().R{j}'
                self.types.setdefault(key, kd)
                items.append(self.get_input(key))
            return V('tuple', items=items)
        return super().call(node, env)

    # ---------------- statements ----------------
    def assigned_names(self, stmts):
        out = super().assigned_names(stmts)
        # attribute writes through loop variables / aliases / L[i] change the lists L[].p
        extra = []
        alias = dict(getattr(self, 'elem_alias', {}))
        for s in stmts:
            for n in ast.walk(s):
                if isinstance(n, ast.For):
                    it = n.iter
                    if isinstance(it, ast.Call) and isinstance(it.func, ast.Name) and it.func.id == 'enumerate':
                        it = it.args[0]
                        var = n.target.elts[1].id if isinstance(n.target, ast.Tuple) else None
                    else:
                        var = n.target.id if isinstance(n.target, ast.Name) else None
                    if isinstance(it, ast.Subscript):
                        it = it.value
                    L = self.dotted_of(it)
                    if var and self.is_objlist(L):
                        alias[var] = L
                if isinstance(n, ast.Assign) and len(n.targets) == 1 and isinstance(n.targets[0], ast.Name) \
                        and isinstance(n.value, ast.Subscript) and self.is_objlist(self.dotted_of(n.value.value)):
                    alias[n.targets[0].id] = self.dotted_of(n.value.value)
        for s in stmts:
            for n in ast.walk(s):
                tg = []
                if isinstance(n, ast.Assign):
                    tg = n.targets
                elif isinstance(n, ast.AugAssign):
                    tg = [n.target]
                elif isinstance(n, ast.Expr) and isinstance(n.value, ast.Call) and \
                        isinstance(n.value.func, ast.Attribute) and n.value.func.attr == 'append' and \
                        self.is_objlist(self.dotted_of(n.value.func.value)) and isinstance(n.value.args[0], ast.Call) \
                        and isinstance(n.value.args[0].func, ast.Name) and n.value.args[0].func.id in self.spec.get('ctors', {}):
                    L = self.dotted_of(n.value.func.value)
                    for _, fld, _ in self.spec['ctors'][n.value.args[0].func.id]:
                        if fld is not None:
                            extra.append(f'{L}[].{fld}')
                for t in tg:
                    parts = []
                    cur = t
                    while isinstance(cur, ast.Attribute):
                        parts.append(cur.attr)
                        cur = cur.value
                    parts.reverse()
                    if not parts:
                        continue
                    if isinstance(cur, ast.Name) and cur.id in alias:
                        extra.append(f'{alias[cur.id]}[].' + '.'.join(parts))
                    elif isinstance(cur, ast.Subscript) and self.is_objlist(self.dotted_of(cur.value)):
                        extra.append(f'{self.dotted_of(cur.value)}[].' + '.'.join(parts))
        drop = {d for d in out if d.split('.')[0] in alias}
        res = [d for d in out if d not in drop]
        for e in extra:
            if e not in res:
                res.append(e)
        return res

    def block(self, stmts, env, k):
        if stmts:
            s = stmts[0]
            rest = stmts[1:]
            if isinstance(s, ast.Expr) and isinstance(s.value, ast.Call):
                f = s.value.func
                d = self.dotted_of(f)
                cap = self.spec.get('capture_calls', {})
                if d in cap:
                    env = dict(env)
                    for j, a in enumerate(s.value.args):
                        v = self.expr(a, env)
                        if v.kind == 'int':
                            pass
                        env[cap[d] if j == 0 else f'{cap[d]}_{j}'] = self.bind(cap[d], v)
                    if s.value.keywords:
                        raise Unsupported('captured call with keywords')
                    return self.flush() + self.block(rest, env, k)
                if isinstance(f, ast.Attribute) and f.attr == 'append' and self.is_objlist(self.dotted_of(f.value)):
                    L = self.dotted_of(f.value)
                    a0 = s.value.args[0]
                    if not (isinstance(a0, ast.Call) and isinstance(a0.func, ast.Name)
                            and a0.func.id in self.spec.get('ctors', {})):
                        raise Unsupported('append of a non-constructor to an object list')
                    rec = self.ctor(a0, env)
                    env = dict(env)
                    for fld, v in zip(rec.path, rec.items):
                        old = self.attr_list(L, fld, env)
                        if old.kind == 'list':
                            new = V('list', f'({old.coq} ++ [{self.to_num(v)}])')
                        elif old.kind == 'boollist' and v.kind == 'bool':
                            new = V('boollist', f'({old.coq} ++ [{v.coq}])')
                        else:
                            raise Unsupported(f'append field kind {old.kind}/{v.kind}')
                        env[f'{L}[].{fld}'] = self.bind(fld, new)
                    return self.flush() + self.block(rest, env, k)
        return super().block(stmts, env, k)

    def assign(self, target, v, env):
        # alias  s = L[i]
        if isinstance(target, ast.Name) and v.kind == 'objelem':
            env = dict(env)
            env[target.id] = v
            self.elem_alias = dict(getattr(self, 'elem_alias', {}))
            self.elem_alias[target.id] = v.path
            return env
        # L[i].p = v   /   s.p = v
        if isinstance(target, ast.Attribute):
            t = self.elem_target(target, env)
            if t is not None:
                L, idx, p = t
                old = self.attr_list(L, p, env)
                env = dict(env)
                if old.kind == 'list':
                    env[f'{L}[].{p}'] = self.bind(p, V('list', app('setZ', old.coq, idx, self.to_num(v))))
                else:
                    raise Unsupported('element store into ' + old.kind)
                return env
        # l[a:] = v   (v a list of the same length: produced by  l[a:] op= x)
        if isinstance(target, ast.Subscript) and isinstance(target.slice, ast.Slice) and target.slice.upper is None \
                and target.slice.step is None and target.slice.lower is not None and v.kind == 'list':
            d = self.dotted_of(target.value)
            old = self.load_name(d, env)
            lo = self.expr(target.slice.lower, env)
            if old.kind == 'list' and lo.kind == 'int':
                env = dict(env)
                env[d] = self.bind(d, V('list', f'(firstn (Z.to_nat {paren(lo.coq)}) {paren(old.coq)} ++ {v.coq})'))
                return env
        return super().assign(target, v, env)

    def for_loop(self, s, env, cont):
        it = s.iter
        enum = False
        if isinstance(it, ast.Call) and isinstance(it.func, ast.Name) and it.func.id == 'enumerate' and len(it.args) == 1:
            it = it.args[0]
            enum = True
        lo = None
        base = it
        if isinstance(it, ast.Subscript) and isinstance(it.slice, ast.Slice) and it.slice.upper is None \
                and it.slice.step is None and it.slice.lower is not None:
            base = it.value
            lo = it.slice.lower
        L = self.dotted_of(base) if isinstance(base, (ast.Name, ast.Attribute)) else None
        if not self.is_objlist(L):
            return super().for_loop(s, env, cont)
        if s.orelse:
            raise Unsupported('for-else')
        if enum:
            if not (isinstance(s.target, ast.Tuple) and len(s.target.elts) == 2):
                raise Unsupported('enumerate target')
            if lo is not None:
                raise Unsupported('enumerate over a slice')
            kname, ename = s.target.elts[0].id, s.target.elts[1].id
        else:
            if not isinstance(s.target, ast.Name):
                raise Unsupported('object loop target')
            kname, ename = None, s.target.id
        lo_v = self.expr(lo, env) if lo is not None else None
        if lo_v is not None and lo_v.kind != 'int':
            raise Unsupported('slice bound kind')
        kvar = self.fresh('k')
        benv = dict(env)
        benv[ename] = V('objelem', kvar, path=L)
        if kname:
            benv[kname] = V('int', kvar)
        written = {}
        saved_lets = self.pending_lets
        for st in s.body:
            if isinstance(st, ast.Expr) and isinstance(st.value, ast.Constant):
                continue
            if isinstance(st, ast.Assign) and len(st.targets) == 1:
                tgt, val = st.targets[0], st.value
            elif isinstance(st, ast.AugAssign):
                tgt = st.target
                val = ast.BinOp(left=self.target_as_load(st.target), op=st.op, right=st.value)
                ast.copy_location(val, st)
                ast.fix_missing_locations(val)
            else:
                raise Unsupported('statement in object loop: ' + type(st).__name__)
            t = self.elem_target(tgt, benv)
            if t is None or t[0] != L or t[1] != kvar:
                raise Unsupported('object loop may only assign attributes of its element')
            # reads of an attribute written earlier in the same iteration see the new value
            e2 = dict(benv)
            self.pending_lets = []
            v = self._elem_expr(val, e2, L, kvar, written)
            if self.pending_lets:
                raise Unsupported('let-binding inside object loop body')
            written[t[2]] = v
        self.pending_lets = saved_lets
        pre = self.flush()
        n = self.get_input(f'{L}.__len__') if f'{L}.__len__' in self.input_names else None
        if n is None:
            self.types[f'{L}.__len__'] = 'int'
            n = self.get_input(f'{L}.__len__')
        env = dict(env)
        for p, v in written.items():
            lk = 'boollist' if v.kind == 'bool' else 'list'
            newv = v.coq if lk == 'boollist' else self.to_num(v)
            if lo_v is not None:
                oldv = self.elem_read(L, kvar, p, env)
                body = f'if ({kvar} <? {paren(lo_v.coq)})%Z then {oldv.coq} else {newv}'
            else:
                body = newv
            env[f'{L}[].{p}'] = self.bind(p.replace('.', '_'), V(lk, f'(map (fun {kvar} => {body}) (rangeZ 0%Z {paren(n.coq)}))'))
        return pre + self.flush() + cont(env)

    def _elem_expr(self, node, env, L, kvar, written):
        """expression inside an object loop: own attributes written earlier read the new value"""
        if written:
            class Sub(ast.NodeTransformer):
                pass
            for p, v in written.items():
                env[f'__w__{p}'] = v
            outer = self

            orig_elem_read = self.elem_read

            def patched(L2, idx, p, e):
                if L2 == L and idx == kvar and p in written:
                    return written[p]
                return orig_elem_read(L2, idx, p, e)
            self.elem_read = patched
            try:
                return self.expr(node, env)
            finally:
                self.elem_read = orig_elem_read
        return self.expr(node, env)

    def translate(self):
        # **kwargs name
        self.load()
        self.kwarg_name = self.func.args.kwarg.arg if self.func.args.kwarg else None
        self.elem_alias = {}
        return super().translate()

"""C01 support: seeded generator of edit histories, driver of the real optiland Optic, the
property oracle stated directly on the implementation, and the rendering of histories /
observations for the Coq model Model/M_C01.v.

A history is a JSON-able dict {'ap': [type, value], 'ops': [op, ...]}; an op is a list:
  ['add', idx, surface_type, R, k, coeffs, t, mat, stop, dx, dy, rx, ry]   mat: 'air' | 'mirror' | ['ideal', n]
  ['remove', idx]
  ['set_radius', v, k] ['set_conic', v, k] ['set_thickness', v, k] ['set_index', v, k] ['set_coeff', v, k, j]
  ['var', kind, k, scaled, v, extra]     kind: radius conic thickness index asphere_coeff tilt decenter
  ['pickup', src, attr, tgt, scale, offset]   ['solve', idx, h]   ['update']   ['image_solve']
  ['wavelength', v, is_primary]
"""
import math
import random
import warnings

INF = float('inf')
W0 = 0.55          # wavelength at which the (ideal) media are read out



# --------------------------------------------------------------------------
# numeric argument TYPES a user may pass through the public API
# --------------------------------------------------------------------------
SCALAR_F = ['float', 'np.float64', 'arr0d_f']                 # any real value
SCALAR_I = ['int', 'np.int64', 'arr0d_i', 'float_integral']   # only for integral values
LIST_F = ['list_f', 'tuple_f', 'arr_f', 'list_npf']
LIST_I = ['list_i', 'tuple_i', 'arr_i']                       # only when every entry is integral
LIST_M = ['list_mixed']                                       # first entry float, the others ints
LIST2_F = ['list2_f', 'tuple2_f', 'arr2_f']
LIST2_I = ['list2_i', 'arr2_i']


def cast(v, cls):
    """the same real number in the requested Python / NumPy type"""
    import numpy as np
    if cls in (None, 'float', 'float_integral'):
        return float(v)
    if cls == 'np.float64':
        return np.float64(v)
    if cls == 'arr0d_f':
        return np.array(float(v))
    if math.isinf(v) or v != v:
        return float(v)
    if cls == 'int':
        return int(v)
    if cls == 'np.int64':
        return np.int64(int(v))
    if cls == 'arr0d_i':
        return np.array(int(v))
    raise ValueError(cls)


def cast_list(c, cls):
    import numpy as np
    if cls in (None, 'list_f'):
        return [float(v) for v in c]
    if cls == 'tuple_f':
        return tuple(float(v) for v in c)
    if cls == 'arr_f':
        return np.array([float(v) for v in c], dtype=float)
    if cls == 'list_npf':
        return [np.float64(v) for v in c]
    if cls == 'list_i':
        return [int(v) for v in c]
    if cls == 'tuple_i':
        return tuple(int(v) for v in c)
    if cls == 'arr_i':
        return np.array([int(v) for v in c], dtype=int)
    if cls == 'list_mixed':
        return [float(c[0])] + [int(v) for v in c[1:]] if c else []
    if cls == 'list2_f':
        return [[float(v) for v in r] for r in c]
    if cls == 'tuple2_f':
        return tuple(tuple(float(v) for v in r) for r in c)
    if cls == 'arr2_f':
        return np.array(c, dtype=float)
    if cls == 'list2_i':
        return [[int(v) for v in r] for r in c]
    if cls == 'arr2_i':
        return np.array(c, dtype=int)
    raise ValueError(cls)


def assign_types(rng, hist, p_int=0.3):
    """draw an argument type for every numeric argument of every call; integer types need an integral value, so
    with probability p_int the value itself is first rounded (radii, thicknesses, conics, heights) or replaced
    by the usual placeholder 0 (coefficients).  Returns {str(op index): {argument: class}}."""
    types = {}

    def scalar(op, pos, name, ty, lo=None, allow_round=True):
        v = op[pos]
        if isinstance(v, bool) or v is None:
            return
        if allow_round and not math.isinf(v) and rng.random() < p_int:
            r = float(round(v))
            if lo is not None and abs(r) < lo:
                r = math.copysign(lo, v if v != 0 else 1.0)
            op[pos] = r
        v = op[pos]
        integral = (not math.isinf(v)) and float(v).is_integer()
        ty[name] = rng.choice(SCALAR_I + SCALAR_F) if integral else rng.choice(SCALAR_F)

    for i, op in enumerate(hist['ops']):
        ty = {}
        t = op[0]
        if t in ('add', 'add_obj'):
            st = op[2]
            if not math.isinf(op[3]):
                scalar(op, 3, 'R', ty, lo=5.0)
            else:
                ty['R'] = 'float'
            scalar(op, 4, 'k', ty)
            if i > 0 or not math.isinf(op[6]):
                scalar(op, 6, 't', ty, lo=1.0)
            if isinstance(op[7], list):
                n = op[7][1]
                if rng.random() < 0.1:
                    op[7][1] = n = 2.0
                ty['n'] = rng.choice(SCALAR_I + SCALAR_F) if float(n).is_integer() else rng.choice(SCALAR_F)
            if st == 'even_asphere':
                r = rng.random()
                if r < 0.3:
                    op[5] = [0.0] * len(op[5])           # placeholder coefficients, to be filled in afterwards
                    ty['c'] = rng.choice(LIST_I + ['list_i', 'list_i', 'list_f'])
                elif r < 0.4:
                    op[5] = [op[5][0]] + [0.0] * (len(op[5]) - 1)
                    ty['c'] = 'list_mixed'
                else:
                    ty['c'] = rng.choice(LIST_F + ['list_f', 'list_f'])
            elif st in ('polynomial', 'chebyshev'):
                if rng.random() < 0.25:
                    op[5] = [[0.0] * len(r_) for r_ in op[5]]
                    ty['c'] = rng.choice(LIST2_I)
                else:
                    ty['c'] = rng.choice(LIST2_F)
        elif t in ('set_radius', 'set_conic', 'set_thickness', 'set_index'):
            if t == 'set_index' and rng.random() < 0.1:
                op[1] = 2.0
            scalar(op, 1, 'v', ty, lo={'set_radius': 5.0, 'set_thickness': 1.0}.get(t),
                   allow_round=(t != 'set_index'))
        elif t == 'set_coeff':
            if rng.random() < 0.08:
                op[1] = 0.0
            scalar(op, 1, 'v', ty, allow_round=False)
        elif t == 'var':
            scaled = op[3]
            if op[1] in ('radius', 'thickness', 'conic') and not scaled:
                scalar(op, 4, 'v', ty, lo={'radius': 5.0, 'thickness': 1.0}.get(op[1]))
            else:
                scalar(op, 4, 'v', ty, allow_round=False)
        elif t == 'pickup':
            scalar(op, 4, 'sc', ty, allow_round=False)
            scalar(op, 5, 'off', ty, allow_round=False)
        elif t == 'solve':
            scalar(op, 2, 'h', ty)
        if ty:
            types[str(i)] = ty
    hist['types'] = types
    return place_ready(hist)


def place_ready(hist):
    """a ready-made surface object is handed over sitting at the running sum of the thicknesses given before it
    (that is the caller's job for a ready-made object)"""
    acc, first = 0.0, True
    for op in hist['ops'][:hist.get('nbuild', len(hist['ops']))]:
        if op[0] not in ('add', 'add_obj'):
            continue
        if op[1] == 0:
            continue
        if op[0] == 'add_obj':
            op[9] = acc
        acc += op[6]
    return hist


def route_histogram(hists):
    """build routes / entry points exercised (for the evidence file)"""
    out = {'route_reuse_after_reset': 0, 'ready_made_surface_objects': 0, 'explicit_ImageSurface': 0,
           'immersed_object_space': 0, 'aperture': {}, 'histories_with_ready_made': 0}
    for h in hists:
        out['route_reuse_after_reset'] += int(h.get('route') == 'reuse')
        ro = [o for o in h['ops'] if o[0] == 'add_obj']
        out['ready_made_surface_objects'] += sum(1 for o in ro if o[2] != 'image')
        out['explicit_ImageSurface'] += sum(1 for o in ro if o[2] == 'image')
        out['histories_with_ready_made'] += int(bool(ro))
        out['immersed_object_space'] += int(isinstance(h['ops'][0][7], list))
        out['aperture'][h['ap'][0]] = out['aperture'].get(h['ap'][0], 0) + 1
    return out


def type_histogram(hists):
    """argument-type classes exercised, per argument family (for the evidence file)"""
    out = {}
    for h in hists:
        for i, ty in (h.get('types') or {}).items():
            op = h['ops'][int(i)] if int(i) < len(h['ops']) else None
            if op is None:
                continue
            for name, cls in ty.items():
                fam = {'R': 'radius', 'k': 'conic', 't': 'thickness', 'n': 'index', 'c': 'coefficients', 'h': 'solve_height',
                       'sc': 'pickup_scale', 'off': 'pickup_offset'}.get(name)
                if fam is None:
                    fam = {'set_radius': 'radius', 'set_conic': 'conic', 'set_thickness': 'thickness', 'set_index': 'index',
                           'set_coeff': 'coefficient_value', 'var': 'variable_' + str(op[1])}.get(op[0], op[0])
                key = fam + ('@build' if op[0] == 'add' else '@edit')
                d = out.setdefault(key, {})
                d[cls] = d.get(cls, 0) + 1
    return out

# --------------------------------------------------------------------------
# generator
# --------------------------------------------------------------------------
def gen_history(rng, nsurf=None, nedits=None, exotic=True, build_only=False, focus=None):
    """focus: None | 'solve' | 'pickup' | 'thickness' | 'index' (bias of the edit mix)"""
    m = nsurf or rng.choice([1, 2, 2, 3, 3, 4, 4, 5, 6, 8, 10, 12])
    finite = rng.random() < 0.4
    ops = []
    t0 = rng.uniform(40.0, 400.0) if finite else INF
    mat0 = ['ideal', rng.uniform(1.2, 1.6)] if rng.random() < 0.25 else 'air'      # immersed object space
    ops.append(['add', 0, 'standard', INF, 0.0, [], t0, mat0, False, 0.0, 0.0, 0.0, 0.0])
    handbuilt = rng.random() < 0.25       # some surfaces enter as ready-made objects: add_surface(new_surface=...)
    nw = rng.choice([1, 1, 2, 3])
    wl = [[rng.choice([0.4861, 0.55, 0.5876, 0.6563]), rng.random() < 0.5] for _ in range(nw)]
    # one wavelength before the surfaces, the others interleaved
    ops.append(['wavelength'] + wl[0])
    use_mirror = exotic and rng.random() < 0.12
    use_dec = rng.random() < 0.3
    stops = set([rng.randrange(1, m + 1)])
    if rng.random() < 0.25:
        stops.add(rng.randrange(1, m + 1))        # a second is_stop=True: the first must be cleared
    if rng.random() < 0.08:
        stops = set()
    in_glass = False
    sign = 1
    kinds = []
    for i in range(1, m + 1):
        ty = rng.choices(['plane', 'standard', 'conic', 'even', 'poly', 'cheb'],
                         weights=[18, 38, 20, 24 if focus != 'asphere' else 60, 5, 5])[0]
        R = rng.uniform(25.0, 180.0) * rng.choice([-1, 1])
        k, c, st = 0.0, [], 'standard'
        if ty == 'plane':
            R = INF
            if rng.random() < 0.3:
                k = rng.uniform(-1.5, 0.5)       # a conic given with an infinite radius
        elif ty == 'conic':
            k = rng.choice([-1.0, rng.uniform(-2.5, 1.0)])
        elif ty == 'even':
            st = 'even_asphere'
            k = rng.choice([0.0, rng.uniform(-1.5, 0.5)])
            c = [rng.uniform(-1, 1) * 10 ** (-5 - 2 * j) for j in range(rng.choice([1, 2, 3]))]
        elif ty in ('poly', 'cheb'):
            st = 'polynomial' if ty == 'poly' else 'chebyshev'
            k = rng.choice([0.0, rng.uniform(-1.0, 0.3)])
            nr, nc = rng.choice([(2, 2), (3, 2)])
            c = [[rng.uniform(-1, 1) * 10 ** (-3 - (a_ + b_)) if a_ + b_ > 0 else 0.0 for b_ in range(nc)]
                 for a_ in range(nr)]
        if use_mirror and not in_glass and rng.random() < 0.3:
            mat = 'mirror'
            sign = -sign
        elif in_glass:
            mat = 'air' if rng.random() < 0.7 else ['ideal', rng.uniform(1.4, 1.9)]
            in_glass = isinstance(mat, list)
        else:
            if rng.random() < 0.7:
                mat = ['ideal', rng.uniform(1.35, 1.95)]
                in_glass = True
            else:
                mat = 'air'
        t = sign * (rng.uniform(1.5, 9.0) if in_glass else rng.uniform(2.0, 30.0))
        if i == m:
            t = sign * rng.uniform(20.0, 80.0)
            if in_glass:
                mat = 'air'
                in_glass = False
        dx = dy = rx = ry = 0.0
        if use_dec and rng.random() < 0.4:
            dx, dy = rng.uniform(-0.3, 0.3), rng.uniform(-0.3, 0.3)
            rx, ry = rng.uniform(-0.03, 0.03), rng.uniform(-0.03, 0.03)
        if handbuilt and st == 'standard' and mat != 'mirror' and dx == 0.0 and rx == 0.0 and rng.random() < 0.4:
            # ready-made Surface object; its vertex (running sum of the thicknesses) is filled in by place_ready
            ops.append(['add_obj', i, 'standard', R, k, [], t, mat, i in stops, 0.0])
        else:
            ops.append(['add', i, st, R, k, c, t, mat, i in stops, dx, dy, rx, ry])
        kinds.append(ty)
        if len(wl) > 1 and rng.random() < 0.5:
            ops.append(['wavelength'] + wl.pop())
    if handbuilt and rng.random() < 0.4:
        ops.append(['add_obj', m + 1, 'image', INF, 0.0, [], 0.0, 'same', False, 0.0])     # explicit ImageSurface object
    else:
        ops.append(['add', m + 1, 'standard', INF, 0.0, [], 0.0, 'air', False, 0.0, 0.0, 0.0, 0.0])
    while len(wl) > 1:
        ops.append(['wavelength'] + wl.pop())
    ap = ['EPD', rng.uniform(3.0, 9.0)]
    if rng.random() < 0.15:
        ap = ['imageFNO', rng.uniform(3.0, 10.0)]
    elif finite and rng.random() < 0.35:
        ap = ['objectNA', rng.uniform(0.02, 0.25)]
    hist = {'ap': ap, 'ops': ops, 'nbuild': len(ops), 'route': 'reuse' if rng.random() < 0.15 else 'direct'}
    if build_only:
        return assign_types(rng, hist)
    n = m + 2
    ne = nedits if nedits is not None else rng.choice([0, 3, 8, 15, 30])
    has_stop = bool(stops)
    evens = [i + 1 for i, ty in enumerate(kinds) if ty == 'even']
    ncoef = {o[1]: len(o[5]) for o in ops if o[0] in ('add', 'add_obj')}
    weights = {'set_radius': 14, 'set_conic': 10, 'set_thickness': 14, 'set_index': 9, 'set_coeff': 6,
               'var': 14, 'pickup': 8, 'solve': 5, 'update': 8, 'image_solve': 3, 'wavelength': 3,
               'remove': 1 if exotic else 0, 'insert': 1 if exotic else 0, 'invalid': 2 if exotic else 0}
    if focus == 'solve':
        weights.update(solve=30, update=20, image_solve=8)
    elif focus == 'pickup':
        weights.update(pickup=30, update=25)
    elif focus == 'thickness':
        weights.update(set_thickness=40, var=20)
    elif focus == 'index':
        weights.update(set_index=40)
    elif focus == 'asphere':
        weights.update(set_coeff=30, var=16, set_radius=22, pickup=14, update=8, remove=0, insert=0, invalid=0)
    pk_edges = {}             # target quantity -> source quantity
    # an explicit ImageSurface object never refracts (its material_post is not used): index edits on the surface in
    # front of it would only make its two recorded media differ, which no paraxial quantity depends on; not generated
    img_obj = 1 if any(o_[0] == 'add_obj' and o_[2] == 'image' for o_ in ops) else 0
    structural = False        # after a middle insertion / removal only the stop / wavelength clauses are claimed
    for _ in range(ne):
        kind = rng.choices(list(weights), weights=list(weights.values()))[0]
        ks = rng.randrange(0, n)
        if kind == 'set_radius':
            v = rng.uniform(20.0, 200.0) * rng.choice([-1, 1]) if rng.random() < (0.93 if focus != 'asphere' else 0.75) else INF
            ops.append(['set_radius', v, ks])
        elif kind == 'set_conic':
            ops.append(['set_conic', rng.uniform(-2.5, 1.0), ks])
        elif kind == 'set_thickness':
            k = rng.randrange(0, n - 1)
            ops.append(['set_thickness', rng.uniform(0.5, 40.0), k])
        elif kind == 'set_index':
            ops.append(['set_index', rng.uniform(1.3, 1.95), rng.randrange(0, max(1, n - 1 - img_obj))])
        elif kind == 'set_coeff':
            if evens and not structural:
                k = rng.choice(evens)
                j = rng.randrange(-ncoef[k], ncoef[k]) if rng.random() < 0.3 else rng.randrange(ncoef[k])
                ops.append(['set_coeff', rng.uniform(-1, 1) * 1e-5, k, j])
        elif kind == 'var':
            vk = rng.choice(['radius', 'conic', 'thickness', 'index', 'asphere_coeff', 'tilt', 'decenter']
                            + (['asphere_coeff'] * 6 if focus == 'asphere' else []))
            scaled = rng.random() < 0.5
            if vk == 'radius':
                v = rng.uniform(-2.0, 2.0) if scaled else rng.uniform(20., 200.) * rng.choice([-1, 1])
                ops.append(['var', vk, ks, scaled, v, None])
            elif vk == 'conic':
                ops.append(['var', vk, ks, scaled, rng.uniform(-2.0, 1.0), None])
            elif vk == 'thickness':
                v = rng.uniform(-0.9, 3.0) if scaled else rng.uniform(0.5, 40.0)
                ops.append(['var', vk, rng.randrange(0, n - 1), scaled, v, None])
            elif vk == 'index':
                v = rng.uniform(-0.2, 0.4) if scaled else rng.uniform(1.3, 1.95)
                ops.append(['var', vk, rng.randrange(0, max(1, n - 1 - img_obj)), scaled, v, W0])
            elif vk == 'asphere_coeff':
                if evens and not structural:
                    k = rng.choice(evens)
                    j = rng.randrange(ncoef[k])
                    v = rng.uniform(-1, 1) * (10 ** (-1 + 0 * j) if scaled else 1e-5 * 10 ** (-2 * j))
                    ops.append(['var', vk, k, scaled, v, j])
            else:
                # (an explicit ImageSurface records paraxial rays in its LOCAL frame, an ordinary surface in the global one:
                #  a decentred ImageSurface is outside the model; not generated)
                kd = ks if not (img_obj and ks == n - 1) else max(0, n - 2)
                ops.append(['var', vk, kd, scaled, rng.uniform(-0.05, 0.05), rng.choice(['x', 'y'])])
        elif kind == 'pickup':
            a = rng.choice(['radius', 'radius', 'conic', 'thickness'])
            hi = n - 1 if a == 'thickness' else n
            src, tgt = rng.randrange(0 if a != 'thickness' else 1, hi), rng.randrange(1, hi)
            for _try in range(8):
                if tgt != src:
                    break
                tgt = rng.randrange(1, hi)
            if tgt == src:
                continue
            # one pickup per target quantity and no cycles (such sets have no solution under any semantics);
            # chains are allowed in any declaration order
            if (a, tgt) in pk_edges or _reaches(pk_edges, (a, src), (a, tgt)):
                continue
            pk_edges[(a, tgt)] = (a, src)
            sc = rng.choice([1.0, -1.0, rng.uniform(-2, 2)])
            off = rng.choice([0.0, rng.uniform(-5, 5)])
            if a == 'thickness':
                sc, off = abs(sc) or 1.0, abs(off)
            ops.append(['pickup', src, a, tgt, sc, off])
        elif kind == 'solve':
            if has_stop and n >= 3:
                idx = rng.randrange(2, n) if rng.random() < 0.9 else 1
                if rng.random() < 0.35:
                    idx = n - 1                   # the usual use: on the image surface
                ops.append(['solve', idx, rng.uniform(-3.0, 3.0)])
        elif kind == 'update':
            ops.append(['update'])
        elif kind == 'image_solve':
            if has_stop:
                ops.append(['image_solve'])
        elif kind == 'wavelength':
            ops.append(['wavelength', rng.choice([0.45, 0.5, 0.62, 0.7]), rng.random() < 0.5])
        elif kind == 'remove':
            if n > 3:
                idx = rng.randrange(1, n - 1)
                stop_now = _stop_of(ops)
                if stop_now == idx:
                    has_stop = False
                ops.append(['remove', idx])
                n -= 1
                structural = True
                evens = []
                # later solves / pickups may now point past the end: stop generating them
                weights.update(pickup=0, solve=0, update=0, image_solve=0)
        elif kind == 'insert':
            idx = rng.randrange(1, n)
            st = rng.random() < 0.5
            ops.append(['add', idx, 'standard', rng.uniform(30., 90.), 0.0, [], rng.uniform(1., 5.), 'air', st,
                        0.0, 0.0, 0.0, 0.0])
            has_stop = has_stop or st
            n += 1
            structural = True
            evens = []
            weights.update(pickup=0, solve=0, update=0, image_solve=0)
        elif kind == 'invalid':
            ops.append(rng.choice([['set_radius', 50.0, n + 1], ['set_thickness', 3.0, n - 1], ['set_index', 1.5, n - 1],
                                   ['set_conic', 0.5, n], ['remove', 0], ['remove', n],
                                   ['add', n + 1, 'standard', 50.0, 0.0, [], 1.0, 'air', False, 0., 0., 0., 0.],
                                   ['pickup', n, 'radius', 1, 1.0, 0.0], ['set_coeff', 1e-6, 0, 0]]))
            break            # the call raises (possibly after a partial mutation): the history ends here
    return assign_types(rng, hist)


def _reaches(edges, start, goal):
    """following target -> source links from `start`, do we arrive at `goal`?"""
    cur, seen = start, set()
    while cur in edges and cur not in seen:
        seen.add(cur)
        cur = edges[cur]
        if cur == goal:
            return True
    return cur == goal and start != goal


def _stop_of(ops):
    """index of the stop surface implied by the adds / removes so far (None if none)"""
    flags = []
    for o in ops:
        if o[0] in ('add', 'add_obj'):
            st = bool(o[8]) and o[1] != 0
            if st:
                flags = [False] * len(flags)
            flags.insert(o[1], st)
        elif o[0] == 'remove' and 0 < o[1] < len(flags):
            del flags[o[1]]
    return flags.index(True) if True in flags else None


# --------------------------------------------------------------------------
# implementation driver
# --------------------------------------------------------------------------
def new_optic(hist):
    """a fresh Optic, or (route 'reuse') an Optic that held a DIFFERENT lens with pickups / solves, was queried,
    and then emptied with reset()"""
    import numpy as np
    from optiland.optic import Optic
    o = Optic()
    if hist.get('route') == 'reuse':
        o.add_surface(index=0, thickness=123.0)
        o.add_surface(index=1, radius=31.0, thickness=4.5, material='air', is_stop=True)
        o.add_surface(index=2, radius=-44.0, thickness=17.25, conic=-0.3)
        o.add_surface(index=3, radius=90.0, thickness=33.0)
        o.add_surface(index=4)
        o.set_aperture('EPD', 5.0)
        o.set_field_type('angle')
        o.add_field(y=1.0)
        o.add_wavelength(0.61, is_primary=True)
        o.add_wavelength(0.5)
        o.pickups.add(1, 'radius', 2, scale=-1.0)
        o.solves.add('marginal_ray_height', 4, 0.0)
        o.set_thickness(2.0, 1)
        try:
            o.paraxial.f2(); o.paraxial.EPL(); o.update()
        except Exception:     # noqa
            pass
        o.reset()
    o.set_aperture(hist['ap'][0], hist['ap'][1])
    o.set_field_type('angle')
    o.add_field(y=0.0)
    return o


def apply_op(o, op, ty=None):
    """apply one op through the public API; ty: argument name -> type class (see cast / cast_list)"""
    import numpy as np
    from optiland.materials import IdealMaterial
    from optiland.optimization.variable.variable import Variable
    ty = ty or {}
    C = lambda name, v: cast(v, ty.get(name))
    t = op[0]
    if t == 'add':
        _, idx, st, R, k, c, th, mat, stop, dx, dy, rx, ry = op
        kw = {'radius': C('R', R)}
        if k != 0.0 or st != 'standard' or ty.get('k') not in (None, 'float'):
            kw['conic'] = C('k', k)
        if st == 'even_asphere':
            kw['coefficients'] = cast_list(c, ty.get('c'))
        elif st in ('polynomial', 'chebyshev'):
            kw['coefficients'] = cast_list(c, ty.get('c') or 'list2_f')
            if st == 'chebyshev':
                kw['norm_x'], kw['norm_y'] = 40.0, 50.0
        for nm, v in (('dx', dx), ('dy', dy), ('rx', rx), ('ry', ry)):
            if v != 0.0:
                kw[nm] = v
        m = mat if isinstance(mat, str) else IdealMaterial(n=C('n', mat[1]), k=0.0)
        o.add_surface(index=idx, surface_type=st, thickness=C('t', th), material=m, is_stop=bool(stop), **kw)
    elif t == 'add_obj':
        from optiland.surfaces import Surface, ImageSurface
        from optiland.geometries import Plane, StandardGeometry
        from optiland.coordinate_system import CoordinateSystem
        _, idx, st, R, k, c, th, mat, stop, z = op
        pre = o.surface_group.surfaces[idx - 1].material_post          # the medium behind the predecessor, the same object
        cs = CoordinateSystem(z=float(z))
        geo = Plane(cs) if math.isinf(R) else StandardGeometry(cs, C('R', R), C('k', k))
        if st == 'image':
            new = ImageSurface(geo, pre)
        else:
            post = pre if mat == 'same' else IdealMaterial(n=1.0, k=0.0) if mat == 'air' else IdealMaterial(n=C('n', mat[1]), k=0.0)
            new = Surface(geo, pre, post, is_stop=bool(stop))
        o.add_surface(new_surface=new, index=idx, thickness=C('t', th))
    elif t == 'remove':
        o.surface_group.remove_surface(op[1])
    elif t == 'set_radius':
        o.set_radius(C('v', op[1]), op[2])
    elif t == 'set_conic':
        o.set_conic(C('v', op[1]), op[2])
    elif t == 'set_thickness':
        o.set_thickness(C('v', op[1]), op[2])
    elif t == 'set_index':
        o.set_index(C('v', op[1]), op[2])
    elif t == 'set_coeff':
        o.set_asphere_coeff(C('v', op[1]), op[2], op[3])
    elif t == 'var':
        _, vk, k, scaled, v, extra = op
        kw = {'surface_number': k}
        if vk == 'index':
            kw['wavelength'] = extra
        elif vk == 'asphere_coeff':
            kw['coeff_number'] = extra
        elif vk in ('tilt', 'decenter'):
            kw['axis'] = extra
        Variable(o, vk, apply_scaling=bool(scaled), **kw).update(C('v', v))
    elif t == 'pickup':
        o.pickups.add(op[1], op[2], op[3], scale=C('sc', op[4]), offset=C('off', op[5]))
    elif t == 'solve':
        o.solves.add('marginal_ray_height', op[1], C('h', op[2]))
    elif t == 'update':
        o.update()
    elif t == 'image_solve':
        o.image_solve()
    elif t == 'wavelength':
        o.add_wavelength(op[1], is_primary=bool(op[2]))
    else:
        raise ValueError('unknown op ' + str(t))


KIND_TAG = {'Plane': 0, 'StandardGeometry': 1, 'EvenAsphere': 2, 'PolynomialGeometry': 3,
            'ChebyshevPolynomialGeometry': 3}


def f1(v):
    import numpy as np
    return float(np.ravel(v)[0])


def coefs_of(g):
    """coefficients of an aspheric / polynomial / Chebyshev geometry, row-major (else [])"""
    import numpy as np
    if type(g).__name__ in ('EvenAsphere', 'PolynomialGeometry', 'ChebyshevPolynomialGeometry'):
        return [float(v) for v in np.ravel(np.asarray(g.c, dtype=float))]
    return []


def observe(o):
    """(nums, coefs, ints) in the order of obs_num / obs_coef / obs_int of Model/M_C01_Run.v"""
    nums, coefs, ints = [], [], []
    ss = o.surface_group.surfaces
    ids = []
    for s in ss:
        g = s.geometry
        cs = g.cs
        has_k = hasattr(g, 'k')
        c = coefs_of(g)
        nums += [f1(cs.x), f1(cs.y), f1(cs.z), f1(cs.rx), f1(cs.ry), f1(g.radius), f1(g.k) if has_k else 0.0]
        nums += [f1(s.material_pre.n(W0)), f1(s.material_post.n(W0))]
        coefs += c
        ints += [KIND_TAG.get(type(g).__name__, 4), int(has_k), int(bool(s.is_stop)), int(bool(s.is_reflective)), len(c)]
        ids += [id(s.material_pre), id(s.material_post)]
    seen = {}
    for i in ids:
        ints.append(seen.setdefault(i, len(seen)))
    for w in o.wavelengths.wavelengths:
        nums.append(float(w._value))
        ints.append(int(bool(w.is_primary)))
    nums.append(float(o.surface_group.surface_factory.last_thickness))
    ints += [len(o.pickups), len(o.solves), len(ss)]
    return nums, coefs, ints


def run_impl(hist, observe_each=True):
    """returns list of ('ok', obs) / ('err', ExceptionName) per op (stops at the first exception)"""
    import numpy as np
    warnings.simplefilter('ignore')
    o = new_optic(hist)
    out = []
    with np.errstate(all='ignore'):
        for i, op in enumerate(hist['ops']):
            try:
                apply_op(o, op, (hist.get('types') or {}).get(str(i)))
            except Exception as e:     # noqa
                out.append(('err', type(e).__name__))
                break
            out.append(('ok', observe(o) if observe_each else None))
    return o, out


# --------------------------------------------------------------------------
# the property, stated on the implementation
# --------------------------------------------------------------------------
def quantities(o):
    """every prescription quantity the property speaks about, keyed"""
    import numpy as np
    q = {}
    ss = o.surface_group.surfaces
    z = [f1(s.geometry.cs.z) for s in ss]
    conic = o.surface_group.conic
    radii = o.surface_group.radii
    for k, s in enumerate(ss):
        g = s.geometry
        q[('R', k)] = float(radii[k])
        q[('k', k)] = float(conic[k])
        q[('n', k)] = f1(s.material_post.n(W0))
        q[('x', k)] = f1(g.cs.x)
        q[('y', k)] = f1(g.cs.y)
        q[('rx', k)] = f1(g.cs.rx)
        q[('ry', k)] = f1(g.cs.ry)
        q[('geom', k)] = type(g).__name__
        q[('stop', k)] = bool(s.is_stop)
        for j, v in enumerate(coefs_of(g)):
            q[('c', k, j)] = v
        q[('coef_container', k)] = (type(g.c).__name__ + ':' + (str(np.asarray(g.c).dtype) if len(np.ravel(np.asarray(g.c))) else 'empty')) \
            if hasattr(g, 'c') else 'none'
        for nm in ('norm_x', 'norm_y'):
            if hasattr(g, nm):
                q[(nm, k)] = float(getattr(g, nm))
        if k + 1 < len(ss):
            q[('t', k)] = f1(o.surface_group.get_thickness(k))
    if len(ss) > 1:
        q[('z1',)] = z[1]
    return q


def feq(a, b, tol=1e-9):
    if isinstance(a, str) or isinstance(b, str) or isinstance(a, bool):
        return a == b
    if a != a and b != b:
        return True            # an unchanged NaN is unchanged
    if a != a or b != b:
        return False
    if math.isinf(a) or math.isinf(b):
        return a == b
    return abs(a - b) <= tol * (1 + abs(a) + abs(b))


def ceq(a, b):
    """coefficients are compared as exact real values (they are far below any absolute tolerance)"""
    if a is None or b is None:
        return False
    if a != a and b != b:
        return True
    return a == b or abs(a - b) <= 1e-12 * max(abs(a), abs(b))


def same_q(kk, a, b):
    if kk[0] == 'c':
        return ceq(a, b)
    if kk[0] == 'coef_container':
        return True            # the container may be normalised; its VALUES are compared entry by entry
    if kk[0] == 'R':
        return req(a, b, 1e-9)
    return feq(a, b, 1e-9)


GEOM_OK = {('Plane', 'StandardGeometry'), ('StandardGeometry', 'Plane')}    # how a radius is given to / taken from a flat surface


def frame_violation(before, after, key):
    """first quantity other than `key` that differs between two snapshots (missing / new keys included)"""
    for kk in list(after) + [x for x in before if x not in after]:
        if kk == key or kk == ('z1',):
            continue
        if kk not in before or kk not in after:
            return kk
        if kk[0] == 'geom':
            if after[kk] != before[kk] and not (key is not None and key[0] == 'R' and kk[1] == key[1]
                                                and (before[kk], after[kk]) in GEOM_OK):
                return kk
            continue
        if not same_q(kk, after[kk], before[kk]):
            return kk
    return None


def req(a, b, tol=1e-9):
    """radii: +inf and -inf are the same flat surface (curvature 0)"""
    if isinstance(a, float) and isinstance(b, float) and math.isinf(a) and math.isinf(b):
        return True
    return feq(a, b, tol)


def media_chain(o):
    """None, or the first k where the medium behind k is not the medium in front of k+1"""
    ss = o.surface_group.surfaces
    for k in range(len(ss) - 1):
        if ss[k + 1].material_pre is not ss[k].material_post:
            return k
        if not feq(f1(ss[k + 1].material_pre.n(W0)), f1(ss[k].material_post.n(W0))):
            return k
    return None


def mirror_media(o):
    """None, or the first reflecting surface whose two sides are not the same medium (a mirror does not
    separate two media: the factory gives it material_post = material_pre)"""
    for k, sf in enumerate(o.surface_group.surfaces):
        if sf.is_reflective and (sf.material_pre is not sf.material_post) and \
                not feq(f1(sf.material_pre.n(W0)), f1(sf.material_post.n(W0))):
            return k
    return None


def counts(o):
    return (sum(1 for s in o.surface_group.surfaces if s.is_stop),
            sum(1 for w in o.wavelengths.wavelengths if w.is_primary), len(o.wavelengths.wavelengths))


def pickup_value(o, attr, k):
    if attr == 'radius':
        return float(o.surface_group.radii[k])
    if attr == 'conic':
        return float(o.surface_group.conic[k])
    return f1(o.surface_group.get_thickness(k))


def target_of(op):
    """the quantity an edit op sets: (key, value) or None"""
    t = op[0]
    if t == 'set_radius':
        return ('R', op[2]), op[1]
    if t == 'set_conic':
        return ('k', op[2]), op[1]
    if t == 'set_thickness':
        return ('t', op[2]), op[1]
    if t == 'set_index':
        return ('n', op[2]), op[1]
    if t == 'set_coeff':
        return ('c', op[2], op[3]), op[1]
    if t == 'var':
        _, vk, k, scaled, v, extra = op
        if vk == 'radius':
            return ('R', k), ((v + 1.0) * 100.0 if scaled else v)
        if vk == 'conic':
            return ('k', k), v
        if vk == 'thickness':
            return ('t', k), ((v + 1.0) * 10.0 if scaled else v)
        if vk == 'index':
            return ('n', k), (v + 1.5 if scaled else v)
        if vk == 'asphere_coeff':
            return ('c', k, extra), (v / 10 ** (4 + 2 * extra) if scaled else v)
        if vk == 'tilt':
            return ('r' + extra, k), v
        if vk == 'decenter':
            return (extra, k), v
    return None


def check_history(hist, stop_at_first=True):
    """runs the history on the implementation and checks every clause of C01 after every call.
    Returns a list of violation dicts (empty = the property held on this history)."""
    import numpy as np
    warnings.simplefilter('ignore')
    o = new_optic(hist)
    viol = []
    structural = False
    thick = []                 # thicknesses given so far (index-order build)
    nb = hist.get('nbuild', 0)
    inorder = True
    with np.errstate(all='ignore'):
        for i, op in enumerate(hist['ops']):
            t = op[0]
            nbefore = len(o.surface_group.surfaces)
            before = quantities(o) if t not in ('add', 'add_obj', 'wavelength') else None
            obj_inf = nbefore > 0 and math.isinf(f1(o.surface_group.surfaces[0].geometry.cs.z))
            geom_before = [type(s.geometry).__name__ for s in o.surface_group.surfaces]
            hask_before = [hasattr(s.geometry, 'k') for s in o.surface_group.surfaces]
            valid = op_valid(op, o)
            ty_i = (hist.get('types') or {}).get(str(i))
            pre_ua = None
            pre_ya = None
            if (t in ('image_solve', 'solve') or (t == 'update' and len(o.solves))) and valid:
                try:
                    _mr = o.paraxial.marginal_ray()
                    pre_ya = [f1(v) for v in _mr[0]]
                    pre_ua = [f1(v) for v in _mr[1]]
                except Exception:     # noqa
                    pre_ua = None
            try:
                apply_op(o, op, ty_i)
            except Exception as e:     # noqa
                if valid:
                    viol.append({'clause': 'raises', 'op_index': i, 'op': op, 'error': type(e).__name__,
                                 'msg': str(e)[:120], 'geom_before': geom_before, 'hask_before': hask_before,
                                 'coef_container': (before or {}).get(('coef_container', op[2])) if op[0] in ('set_coeff', 'var') else None,
                                 'arg_types': ty_i})
                break
            def V(clause, **kw):
                d = {'clause': clause, 'op_index': i, 'op': op, 'object_infinite': bool(obj_inf)}
                d.update(kw)
                viol.append(d)
            # ---- stop / primary wavelength: after every call, whatever the history
            ns, npr, nwv = counts(o)
            if ns > 1:
                V('stop-count', count=ns)
            if nwv > 0 and npr != 1:
                V('primary-count', count=npr)
            if t in ('add', 'add_obj'):
                if op[1] != nbefore:
                    structural = True
                    inorder = False
                if inorder:
                    # vertex positions = running sums, first surface at zero, object at -t0
                    thick.append(op[6])
                    ss = o.surface_group.surfaces
                    z = [f1(s.geometry.cs.z) for s in ss]
                    exp = [-thick[0]]
                    acc = 0.0
                    for th in thick[1:]:
                        exp.append(acc)
                        acc += th
                    for k in range(len(z)):
                        if not feq(z[k], exp[k]):
                            V('build-position', surface=k, got=z[k], expected=exp[k])
                            break
                    mc = media_chain(o)
                    if mc is not None:
                        V('media-chain', surface=mc)
                    s = ss[-1]
                    for nm, j in ((('x', 9), ('y', 10), ('rx', 11), ('ry', 12)) if t == 'add' else ()):
                        if not feq(f1(getattr(s.geometry.cs, nm)), op[j]):
                            V('build-decentre', field=nm)
                    # the surface carries what was entered: radius, index behind it
                    if not req(float(s.geometry.radius), float(op[3])):
                        V('build-value', field='radius', got=float(s.geometry.radius), expected=op[3])
                    n_exp = None if op[7] in ('mirror', 'same') else 1.0 if op[7] == 'air' else op[7][1]
                    if n_exp is not None and not feq(f1(s.material_post.n(W0)), n_exp):
                        V('build-value', field='index', got=f1(s.material_post.n(W0)), expected=n_exp)
            elif t == 'remove':
                structural = True
            elif target_of(op) is not None and not structural:
                key, val = target_of(op)
                if key[0] == 'c' and key[2] < 0:       # Python's negative index into the coefficient list
                    key = ('c', key[1], key[2] + sum(1 for kk in before if kk[0] == 'c' and kk[1] == key[1]))
                after = quantities(o)
                info = dict(geom_before=geom_before[key[1]] if len(key) > 1 and key[1] < len(geom_before) else None,
                            hask_before=hask_before[key[1]] if len(key) > 1 and key[1] < len(hask_before) else None,
                            coef_container=before.get(('coef_container', key[1])) if len(key) > 1 else None,
                            arg_types=ty_i)
                if not same_q(key, after.get(key, float('nan')), val):
                    V('edit-readback', key=list(key), got=after.get(key), expected=val, **info)
                else:
                    kk = frame_violation(before, after, key)
                    if kk is not None:
                        V('edit-frame', key=list(key), changed=list(kk), was=before.get(kk), now=after.get(kk), **info)
                if key[0] == 't' and not feq(after.get(('z1',), 0.0), 0.0) and not viol:
                    V('edit-first-surface-moved', z1=after.get(('z1',)))
                mc = media_chain(o)
                if mc is not None:
                    V('media-chain', surface=mc)
                mm = mirror_media(o)
                if mm is not None and not viol:
                    V('mirror-media', surface=mm)
            elif t == 'pickup' and not structural:
                _, src, a, tgt, sc, off = op
                if not (req if a == 'radius' else feq)(pickup_value(o, a, tgt), sc * pickup_value(o, a, src) + off, 1e-9):
                    V('pickup-unsatisfied', pickup=op[1:], stage='add', got=pickup_value(o, a, tgt),
                      expected=sc * pickup_value(o, a, src) + off, dependency=(a != 'thickness' and False))
                else:
                    key = ({'radius': 'R', 'conic': 'k', 'thickness': 't'}[a], tgt)
                    kk = frame_violation(before, quantities(o), key)
                    if kk is not None:
                        V('edit-frame', key=list(key), changed=list(kk), was=before.get(kk), now=quantities(o).get(kk),
                          geom_before=geom_before[tgt] if tgt < len(geom_before) else None,
                          hask_before=hask_before[tgt] if tgt < len(hask_before) else None, via='pickup')
            elif t == 'solve' and not structural:
                bad = solve_violation(o, [[op[1], op[2]]], [], 'add')
                if bad and bad.get('precondition_failed'):
                    break
                if pre_ua is not None and op[1] >= 1 and not abs(pre_ua[op[1] - 1]) > 1e-9:
                    break            # precondition: the ray arriving at the surface is not parallel to the axis
                if bad:
                    bad['launch_changed'] = launch_changed(o, pre_ya, pre_ua)
                    V(**bad)
            elif t == 'update' and not structural:
                pks = [[p.source_surface_idx, p.attr_type, p.target_surface_idx, p.scale, p.offset]
                       for p in o.pickups.pickups]
                svs = [[s.surface_idx, s.height] for s in o.solves.solves]
                for pi, (src, a, tgt, sc, off) in enumerate(pks):
                    if not (req if a == 'radius' else feq)(pickup_value(o, a, tgt), sc * pickup_value(o, a, src) + off, 1e-9):
                        V('pickup-unsatisfied', pickup=pks[pi], stage='update', got=pickup_value(o, a, tgt),
                          expected=sc * pickup_value(o, a, src) + off,
                          dependency=pickup_dependency(pi, pks, svs, o), pickups=pks, solves=svs)
                        break
                bad = solve_violation(o, svs, pks, 'update')
                if bad and bad.get('precondition_failed'):
                    break            # division by a zero slope: inf/NaN vertices are the documented outcome
                if bad:
                    bad['launch_changed'] = launch_changed(o, pre_ya, pre_ua)
                    V(**bad)
                mc = media_chain(o)
                if mc is not None:
                    V('media-chain', surface=mc)
            elif t == 'image_solve' and not structural:
                ya, ua = o.paraxial.marginal_ray()
                y = f1(ya[-1])
                scale = max(abs(f1(v)) for v in ya) or 1.0
                # precondition: the marginal ray is not parallel to the axis in image space (afocal lens)
                if pre_ua is not None and abs(pre_ua[-1]) > 1e-9 and not (abs(y) <= 1e-9 * (1 + scale)):
                    V('image-solve-focus', ya_last=y, same_medium=feq(f1(ua[-1]), f1(ua[-2])),
                      launch_changed=launch_changed(o, pre_ya, pre_ua))
                if pre_ua is None or not abs(pre_ua[-1]) > 1e-9 or any(abs(v) > 1e8 for v in pre_ua if v == v):
                    break            # precondition failed (afocal): the call legitimately produced inf/NaN
            if viol and stop_at_first:
                break
    return viol[:1] if stop_at_first else viol


def op_valid(op, o):
    """are the arguments of this call valid for the current lens (so that the call has to succeed)?"""
    n = len(o.surface_group.surfaces)
    ss = o.surface_group.surfaces
    t = op[0]
    if t == 'add':
        return 0 <= op[1] <= n and not (op[7] == 'mirror' and op[1] == 0)
    if t == 'add_obj':
        return 1 <= op[1] <= n
    if t == 'remove':
        return 1 <= op[1] < n
    if t in ('set_radius', 'set_conic'):
        return 0 <= op[2] < n
    if t in ('set_thickness', 'set_index'):
        return 0 <= op[2] < n - 1
    if t == 'set_coeff':
        return 0 <= op[2] < n and type(ss[op[2]].geometry).__name__ == 'EvenAsphere' and \
            -len(ss[op[2]].geometry.c) <= op[3] < len(ss[op[2]].geometry.c)
    if t == 'var':
        _, vk, k, scaled, v, extra = op
        if vk in ('radius', 'conic', 'tilt', 'decenter'):
            return 0 <= k < n
        if vk in ('thickness', 'index'):
            return 0 <= k < n - 1
        if vk == 'asphere_coeff':
            return 0 <= k < n and type(ss[k].geometry).__name__ == 'EvenAsphere' and 0 <= extra < len(ss[k].geometry.c)
    if t == 'pickup':
        _, src, a, tgt, sc, off = op
        hi = n - 1 if a == 'thickness' else n
        return 0 <= src < hi and 0 <= tgt < hi
    if t == 'solve':
        return 0 <= op[1] < n and len(o.wavelengths.wavelengths) > 0
    if t in ('update', 'wavelength'):
        return True
    if t == 'image_solve':
        return n >= 2 and len(o.wavelengths.wavelengths) > 0
    return False


def writes_of_pickup(p, o):
    src, a, tgt, sc, off = p
    w = {(a, tgt)}
    if a == 'radius':
        w.add(('conic', tgt))     # a flat target is rebuilt as a StandardGeometry with conic 0
    return w


def pickup_dependency(pi, pks, svs, o):
    """is pickup pi disturbed by something update() applies after it (a later pickup writing its source or
    target, or a solve moving the thickness it reads / sets)?"""
    src, a, tgt, sc, off = pks[pi]
    mine = {(a, src), (a, tgt)}
    for q in pks[pi + 1:]:
        if writes_of_pickup(q, o) & mine:
            return True
    if a == 'thickness':
        for idx, h in svs:
            if idx - 1 in (src, tgt):
                return True
    # an earlier pickup with the same target is overwritten by this one: not this pickup's problem
    return False


def launch_changed(o, pre_ya, pre_ua):
    """did the call change the marginal ray in object space (entrance pupil moved for a finite object, or the
    entrance pupil diameter changed for an F-number / NA aperture)?  A solve computed from the old ray cannot
    meet its height then."""
    if pre_ya is None or pre_ua is None:
        return None
    ya, ua = o.paraxial.marginal_ray()
    return not (feq(f1(ya[0]), pre_ya[0], 1e-9) and feq(f1(ua[0]), pre_ua[0], 1e-9))


def independent_marginal(o):
    """marginal ray heights per surface from the APERTURE DEFINITION by matrix optics (tools/oracles.py,
    independent of optiland's Paraxial class); None when not defined / not comparable (no stop, decentred
    surfaces shift optiland's paraxial heights)"""
    import oracles
    import paraxcorr
    try:
        ps = paraxcorr.psurfs(o)
    except Exception:     # noqa
        return None
    if any(abs(p_['y']) > 0 for p_ in ps) or len(ps) < 2:
        return None
    if type(o.surface_group.surfaces[-1]).__name__ == 'ImageSurface':
        ps[-1]['npost'] = ps[-1]['npre']          # an ImageSurface only records the rays (its material_post is never used)
    try:
        q = oracles.abcd_quantities(ps, o.aperture.ap_type, float(o.aperture.value), 'angle', 0.0)
    except Exception:     # noqa
        return None
    if 'marginal' not in q:
        return None
    ys = [0.0 if not math.isinf(ps[0]['z']) else q['EPD'] / 2] + [float(v[0]) for v in q['marginal']]
    return ys if all(math.isfinite(v) for v in ys) else None


def solve_violation(o, svs, pks, stage):
    if not svs:
        return None
    ya, ua = o.paraxial.marginal_ray()
    ya = [f1(v) for v in ya]
    ua = [f1(v) for v in ua]
    if any(abs(v) > 1e8 for v in ya + ua if v == v and not math.isinf(v)):
        # the entrance pupil has come to lie on the object plane (launch slope ~ 1e16): the marginal ray is not
        # defined to working precision any more; nothing after this state is checked
        return {'precondition_failed': True}
    for si, (idx, h) in enumerate(svs):
        if idx >= 1 and not abs(ua[idx - 1]) > 1e-9:
            # precondition of the solve: the ray arriving at the surface is not parallel to the axis
            # (the surfaces in front of idx are not moved by this solve, so this slope is the one it divided by)
            return {'precondition_failed': True}
        if not feq(ya[idx], h, 1e-7):
            powered = idx >= 1 and not feq(ua[idx], ua[idx - 1], 1e-9)
            dep = any(j <= idx for j, _ in svs[si + 1:])
            return {'clause': 'solve-height', 'solve': [idx, h], 'stage': stage, 'got': ya[idx],
                    'powered_surface': bool(powered), 'dependency': bool(dep), 'solves': svs,
                    'ua_before_surface': ua[idx - 1] if idx >= 1 else None, 'ua_after_surface': ua[idx]}
    # the ray the solve works with must be THE marginal ray of the aperture definition
    yi = independent_marginal(o)
    if yi is not None:
        for si, (idx, h) in enumerate(svs):
            scale = max([abs(v) for v in yi] + [abs(v) for v in ya if v == v] + [1.0])
            if idx < len(yi) and abs(yi[idx] - h) > 1e-6 * scale and feq(ya[idx], h, 1e-7):
                return {'clause': 'solve-height', 'solve': [idx, h], 'stage': stage, 'got': yi[idx], 'independent_ray': True,
                        'library_ray_height': ya[idx], 'aperture': [o.aperture.ap_type, float(o.aperture.value)],
                        'object_index': f1(o.surface_group.surfaces[0].material_post.n(W0)), 'solves': svs,
                        'first_surface_z': f1(o.surface_group.surfaces[1].geometry.cs.z)}
    return None


# --------------------------------------------------------------------------
# Coq rendering
# --------------------------------------------------------------------------
def fh(x):
    import vlib
    return vlib.fhex(x)


def fl(xs):
    return '[' + '; '.join(fh(x) for x in xs) + ']'


def zl(xs):
    import vlib
    return '[' + '; '.join(vlib.zlit(x) for x in xs) + ']'


def b(v):
    return 'true' if v else 'false'


AP = {'EPD': 'EPDt', 'imageFNO': 'FNOt', 'objectNA': 'NAt'}
ATTR = {'radius': 'ARadius', 'conic': 'AConic', 'thickness': 'AThickness'}


def coq_op(op):
    import vlib
    z = vlib.zlit
    t = op[0]
    if t == 'add':
        _, idx, st, R, k, c, th, mat, stop, dx, dy, rx, ry = op
        kind = 'GEven' if st == 'even_asphere' else 'GOther' if st in ('polynomial', 'chebyshev') else 'GStd'
        if kind == 'GOther':
            c = [v for r in c for v in r]
        m = 'MAir' if mat == 'air' else 'MMirror' if mat == 'mirror' else f'(MIdeal {fh(mat[1])})'
        return (f'AddSurface (O:=FOps) {z(idx)} {kind} {fh(R)} {fh(k)} {fl(c)} {fh(th)} {m} {b(stop)} '
                f'{fh(dx)} {fh(dy)} {fh(rx)} {fh(ry)}')
    if t == 'add_obj':
        _, idx, st, R, k, c, th, mat, stop, zz = op
        m = 'MAir' if mat == 'air' else 'MMirror' if mat == 'same' else f'(MIdeal {fh(mat[1])})'
        return (f'AddReady (O:=FOps) {z(idx)} GStd {fh(R)} {fh(k)} [] {fh(zz)} {fh(th)} {m} {b(stop)} false')
    if t == 'remove':
        return f'RemoveSurface (O:=FOps) {z(op[1])}'
    if t == 'set_radius':
        return f'SetRadius (O:=FOps) {fh(op[1])} {z(op[2])}'
    if t == 'set_conic':
        return f'SetConic (O:=FOps) {fh(op[1])} {z(op[2])}'
    if t == 'set_thickness':
        return f'SetThickness (O:=FOps) {fh(op[1])} {z(op[2])}'
    if t == 'set_index':
        return f'SetIndex (O:=FOps) {fh(op[1])} {z(op[2])}'
    if t == 'set_coeff':
        return f'SetAsphereCoeff (O:=FOps) {fh(op[1])} {z(op[2])} {z(op[3])}'
    if t == 'var':
        _, vk, k, scaled, v, extra = op
        kk = {'radius': 'VRadius', 'conic': 'VConic', 'thickness': 'VThickness', 'index': 'VIndex'}.get(vk)
        if vk == 'asphere_coeff':
            kk = f'(VAsphere {z(extra)})'
        elif vk == 'tilt':
            kk = f'(VTilt "{extra}"%string)'
        elif vk == 'decenter':
            kk = f'(VDecenter "{extra}"%string)'
        return f'VarUpdate (O:=FOps) {kk} {z(k)} {b(scaled)} {fh(v)}'
    if t == 'pickup':
        return f'PickupAdd (O:=FOps) {z(op[1])} {ATTR[op[2]]} {z(op[3])} {fh(op[4])} {fh(op[5])}'
    if t == 'solve':
        return f'SolveAdd (O:=FOps) {z(op[1])} {fh(op[2])}'
    if t == 'update':
        return '(Update (O:=FOps))'
    if t == 'image_solve':
        return '(ImageSolve (O:=FOps))'
    if t == 'wavelength':
        return f'AddWavelength (O:=FOps) {fh(op[1])} {b(op[2])}'
    raise ValueError(t)


def coq_history(name, hist, impl):
    """Definition of the op list and of the expected observations"""
    ops = hist['ops'][:len(impl)]
    o = f'Definition {name}_ops : list (op FOps) := [\n  ' + ';\n  '.join(coq_op(x) for x in ops) + '].\n'
    exp = []
    for r in impl:
        if r[0] == 'err':
            exp.append('None')
        else:
            exp.append(f'Some ({fl(r[1][0])}, {fl(r[1][1])}, {zl(r[1][2])})')
    e = f'Definition {name}_exp : list (option (list float * list float * list Z)) := [\n  ' + ';\n  '.join(exp) + '].\n'
    return o + e


def model_vs_impl(hists, tol=1e-9, tag='C01hist', chunk=12):
    """runs every history on the implementation and in the Coq model; returns
    (impl results, list of (history index, step index) where they differ, number of compared states)"""
    import vlib
    impls = [run_impl(h)[1] for h in hists]
    bodies, keys = [], []
    for start in range(0, len(hists), chunk):
        defs, lines, ks = [], [], []
        for hi in range(start, min(start + chunk, len(hists))):
            h, im = hists[hi], impls[hi]
            defs.append(coq_history(f'h{hi}', h, im))
            apv = f'({AP[h["ap"][0]]}, {fh(h["ap"][1])})'
            lines.append(f'check_trace {fh(tol)} (trace_run (empty_lens (O:=FOps) {apv}) h{hi}_ops) h{hi}_exp')
            ks.append((hi, len(im)))
        bodies.append('\n'.join(defs) + '\nEval vm_compute in (report (List.concat [\n' + ';\n'.join(lines) + '\n])).\n')
        keys.append(ks)
    res = vlib.run_cases(tag, 'From OV Require Import Model.Paraxial Model.M_C01 Model.M_C01_Run.', bodies)
    fails = []
    n = 0
    for ks, r in zip(keys, res):
        if r[0] == 'error':
            raise RuntimeError(r[1])
        n += r[0]
        # flat index -> (history, step)
        flat = []
        for hi, ln in ks:
            flat += [(hi, s) for s in range(ln)]
        for i in r[2]:
            fails.append(flat[i] if i < len(flat) else (ks[-1][0], -1))
        if r[1] > len(r[2]):
            fails.append((ks[0][0], -2))
    return impls, fails, n

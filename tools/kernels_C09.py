"""C09 kernels: the arithmetic / decision code of optiland/wavefront.py and of
RmsWavefrontErrorVsField that py2coq (+ tools/py2coq_c09.py) translates into coq/Gen/Wavefront.v
(regenerated on every run).  The glue (which ray is traced when, the loops over fields and
wavelengths, the vignetting scalings of Optic.trace / RayGenerator) is hand-modelled in
coq/Model/M_C09.v on top of Model/Trace.v and Model/Paraxial.v and tied to the code by
tools/props/C09.py."""
from py2coq_c09 import C09Kernel

WF = 'optiland/wavefront.py'
RV = 'optiland/analysis/rms_vs_field.py'
_R = ['Num.OpsC09']
_K = dict(kclass=C09Kernel, requires=_R)

# one ray's column of the (surfaces, rays) record arrays
_REC = {'self.optic.surface_group.' + a: 'list' for a in ('x', 'y', 'z', 'L', 'M', 'N', 'opd', 'intensity')}
# the entries about media / vignetting factors / wavelength are only read by the code once the proposed fixes
# (proposed_fixes/C09-*.diff) are applied; they are inert for the code as it stands
_OBJ = {'self.optic.image_surface.material_pre': 'obj', 'self.optic.object_surface.material_post': 'obj'}
_TILT_T = dict({'field': 'pair', 'self.optic.field_type': 'str'}, **_OBJ)
_TILT_O = {'self.optic.paraxial.EPD': 'num', 'self.optic.object_surface.material_post.n': 'num',
           'self.optic.image_surface.material_pre.n': 'num'}
_VIG = ['self.optic.fields.get_vig_factor']

MODULES = {
    'Wavefront': [
        dict(name='wf_ref_sphere', file=WF, cls='Wavefront', func='_get_reference_sphere', types=dict(_REC), **_K),
        dict(name='wf_image_to_xp', file=WF, cls='Wavefront', func='_opd_image_to_xp', types=dict(_REC), **_K),
        dict(name='wf_get_path_length', file=WF, cls='Wavefront', func='_get_path_length', types=dict(_REC, **_OBJ),
             static={'wavelength': 'notnone'}, opaque_calls=dict(_TILT_O),
             calls={'self._opd_image_to_xp': 'wf_image_to_xp'}, **_K),
        # _correct_tilt as called for the chief ray (x=0, y=0 given) ...
        dict(name='wf_tilt_xy', file=WF, cls='Wavefront', func='_correct_tilt', types=dict(_TILT_T),
             static={'x': 'notnone', 'y': 'notnone', 'wavelength': 'notnone'}, opaque_calls=dict(_TILT_O),
             opaque_pairs=_VIG, **_K),
        # ... and as called for the pupil batch (x, y default to the distribution's points)
        dict(name='wf_tilt_dist', file=WF, cls='Wavefront', func='_correct_tilt', types=dict(_TILT_T),
             static={'x': 'none', 'y': 'none', 'wavelength': 'notnone'}, opaque_calls=dict(_TILT_O),
             opaque_pairs=_VIG, **_K),
        # _generate_field_data: everything after the trace (the trace itself is Model/Trace.v)
        dict(name='wf_field_data', file=WF, cls='Wavefront', func='_generate_field_data',
             types=dict(_REC, **_TILT_T), ignore_calls=['self.optic.trace'],
             calls={'self._get_path_length': 'wf_get_path_length', 'self._correct_tilt': 'wf_tilt_dist'},
             opaque_calls=dict(_TILT_O), opaque_pairs=_VIG, **_K),
        dict(name='wf_opd_rms', file=WF, cls='OPD', func='rms', types={'self.data': 'wfdata'}, **_K),
        dict(name='wf_rms_vs_field', file=RV, cls='RmsWavefrontErrorVsField', func='_rms_wavefront_error',
             types={'self.data': 'wfdata', 'self.num_fields': 'int', 'self.wavelengths': 'list'}, **_K),
    ],
}
MODULE_DEPS = {}

"""Shared machinery of the checks: regenerate -> prove -> correspond -> decide -> evidence."""
import fcntl
import hashlib
import json
import os
import random
import re
import shutil
import subprocess
import sys
import time

VERIF = os.path.dirname(os.path.dirname(os.path.abspath(__file__)))
REPO = os.environ.get('VERIF_REPO', '/repo')
COQ = os.path.join(VERIF, 'coq')
BUILD = os.path.join(VERIF, 'build')
PY = '/venv/bin/python'
sys.path.insert(0, os.path.join(VERIF, 'tools'))

import py2coq   # noqa: E402
import kernels  # noqa: E402

ALLOWED_AXIOMS = {
    # Coq standard library real-number axioms (Reals)
    'ClassicalDedekindReals.sig_not_dec', 'ClassicalDedekindReals.sig_forall_dec',
    'FunctionalExtensionality.functional_extensionality_dep',
    # classical logic from the standard library (pulled in by Reals/Coquelicot lemmas)
    'Classical_Prop.classic',
}
# primitive types/operations reported by Print Assumptions (native, not axioms of ours)
PRIMITIVE_PREFIXES = ('PrimFloat.', 'Uint63.', 'PrimInt63.', 'Sint63.', 'FloatOps.', 'PArray.')


def sh(cmd, timeout=1200, cwd=None, env=None):
    e = dict(os.environ)
    if env:
        e.update(env)
    p = subprocess.run(cmd, shell=isinstance(cmd, str), cwd=cwd, env=e, timeout=timeout,
                       stdout=subprocess.PIPE, stderr=subprocess.STDOUT, text=True)
    return p.returncode, p.stdout


class Lock:
    def __enter__(self):
        os.makedirs(BUILD, exist_ok=True)
        self.f = open(os.path.join(BUILD, '.lock'), 'w')
        fcntl.flock(self.f, fcntl.LOCK_EX)
        return self

    def __exit__(self, *a):
        fcntl.flock(self.f, fcntl.LOCK_UN)
        self.f.close()


# --------------------------------------------------------------------------
# step 1: regenerate the model from /repo's working tree
# --------------------------------------------------------------------------
def write_if_changed(path, text):
    os.makedirs(os.path.dirname(path), exist_ok=True)
    old = None
    if os.path.exists(path):
        old = open(path).read()
    if old != text:
        with open(path, 'w') as f:
            f.write(text)
        return True
    return False


def regenerate(modules=None):
    """Translate every kernel module from REPO's current sources into coq/Gen.
    Returns (manifests by kernel name, failures list, changed-files list)."""
    registry = {}
    manifests = {}
    failures = []
    changed = []
    # The translation is a pure function of the current sources of REPO/optiland, of the translator and of the kernel
    # lists: its result is memoised under a digest of exactly those file contents (build/gencache, not committed), so
    # that twenty checks on one unchanged tree translate once.  Any edit of any of these files gives a new digest.
    import hashlib, pickle, glob as _glob
    hsh = hashlib.sha256()
    srcs = sorted(_glob.glob(os.path.join(REPO, 'optiland', '**', '*.py'), recursive=True))
    srcs += sorted(_glob.glob(os.path.join(VERIF, 'tools', 'py2coq*.py'))) + sorted(_glob.glob(os.path.join(VERIF, 'tools', 'kernels*.py')))
    for fn in srcs:
        hsh.update(os.path.relpath(fn, '/').encode() + b'\0')
        with open(fn, 'rb') as fh:
            hsh.update(fh.read())
        hsh.update(b'\1')
    cache_fn = os.path.join(BUILD, 'gencache', hsh.hexdigest() + '.pkl')
    translated = None
    if os.path.exists(cache_fn) and not os.environ.get('VERIF_NO_GENCACHE'):
        try:
            with open(cache_fn, 'rb') as fh:
                translated = pickle.load(fh)
        except Exception:   # noqa
            translated = None
    if translated is None:
        translated = []
        for mod, specs in kernels.MODULES.items():
            text, mans, fails = py2coq.translate_module(mod, specs, REPO, registry)
            # imports of earlier Gen modules
            deps = kernels.MODULE_DEPS.get(mod, [])
            if deps:
                imp = 'From OV Require Import ' + ' '.join('Gen.' + d for d in deps) + '.\n'
                text = text.replace('Set Implicit Arguments.\n', 'Set Implicit Arguments.\n' + imp, 1)
            translated.append((mod, text, mans, fails))
        # the plumbing of the real-ray trace (which step runs when): tools/py2coq_plumb.py -> Gen/Plumbing.v
        import py2coq_plumb
        translated.append(('Plumbing',) + tuple(py2coq_plumb.translate(REPO)))
        try:
            os.makedirs(os.path.dirname(cache_fn), exist_ok=True)
            tmp = cache_fn + f'.{os.getpid()}.tmp'
            with open(tmp, 'wb') as fh:
                pickle.dump(translated, fh)
            os.replace(tmp, cache_fn)
            # keep the cache small
            old = sorted(_glob.glob(os.path.join(BUILD, 'gencache', '*.pkl')), key=os.path.getmtime)[:-6]
            for o in old:
                os.remove(o)
        except Exception:   # noqa
            pass
    for mod, text, mans, fails in translated:
        if write_if_changed(os.path.join(COQ, 'Gen', mod + '.v'), text):
            changed.append(mod)
        for m in mans:
            m['module'] = mod
            manifests[m['name']] = m
        for f in fails:
            f['module'] = mod
            failures.append(f)
    os.makedirs(os.path.join(BUILD, 'manifest'), exist_ok=True)
    with open(os.path.join(BUILD, 'manifest', 'kernels.json'), 'w') as f:
        json.dump(manifests, f, indent=1)
    return manifests, failures, changed


# --------------------------------------------------------------------------
# step 2: prove
# --------------------------------------------------------------------------
def coq_files():
    out = []
    for d in ('Num', 'Gen', 'Spec', 'Model', 'Lemmas', 'Props'):
        p = os.path.join(COQ, d)
        if not os.path.isdir(p):
            continue
        for fn in sorted(os.listdir(p)):
            if fn.endswith('.v'):
                out.append(f'{d}/{fn}')
    return out


def write_coqproject():
    txt = '-Q . OV\n-arg -w -arg -deprecated,-notation-overridden,-ambiguous-paths,-inexact-float\n' + '\n'.join(coq_files()) + '\n'
    ch = write_if_changed(os.path.join(COQ, '_CoqProject'), txt)
    if ch or not os.path.exists(os.path.join(COQ, 'Makefile')):
        sh('coq_makefile -f _CoqProject -o Makefile', cwd=COQ)


def coq_make(targets, timeout=1500):
    """make the given .vo targets (full .vo build).  Returns (ok, log)."""
    write_coqproject()
    rc, out = sh(['timeout', str(timeout), 'make', '-j16', '-k'] + targets, cwd=COQ, timeout=timeout + 30)
    return rc == 0, out


def parse_coq_error(log):
    """first 'File "...", line N ... Error: ...' block"""
    m = re.search(r'File "([^"]+)", line (\d+), characters [^\n]*\n(Error:.*?)(?:\n\n|\nmake|\Z)', log, re.S)
    if not m:
        return None
    return {'file': m.group(1), 'line': int(m.group(2)), 'error': m.group(3)[:600]}


def theorem_at(path, line):
    """name of the last Lemma/Theorem starting at or before `line` in file"""
    try:
        lines = open(os.path.join(COQ, path)).read().split('\n') if not os.path.isabs(path) else open(path).read().split('\n')
    except OSError:
        return None
    name = None
    for ln in lines[:line]:
        m = re.match(r'\s*(?:Local\s+|Global\s+)?(Lemma|Theorem|Corollary|Example|Definition|Fixpoint|Fact|Remark)\s+([A-Za-z0-9_\']+)', ln)
        if m:
            name = m.group(2)
    return name


def cone_of(prop, extra=()):
    """source files in the dependency cone of Props/<prop>.v (plus extra targets)"""
    files = set()
    for t in [f'Props/{prop}.v'] + [e[:-1] if e.endswith('.vo') else e for e in extra]:
        rc, out = sh(['coqdep', '-Q', '.', 'OV', '-sort', t], cwd=COQ)
        files.update(x for x in out.split() if x.endswith('.v'))
    return files


def forbidden_source_scan(only=None):
    """grep the Coq development (or the given cone of files) for anything that would void the kernel's guarantee"""
    bad = []
    pat = re.compile(r'\b(Admitted|admit|Axiom|Parameter|Conjecture|Admit Obligations)\b|Unset\s+Guard|bypass_check|type-in-type|impredicative-set|Unset\s+Positivity|Unset\s+Universe')
    for rel in coq_files():
        if only is not None and rel not in only:
            continue
        txt = open(os.path.join(COQ, rel)).read()
        # strip comments
        txt2 = re.sub(r'\(\*.*?\*\)', '', txt, flags=re.S)
        for i, ln in enumerate(txt2.split('\n')):
            if pat.search(ln):
                bad.append(f'{rel}:{i + 1}: {ln.strip()[:80]}')
        # Variable/Hypothesis outside a section
        depth = 0
        for i, ln in enumerate(txt2.split('\n')):
            if re.match(r'\s*Section\s', ln) or re.match(r'\s*Module Type\s', ln):
                depth += 1
            elif re.match(r'\s*End\s', ln):
                depth = max(0, depth - 1)
            elif depth == 0 and re.match(r'\s*(Variables?|Hypothes[ie]s|Context)\s', ln):
                bad.append(f'{rel}:{i + 1}: {ln.strip()[:80]} (outside a section)')
    return bad


def props_assumptions(prop):
    """(re)compile Props/<prop>.v and parse the Print Assumptions output.
    returns (ok, theorems: {name: [axioms]}, log)"""
    rel = f'Props/{prop}.v'
    rc, out = sh(['timeout', '600', 'coqc', '-Q', '.', 'OV', '-w', '-deprecated,-notation-overridden,-ambiguous-paths,-inexact-float', rel], cwd=COQ, timeout=700)
    if rc != 0:
        return False, {}, out
    src = open(os.path.join(COQ, rel)).read()
    names = re.findall(r'Print Assumptions\s+([A-Za-z0-9_\']+)\s*\.', src)
    # split output into blocks: each Print Assumptions prints either "Closed under the global context" or "Axioms:\n..."
    blocks = re.split(r'(?=Closed under the global context|Axioms:)', out)
    blocks = [b for b in blocks if b.startswith('Closed') or b.startswith('Axioms:')]
    res = {}
    for n, b in zip(names, blocks):
        if b.startswith('Closed'):
            res[n] = []
        else:
            axs = re.findall(r'^([A-Za-z_][A-Za-z0-9_\.\']*)\s*$|^([A-Za-z_][A-Za-z0-9_\.\']*)\s*:', b, re.M)
            res[n] = [x or y for x, y in axs if (x or y) != 'Axioms']
    if len(blocks) != len(names):
        return False, res, out + f'\n[assumption blocks {len(blocks)} != theorems {len(names)}]'
    return True, res, out


def axiom_ok(a):
    return a in ALLOWED_AXIOMS or a.startswith(PRIMITIVE_PREFIXES)


# --------------------------------------------------------------------------
# step 3: correspondence (model evaluated by vm_compute inside Coq)
# --------------------------------------------------------------------------
def fhex(x):
    """binary64 -> Coq PrimFloat literal (exact)"""
    x = float(x)
    if x != x:
        return 'nan'
    if x == float('inf'):
        return 'infinity'
    if x == float('-inf'):
        return 'neg_infinity'
    h = x.hex()
    if h.startswith('-'):
        return f'(-{h[1:]})'
    return h


def flist(xs):
    return '[' + '; '.join(fhex(x) for x in xs) + ']'


def zlit(n):
    n = int(n)
    return f'{n}%Z' if n >= 0 else f'({n})%Z'


CASE_HEADER = '''From Coq Require Import ZArith List String Bool PrimFloat.
From OV Require Import Ops FloatInst.
{imports}
Import ListNotations.
Local Open Scope float_scope.
'''


def run_cases(tag, imports, bodies, jobs=16, timeout=900):
    """bodies: list of Coq texts; each must end in one `Eval vm_compute in (report [...])`
    printing (n, nfail, [idx...]).  Returns list of (n, nfail, idxs) or raises RuntimeError."""
    d = os.path.join(COQ, 'Cases', f'{tag}_{os.getpid()}')
    shutil.rmtree(d, ignore_errors=True)
    os.makedirs(d)
    files = []
    for i, b in enumerate(bodies):
        fn = os.path.join(d, f'c{i}.v')
        with open(fn, 'w') as f:
            f.write(CASE_HEADER.format(imports=imports) + b)
        files.append(fn)
    procs = []
    results = [None] * len(files)
    logs = [None] * len(files)
    idx = 0
    running = []
    t0 = time.time()
    while idx < len(files) or running:
        while idx < len(files) and len(running) < jobs:
            p = subprocess.Popen(['bash', '-c', f'ulimit -s unlimited 2>/dev/null; exec timeout {timeout} coqc -Q {COQ} OV -w -all {files[idx]}'],
                                 stdout=subprocess.PIPE, stderr=subprocess.STDOUT, text=True, cwd=d)
            running.append((idx, p))
            idx += 1
        for (i, p) in list(running):
            if p.poll() is not None:
                out = p.stdout.read()
                logs[i] = out
                running.remove((i, p))
                m = re.search(r'=\s*\((\d+),\s*(\d+),\s*\[([^\]]*)\]\)', out.replace('\n', ' ').replace('%nat', ''))
                if p.returncode != 0 or not m:
                    results[i] = ('error', out[-2000:])
                else:
                    ids = [int(x) for x in m.group(3).replace(';', ' ').split()] if m.group(3).strip() else []
                    results[i] = (int(m.group(1)), int(m.group(2)), ids)
        time.sleep(0.02)
    keep = os.environ.get('VERIF_KEEP_CASES')
    if not keep:
        shutil.rmtree(d, ignore_errors=True)
    return results


# --------------------------------------------------------------------------
# generic kernel-level correspondence: run the Python method itself against k_<name> FOps
# --------------------------------------------------------------------------
KERNEL_RUNNER = r'''
import sys, json, types, importlib, numpy as np, warnings
warnings.simplefilter('ignore')
np.seterr(all='ignore')
job = json.load(open(sys.argv[1]))
man = job['manifest']
mod = importlib.import_module(man['file'][:-3].replace('/', '.'))
cls = getattr(mod, man['cls']) if man['cls'] else None
fn = getattr(cls, man['func']) if cls else getattr(mod, man['func'])
import inspect
raw = inspect.getattr_static(cls, man['func']) if cls else fn
is_static = isinstance(raw, staticmethod)
sig = inspect.signature(fn)
pnames = [p for p in sig.parameters if p != 'self']
scalars = set(job.get('scalars', []))
out = []
def conv(v, kind, path):
    if kind == 'num':
        v = float.fromhex(v) if isinstance(v, str) else float(v)
        if path in job.get('rows2d', []):      # a per-ray record read as records[-1, :] (one surface row, one ray)
            return np.array([[v]], dtype=float)
        return v if path in scalars else np.array([v], dtype=float)
    if kind == 'int':
        return int(v)
    if kind == 'bool':
        return bool(v)
    if kind == 'str':
        return v
    if kind == 'list':
        l = [float.fromhex(x) for x in v]
        return l if path not in job.get('arrays', []) else np.array(l, dtype=float)
    if kind == 'list2':
        return np.array([[float.fromhex(x) for x in r] for r in v], dtype=float)
    if kind == 'intlist':
        return [int(x) for x in v]
    raise ValueError(kind)
def setpath(root, parts, val):
    o = root
    for p in parts[:-1]:
        if not hasattr(o, p):
            setattr(o, p, types.SimpleNamespace())
        o = getattr(o, p)
    if parts[-1].endswith('()'):     # opaque call: the attribute is a callable returning the input value
        setattr(o, parts[-1][:-2], (lambda _v: (lambda *a_, **k_: _v))(val))
        return
    setattr(o, parts[-1], val)
def flat(x):
    if isinstance(x, tuple):
        r = []
        for y in x: r.extend(flat(y))
        return r
    return [x]
def enc(x):
    if isinstance(x, np.ndarray) and np.iscomplexobj(x):   # complex arrays: re, im interleaved (Num/Cx.v cx_flat)
        return [float(v).hex() for y in np.ravel(x) for v in (y.real, y.imag)]
    if isinstance(x, (list,)) or (isinstance(x, np.ndarray) and x.size != 1):
        return [float(np.real(y)).hex() for y in np.ravel(x)]
    if isinstance(x, (bool, np.bool_)):
        return bool(x)
    if isinstance(x, (int, np.integer)) and not isinstance(x, bool):
        return int(x)
    return float(np.real(np.ravel(x)[0])).hex()
for case in job['cases']:
    roots = {}
    if cls is not None and not is_static:
        roots['self'] = object.__new__(cls) if not job.get('plain_self') else types.SimpleNamespace()
        if job.get('shadow') and not job.get('plain_self'):
            # read-only properties named in `shadow` become plain attributes of a throw-away subclass
            roots['self'] = object.__new__(type(cls.__name__, (cls,), {k: None for k in job['shadow']}))
    args = {}
    for inp, v in zip(man['inputs'], case):
        parts = inp['path'].split('.')
        val = conv(v, inp['kind'], inp['path'])
        if len(parts) == 1:
            args[parts[0]] = val
        else:
            if parts[0] not in roots:
                roots[parts[0]] = types.SimpleNamespace()
            setpath(roots[parts[0]], parts[1:], val)
    call = []
    for p in pnames:
        if p in args: call.append(args[p])
        elif p in roots: call.append(roots[p])
        elif sig.parameters[p].default is not inspect.Parameter.empty: call.append(sig.parameters[p].default)
        else: call.append(None)
    try:
        if cls is not None and not is_static:
            r = fn(roots['self'], *call)
        else:
            r = fn(*call)
        vals = []
        for o in man['outputs']:
            pass
        rets = flat(r) if r is not None else []
        res = []
        ri = 0
        for o in man['outputs']:
            if o['label'].startswith('ret'):
                res.append(enc(rets[ri])); ri += 1
            else:
                parts = o['label'].split('.')
                obj = roots[parts[0]] if parts[0] in roots else args[parts[0]]
                for p in parts[1:]:
                    obj = getattr(obj, p)
                res.append(enc(obj))
        out.append({'ok': res})
    except Exception as e:
        out.append({'err': type(e).__name__, 'msg': str(e)[:100]})
json.dump(out, open(sys.argv[2], 'w'))
'''


def py_env():
    return {'PYTHONPATH': REPO, 'PYTHONHASHSEED': '0', 'MPLBACKEND': 'Agg', 'OPTILAND_VERIF': '1',
            'PYTHONDONTWRITEBYTECODE': '1'}


def run_python(script_text, job, timeout=900):
    d = os.path.join(BUILD, 'tmp')
    os.makedirs(d, exist_ok=True)
    tag = f'{os.getpid()}_{random.randrange(10**9)}'
    sp = os.path.join(d, f's_{tag}.py')
    jp = os.path.join(d, f'j_{tag}.json')
    op = os.path.join(d, f'o_{tag}.json')
    open(sp, 'w').write(script_text)
    json.dump(job, open(jp, 'w'))
    rc, out = sh([PY, sp, jp, op], env=py_env(), timeout=timeout, cwd=d)
    res = None
    if rc == 0 and os.path.exists(op):
        res = json.load(open(op))
    for p in (sp, jp, op):
        if os.path.exists(p):
            os.remove(p)
    if res is None:
        raise RuntimeError('python runner failed:\n' + out[-3000:])
    return res


def coq_arg(kind, v):
    if kind == 'num':
        return fhex(float.fromhex(v) if isinstance(v, str) else v)
    if kind == 'int':
        return zlit(v)
    if kind == 'bool':
        return 'true' if v else 'false'
    if kind == 'str':
        return '"' + v + '"%string'
    if kind == 'list':
        return '[' + '; '.join(fhex(float.fromhex(x)) for x in v) + ']'
    if kind == 'list2':
        return '[' + '; '.join('[' + '; '.join(fhex(float.fromhex(x)) for x in r) + ']' for r in v) + ']'
    if kind == 'intlist':
        return '[' + '; '.join(zlit(x) for x in v) + ']'
    if kind == 'boollist':
        return '[' + '; '.join('true' if x else 'false' for x in v) + ']'
    if kind == 'wfdata':     # C09: per field, per wavelength, (opd floats, intensity floats)
        return '[' + '; '.join('[' + '; '.join(f'({flist(o)}, {flist(i)})' for o, i in row) + ']' for row in v) + ']'
    raise ValueError(kind)


def kernel_correspondence(man, cases, tol=None, scalars=(), arrays=(), plain_self=False, chunk=400, shadow=(), pyres=None, rows2d=()):
    """cases: list of input tuples (num as float, list as [float]...).  Runs the real Python
    function and k_<name> FOps on each and compares inside Coq.
    Returns dict(n=..., mismatches=[{case, python, ...}], errors=...)."""
    enc_cases = []
    for c in cases:
        ec = []
        for inp, v in zip(man['inputs'], c):
            k = inp['kind']
            if k == 'num':
                ec.append(float(v).hex())
            elif k == 'list':
                ec.append([float(x).hex() for x in v])
            elif k == 'list2':
                ec.append([[float(x).hex() for x in r] for r in v])
            else:
                ec.append(v)
        enc_cases.append(ec)
    job = {'manifest': man, 'cases': enc_cases, 'scalars': list(scalars), 'arrays': list(arrays), 'plain_self': plain_self, 'shadow': list(shadow), 'rows2d': list(rows2d)}
    if pyres is None:
        pyres = run_python(KERNEL_RUNNER, job)
    tol_s = 'same' if tol is None else f'(close {fhex(tol)})'
    outs = man['outputs']
    bodies = []
    index = []
    for start in range(0, len(enc_cases), chunk):
        lines = []
        for ci in range(start, min(start + chunk, len(enc_cases))):
            ec, pr = enc_cases[ci], pyres[ci]
            callargs = ' '.join(coq_arg(inp['kind'], v) if inp['kind'] not in ('num',) else fhex(float.fromhex(v)) for inp, v in zip(man['inputs'], ec))
            call = f'(k_{man["name"]} FOps {callargs})'
            if 'err' in pr:
                if man['can_raise']:
                    lines.append(f'match {call} with None => true | Some _ => false end')
                else:
                    lines.append('false')
                continue
            pat = ', '.join(f'o{j}' for j in range(len(outs)))
            if len(outs) > 1:
                pat = "'(" + pat + ')'
            cmps = []
            for j, (o, pv) in enumerate(zip(outs, pr['ok'])):
                if o['kind'] == 'num':
                    cmps.append(f'{tol_s} o{j} {fhex(float.fromhex(pv))}')
                elif o['kind'] == 'int':
                    cmps.append(f'(o{j} =? {zlit(pv)})%Z')
                elif o['kind'] == 'bool':
                    cmps.append(f'Bool.eqb o{j} {"true" if pv else "false"}')
                elif o['kind'] == 'list':
                    pvl = pv if isinstance(pv, list) else [pv]
                    cmps.append(f'close_list {fhex(tol if tol is not None else 0.0)} o{j} [' + '; '.join(fhex(float.fromhex(x)) for x in pvl) + ']')
                elif o['kind'] == 'list2':     # 2-D table, compared row-major (C09)
                    flat2 = [x for row in pv for x in row]
                    cmps.append(f'close_list {fhex(tol if tol is not None else 0.0)} (List.concat o{j}) [' + '; '.join(fhex(float.fromhex(x)) for x in flat2) + ']')
                elif o['kind'] == 'boollist':
                    cmps.append(f'(if list_eq_dec Bool.bool_dec o{j} [' + '; '.join('true' if x else 'false' for x in pv) + '] then true else false)')
                else:
                    cmps.append('false')
            body = ' && '.join(cmps) if cmps else 'true'
            if man['can_raise']:
                lines.append(f'match {call} with None => false | Some {pat.lstrip(chr(39))} => {body} end')
            else:
                lines.append(f'(let {pat} := {call} in {body})')
        bodies.append('Eval vm_compute in (report [\n' + ';\n'.join(lines) + '\n]).\n')
        index.append(start)
    res = run_cases('k_' + man['name'], f'From OV Require Import Gen.{man["module"]}.', bodies)
    mism = []
    errors = []
    n = 0
    for start, r in zip(index, res):
        if r[0] == 'error':
            errors.append(r[1])
            continue
        n += r[0]
        for i in r[2]:
            ci = start + i
            mism.append({'kernel': man['name'], 'case_index': ci,
                         'inputs': {inp['path']: v for inp, v in zip(man['inputs'], cases[ci])},
                         'python': pyres[ci]})
        if r[1] > len(r[2]):
            mism.append({'kernel': man['name'], 'note': f'{r[1] - len(r[2])} further mismatches in this shard'})
    nerr = sum(1 for p in pyres if 'err' in p)
    return {'n': n, 'mismatches': mism, 'errors': errors, 'python_errors': nerr, 'pyres': pyres}


# --------------------------------------------------------------------------
# random inputs
# --------------------------------------------------------------------------
class Gen:
    def __init__(self, seed):
        self.r = random.Random(seed)

    def uni(self, a, b):
        return self.r.uniform(a, b)

    def unit3(self):
        while True:
            v = [self.r.gauss(0, 1) for _ in range(3)]
            n = sum(x * x for x in v) ** 0.5
            if n > 1e-3:
                return [x / n for x in v]

    def special(self, p=0.05):
        """occasionally a special value"""
        if self.r.random() < p:
            return self.r.choice([0.0, float('inf'), float('-inf'), float('nan'), 1.0, -1.0])
        return None


# --------------------------------------------------------------------------
# evidence / verdict
# --------------------------------------------------------------------------
def load_known_findings(prop):
    out = []
    paths = [os.path.join(VERIF, 'known_findings.json')]
    d = os.path.join(VERIF, 'known_findings.d')
    if os.path.isdir(d):
        paths += [os.path.join(d, x) for x in sorted(os.listdir(d)) if x.endswith('.json')]
    for p in paths:
        if not os.path.exists(p):
            continue
        data = json.load(open(p))
        out += [f for f in data.get('findings', []) if f.get('property') == prop and f.get('status', 'open') == 'open']
    return out


def write_replay(prop, payload):
    os.makedirs(os.path.join(VERIF, 'replays'), exist_ok=True)
    h = hashlib.sha1(json.dumps(payload, sort_keys=True, default=str).encode()).hexdigest()[:10]
    path = os.path.join(VERIF, 'replays', f'{prop}-{h}.json')
    with open(path, 'w') as f:
        json.dump(payload, f, indent=1, default=str)
    return os.path.relpath(path, VERIF)


def write_evidence(prop, ev):
    os.makedirs(os.path.join(VERIF, 'evidence'), exist_ok=True)
    with open(os.path.join(VERIF, 'evidence', f'{prop}.json'), 'w') as f:
        json.dump(ev, f, indent=1, default=str)


# --------------------------------------------------------------------------
# independent re-check of the compiled property file (thorough tier)
# --------------------------------------------------------------------------
COQCHK_ALLOWED = ('Coq.Reals.ClassicalDedekindReals.sig_not_dec', 'Coq.Reals.ClassicalDedekindReals.sig_forall_dec',
                  'Coq.Logic.FunctionalExtensionality.functional_extensionality_dep', 'Coq.Logic.Classical_Prop.classic',
                  'Coq.Logic.ProofIrrelevance', 'Coq.Logic.Eqdep.Eq_rect_eq.eq_rect_eq', 'Coq.Logic.JMeq.JMeq_eq',
                  'Coq.Logic.ClassicalEpsilon', 'Coq.Logic.Epsilon', 'Coq.Logic.IndefiniteDescription',
                  'Coq.Logic.ConstructiveEpsilon', 'Coq.Logic.PropExtensionality', 'Coq.Logic.ClassicalFacts',
                  'Coq.Logic.ChoiceFacts', 'Coq.Logic.ClassicalChoice', 'Coq.Logic.ClassicalDescription',
                  'Coq.Logic.ClassicalUniqueChoice', 'Coq.Logic.Description', 'Coq.Logic.RelationalChoice',
                  'Coq.Logic.Classical_Pred_Type', 'Coq.setoid_ring', 'Coq.Reals', 'Coquelicot', 'mathcomp', 'Flocq')
COQCHK_PRIMS = ('Coq.Numbers.Cyclic.Int63.PrimInt63.', 'Coq.Floats.PrimFloat.', 'Coq.Numbers.Cyclic.Int63.Uint63.',
                'Coq.Numbers.Cyclic.Int63.Sint63.', 'Coq.Array.PArray.', 'Coq.Floats.FloatAxioms.', 'Coq.Floats.FloatOps.')


def coqchk(prop, timeout=1500):
    """coqchk -o on Props/<prop>.vo: returns (ok, axioms, not_allowed, tail of log)"""
    rc, out = sh(['timeout', str(timeout), 'coqchk', '-silent', '-o', '-Q', '.', 'OV', f'OV.Props.{prop}'], cwd=COQ, timeout=timeout + 60)
    axs = []
    sect = None
    flags = {}
    for ln in out.split('\n'):
        t = ln.strip()
        if t.startswith('* '):
            sect = t
            if '<none>' in t:
                flags[t.split(':')[0]] = 'none'
            continue
        if sect and sect.startswith('* Axioms') and t and not t.startswith('*'):
            axs.append(t)
    bad = [a for a in axs if not a.startswith(COQCHK_PRIMS) and not a.startswith(COQCHK_ALLOWED)]
    unsafe = [k for k in ('* Constants/Inductives relying on type-in-type', '* Constants/Inductives relying on unsafe (co)fixpoints',
                          '* Inductives whose positivity is assumed') if flags.get(k) != 'none']
    ok = rc == 0 and not bad and not unsafe
    return ok, axs, bad + unsafe, out[-600:]

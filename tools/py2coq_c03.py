"""py2coq extension for property C03 (ray generator + pupil distributions).
Used through `kclass=C03Kernel` in tools/kernels_C03.py; the Coq side of the new primitives is
coq/Num/OpsC03.v.

Supported on top of the base translator (everything else falls through and fails closed there):
  1-D NumPy arrays of data-dependent length (kind 'list'):
    np.linspace(a, b, n)  np.zeros(n)  np.concatenate([a, b]) / ((a, b))
    np.cos / np.sin / np.sqrt / ... of an array (map),   a ** k, a * s, s * a, a + b, ... (broadcast / zip)
    np.meshgrid(x, y)        both results flattened row-major (all later uses are elementwise + mask)
    a <= s                   boolean array (kind 'blist');   a[mask]  ->  mask_filter
    np.outer(a, b).flatten() np.min(a) np.max(a)
  dict literals with int keys (kind 'dict'):  k not in d,  d[k]
  opaque calls returning a pair (spec['opaque_pairs']) and  1 - np.array(<pair>)
  opaque calls whose every occurrence is a different input (spec['opaque_seq'] = {dotted: kind})
  RealRays(...) / PolarizedRays(...)  as the tuple of the constructor arguments
  if/elif chains without else whose targets are unbound before and read after: the missing else raises
  (Python: UnboundLocalError)
"""
import ast

from py2coq import Kernel, Unsupported, V, app, paren, NP_UNARY

RAY_CTORS = ('RealRays', 'PolarizedRays')


class C03Kernel(Kernel):
    # ---------------- helpers ----------------
    def bind(self, name_hint, v):
        if v.kind in ('dict',):
            return v
        return super().bind(name_hint, v)

    def lam1(self, f):
        """fun v => f(v)"""
        return f'(fun v_ => {f("v_")})'

    def lmap(self, f, lst):
        return V('list', app('map', self.lam1(f), lst))

    def list_binop(self, fname, a, b):
        if a.kind == 'list' and b.kind == 'list':
            return V('list', app('zip2', fname, a.coq, b.coq))
        if a.kind == 'list':
            s = paren(self.to_num(b))
            return self.lmap(lambda v: f'{fname} {v} {s}', a.coq)
        s = paren(self.to_num(a))
        return self.lmap(lambda v: f'{fname} {s} {v}', b.coq)

    # ---------------- expressions ----------------
    def expr(self, node, env):
        if isinstance(node, ast.Dict):
            items = []
            for k, v in zip(node.keys, node.values):
                if not (isinstance(k, ast.Constant) and isinstance(k.value, int) and not isinstance(k.value, bool)):
                    raise Unsupported('dict key ' + ast.unparse(k))
                items.append((k.value, self.expr(v, env)))
            kinds = {v.kind for _, v in items}
            if len(kinds) != 1 or kinds != {'list'}:
                raise Unsupported('dict values of kinds ' + repr(kinds))
            return V('dict', items=items)
        return super().expr(node, env)

    def binop(self, node, env):
        a = self.expr(node.left, env)
        b = self.expr(node.right, env)
        if a.kind == 'tuple' or b.kind == 'tuple':
            # scalar (op) pair  /  pair (op) scalar, elementwise
            f = {ast.Add: 'add', ast.Sub: 'sub', ast.Mult: 'mul', ast.Div: 'div'}.get(type(node.op))
            if f is None:
                raise Unsupported('operator on tuple')
            if a.kind == 'tuple' and b.kind == 'tuple':
                raise Unsupported('tuple op tuple')
            if a.kind == 'tuple':
                return V('tuple', items=[V('num', app(f, self.to_num(x), self.to_num(b))) for x in a.items])
            return V('tuple', items=[V('num', app(f, self.to_num(a), self.to_num(x))) for x in b.items])
        if (a.kind == 'list' or b.kind == 'list') and not (a.kind == 'list' and b.kind == 'list'
                                                            and isinstance(node.op, ast.Add) and False):
            if isinstance(node.op, ast.Pow):
                if a.kind == 'list' and isinstance(node.right, ast.Constant) and isinstance(node.right.value, int) \
                        and 1 <= node.right.value <= 8:
                    k = node.right.value

                    def pw(v):
                        out = v
                        for _ in range(k - 1):
                            out = f'mul {v} ({out})'
                        return out
                    return self.lmap(pw, a.coq)
                raise Unsupported('array power')
            f = {ast.Add: 'add', ast.Sub: 'sub', ast.Mult: 'mul', ast.Div: 'div'}.get(type(node.op))
            if f is None:
                raise Unsupported('operator on array')
            if a.kind not in ('list', 'num', 'int', 'bool') or b.kind not in ('list', 'num', 'int', 'bool'):
                raise Unsupported(f'array operator on {a.kind}/{b.kind}')
            return self.list_binop(f, a, b)
        return super().binop(node, env)

    def compare(self, node, env):
        if len(node.ops) == 1 and isinstance(node.ops[0], (ast.In, ast.NotIn)):
            d = self.expr(node.comparators[0], env)
            k = self.expr(node.left, env)
            if d.kind == 'dict' and k.kind == 'int':
                keys = '[' + '; '.join(f'{kk}%Z' if kk >= 0 else f'({kk})%Z' for kk, _ in d.items) + ']'
                e = f'(existsb (Z.eqb {paren(k.coq)}) {keys})'
                return V('bool', e if isinstance(node.ops[0], ast.In) else app('negb', e))
            raise Unsupported('membership test on ' + d.kind)
        if len(node.ops) == 1:
            a = self.expr(node.left, env)
            b = self.expr(node.comparators[0], env)
            if a.kind == 'list' and b.kind in ('num', 'int'):
                f = {ast.Lt: 'ltb_', ast.LtE: 'leb_', ast.Gt: 'gtb_', ast.GtE: 'geb_'}.get(type(node.ops[0]))
                if f is None:
                    raise Unsupported('array comparison ' + type(node.ops[0]).__name__)
                s = paren(self.to_num(b))
                return V('blist', app('map', self.lam1(lambda v: f'{f} {v} {s}'), a.coq))
        return super().compare(node, env)

    def subscript(self, node, env):
        sl = node.slice
        if not isinstance(sl, (ast.Slice, ast.Tuple)):
            base = self.expr(node.value, env)
            if base.kind == 'dict':
                k = self.expr(sl, env)
                if k.kind != 'int':
                    raise Unsupported('dict index of kind ' + k.kind)
                out = '[]'
                for kk, v in reversed(base.items):
                    lit = f'{kk}%Z' if kk >= 0 else f'({kk})%Z'
                    out = f'(if ({paren(k.coq)} =? {lit})%Z then {v.coq} else {out})'
                return V('list', out)
            if base.kind == 'list' and isinstance(sl, (ast.Compare, ast.Name)):
                idx = self.expr(sl, env)
                if idx.kind == 'blist':
                    return V('list', app('mask_filter', base.coq, idx.coq))
        return super().subscript(node, env)

    def call(self, node, env):
        fn = node.func
        dotted = self.dotted_of(fn)
        args = node.args
        if dotted and dotted.split('.')[0] in ('np', 'numpy'):
            name = dotted.split('.', 1)[1]
            if name == 'linspace' and len(args) == 3 and not node.keywords:
                a, b, n = (self.expr(x, env) for x in args)
                if n.kind != 'int':
                    raise Unsupported('linspace count of kind ' + n.kind)
                return V('list', app('linspace_', self.to_num(a), self.to_num(b), n.coq))
            if name == 'zeros' and len(args) == 1 and not node.keywords:
                n = self.expr(args[0], env)
                if n.kind == 'int':
                    return V('list', app('zerosZ', n.coq))
                raise Unsupported('np.zeros of ' + n.kind)
            if name == 'concatenate' and len(args) == 1 and isinstance(args[0], (ast.List, ast.Tuple)):
                parts = [self.expr(e, env) for e in args[0].elts]
                if any(p.kind != 'list' for p in parts):
                    raise Unsupported('concatenate of non-arrays')
                out = parts[0].coq
                for p in parts[1:]:
                    out = f'({out} ++ {p.coq})'
                return V('list', out)
            if name == 'meshgrid' and len(args) == 2 and not node.keywords:
                x = self.bind('mx', self.expr(args[0], env))
                y = self.bind('my', self.expr(args[1], env))
                if x.kind != 'list' or y.kind != 'list':
                    raise Unsupported('meshgrid of non-arrays')
                return V('tuple', items=[V('list', app('mesh_x', x.coq, y.coq)), V('list', app('mesh_y', x.coq, y.coq))])
            if name == 'outer' and len(args) == 2:
                a, b = self.expr(args[0], env), self.expr(args[1], env)
                if a.kind == 'list' and b.kind == 'list':
                    return V('list', app('outer_flat', a.coq, b.coq))
                raise Unsupported('outer of non-arrays')
            if name == 'min' and len(args) == 1 and not node.keywords:
                a = self.expr(args[0], env)
                if a.kind == 'list':
                    return V('num', app('min_list', a.coq))
                raise Unsupported('np.min of ' + a.kind)
            if name == 'max' and len(args) == 1 and not node.keywords:
                a = self.expr(args[0], env)
                if a.kind == 'list':
                    return V('num', app('max_list', a.coq))
                raise Unsupported('np.max of ' + a.kind)
            if name in NP_UNARY and len(args) == 1:
                v = self.expr(args[0], env)
                if v.kind == 'list':
                    return self.lmap(lambda t: f'{NP_UNARY[name]} {t}', v.coq)
            if name in ('array', 'asarray') and len(args) == 1:
                v = self.expr_or_pair(args[0], env)
                return v
        if isinstance(fn, ast.Name) and fn.id in ('min', 'max') and len(args) == 2 and not node.keywords:
            # Python's min(a, b) returns b when b < a, else a; max(a, b) returns b when b > a, else a
            a, b = self.bind('ma', self.expr(args[0], env)), self.bind('mb', self.expr(args[1], env))
            if a.kind in ('num', 'int') and b.kind in ('num', 'int') and 'num' in (a.kind, b.kind):
                an, bn = paren(self.to_num(a)), paren(self.to_num(b))
                c = f'ltb_ {bn} {an}' if fn.id == 'min' else f'ltb_ {an} {bn}'
                return V('num', f'(if {c} then {bn} else {an})')
        if isinstance(fn, ast.Name) and fn.id in RAY_CTORS and not node.keywords:
            return V('tuple', items=[self.expr(a, env) for a in args])
        pairs = self.spec.get('opaque_pairs', ())
        if dotted in pairs:
            return self.pair_input(dotted)
        seq = self.spec.get('opaque_seq', {})
        if dotted in seq:
            k = self._seq_count = getattr(self, '_seq_count', {})
            i = k.get(dotted, 0)
            k[dotted] = i + 1
            key = f'{dotted}()#{i}'
            self.types.setdefault(key, seq[dotted])
            return self.get_input(key)
        return super().call(node, env)

    def coqname(self, dotted):
        return super().coqname(dotted).replace('#', '_')

    def pair_input(self, dotted):
        items = []
        for i in (0, 1):
            key = f'{dotted}()[{i}]'
            self.types.setdefault(key, 'num')
            items.append(self.get_input(key))
        return V('tuple', items=items)

    def expr_or_pair(self, node, env):
        return self.expr(node, env)

    # ---------------- statements ----------------
    def chain_targets(self, s):
        """names assigned in every branch of an if/elif chain that has no final else (None otherwise)"""
        branches = []
        cur = s
        while True:
            branches.append(cur.body)
            if not cur.orelse:
                break
            if len(cur.orelse) == 1 and isinstance(cur.orelse[0], ast.If):
                cur = cur.orelse[0]
                continue
            return None, None        # has a final else
        return cur, [self.assigned_names(b) for b in branches]

    def block(self, stmts, env, k):
        if stmts and isinstance(stmts[0], ast.If) and not getattr(stmts[0], '_c03_done', False):
            s = stmts[0]
            last, names = self.chain_targets(s)
            if last is not None:
                common = [n for n in names[0] if all(n in ns for ns in names[1:])]
                unbound = []
                for n in common:
                    if '.' in n:
                        continue
                    try:
                        self.load_name(n, env)
                    except Unsupported:
                        unbound.append(n)
                used_later = set()
                for r in stmts[1:]:
                    for x in ast.walk(r):
                        if isinstance(x, ast.Name) and isinstance(x.ctx, ast.Load):
                            used_later.add(x.id)
                if any(n in used_later for n in unbound) and self.can_raise_static:
                    # no branch taken => the later read raises UnboundLocalError
                    last.orelse = [ast.Raise(exc=ast.Name(id='UnboundLocalError', ctx=ast.Load()), cause=None)]
                    ast.fix_missing_locations(last)
            s._c03_done = True
        return super().block(stmts, env, k)

    def raising_call(self, r, target, env, cont):
        # a tuple pattern inside `match ... with Some (a, b) => ...` takes no leading quote
        return super().raising_call(r, target, env, cont).replace("| Some '(", "| Some (")

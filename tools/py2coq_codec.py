"""py2coq extension for property C19 ("codec mode" of DESIGN section 4).

`CodecKernel` (used through `kclass=CodecKernel` in tools/kernels_C19.py) does not translate
arithmetic; it regenerates, from the current /repo sources, the *tables* that describe a class's
serialisation code:

  k_<name>_bases : list string                     base classes as written in the class statement
  k_<name>_<method> : list (string * string)       one table per listed method (to_dict, from_dict,
                                                   _from_dict, __init__ ...)

A table has one row per statement of the method (docstring dropped).  A statement that builds a dictionary
literal (`return {..}`, `d = {..}`, `d.update({..})`) is expanded to one row per key: (key, source text of
the value expression).  A subscript store `d['a']['b'] = e` becomes ("a.b", "e").  Every other statement
becomes ("<stmt>", source text).  A method the class does not define is the single row ("<absent>", "").
Source text is `ast.unparse` of the node, so layout/comments do not matter but any change of an expression,
a key, a default or the statement order does: the pinned-table lemmas of Lemmas/L_C19_Pins.v then stop
being provable by reflexivity (fail closed).

`mode='flags'` emits booleans read off the same ASTs (k_flag_*): which of the known defect sites of the
codec are in their repaired form.  Model/M_C19.v takes them as the description of the implementation
(`impl_now`), so the model follows the source across a `fix:` commit.
"""
import ast
import os

from py2coq import Unsupported


def coq_str(s):
    s = ''.join(ch if 32 <= ord(ch) < 127 else '?' for ch in s)
    return '"' + s.replace('"', '""') + '"%string'


def find_class(tree, name):
    for n in tree.body:
        if isinstance(n, ast.ClassDef) and n.name == name:
            return n
    return None


def find_method(cls, name):
    for n in cls.body:
        if isinstance(n, (ast.FunctionDef,)) and n.name == name:
            return n
    return None


def is_doc(st):
    return isinstance(st, ast.Expr) and isinstance(st.value, ast.Constant) and isinstance(st.value.value, str)


def key_text(k):
    if k is None:
        return '**'
    if isinstance(k, ast.Constant):
        return str(k.value)
    return '<' + ast.unparse(k) + '>'


def sub_path(t):
    """d['a']['b'] -> (base 'd', 'a.b'); None when not a chain of constant subscripts on a name"""
    keys = []
    while isinstance(t, ast.Subscript):
        if not isinstance(t.slice, ast.Constant):
            return None
        keys.append(str(t.slice.value))
        t = t.value
    if isinstance(t, ast.Name) and keys:
        return t.id, '.'.join(reversed(keys))
    return None


def rows_of(fn):
    rows = []
    body = [s for s in fn.body if not is_doc(s)]
    args = [a.arg for a in fn.args.posonlyargs + fn.args.args]
    defaults = fn.args.defaults
    nd = len(defaults)
    sig = []
    for i, a in enumerate(args):
        j = i - (len(args) - nd)
        sig.append(a if j < 0 else f'{a}={ast.unparse(defaults[j])}')
    rows.append(('<args>', ', '.join(sig)))

    def dict_rows(prefix, d):
        rows.append(('<dict>', prefix))
        for k, v in zip(d.keys, d.values):
            rows.append((key_text(k), ast.unparse(v)))
        rows.append(('</dict>', ''))

    def walk(stmts, guard):
        for st in stmts:
            g = guard
            if isinstance(st, ast.Return) and isinstance(st.value, ast.Dict):
                dict_rows(g + 'return', st.value)
            elif isinstance(st, ast.Assign) and len(st.targets) == 1 and isinstance(st.value, ast.Dict) \
                    and isinstance(st.targets[0], ast.Name):
                dict_rows(g + st.targets[0].id + ' =', st.value)
            elif isinstance(st, ast.Expr) and isinstance(st.value, ast.Call) \
                    and isinstance(st.value.func, ast.Attribute) and st.value.func.attr == 'update' \
                    and len(st.value.args) == 1 and isinstance(st.value.args[0], ast.Dict):
                dict_rows(g + ast.unparse(st.value.func), st.value.args[0])
            elif isinstance(st, ast.Assign) and len(st.targets) == 1 and sub_path(st.targets[0]):
                base, path = sub_path(st.targets[0])
                rows.append((g + base + '.' + path, ast.unparse(st.value)))
            elif isinstance(st, ast.Return) and isinstance(st.value, ast.Call) and not guard:
                # constructor call: one row per argument so that a swapped/dropped argument is visible
                c = st.value
                rows.append(('<return-call>', ast.unparse(c.func)))
                for i, a in enumerate(c.args):
                    rows.append((f'#{i}', ast.unparse(a)))
                for kw in c.keywords:
                    rows.append((kw.arg or '**', ast.unparse(kw.value)))
            elif isinstance(st, ast.If):
                rows.append(('<if>', g + ast.unparse(st.test)))
                walk(st.body, g + '  ')
                if st.orelse:
                    rows.append(('<else>', g))
                    walk(st.orelse, g + '  ')
                rows.append(('<endif>', g))
            elif isinstance(st, ast.For):
                rows.append(('<for>', g + ast.unparse(st.target) + ' in ' + ast.unparse(st.iter)))
                walk(st.body, g + '  ')
                rows.append(('<endfor>', g))
            else:
                rows.append(('<stmt>', g + ast.unparse(st)))
    walk(body, '')
    return rows


class CodecKernel:
    """duck-typed stand-in for py2coq.Kernel (translate / manifest / coq_text)"""

    def __init__(self, spec, registry, src_root):
        self.spec = spec
        self.name = spec['name']
        self.registry = registry
        self.src_root = src_root
        self.coq_text = None
        self.tables = {}
        self.flags = {}
        self.can_raise_static = False

    def parse(self, rel):
        path = os.path.join(self.src_root, rel)
        if not os.path.exists(path):
            raise Unsupported(f'{rel} not found')
        return ast.parse(open(path).read())

    # ------------------------------------------------------------------ tables
    def translate_tables(self):
        tree = self.parse(self.spec['file'])
        if self.spec.get('cls') is None:
            # module-level functions (the file reader / writer): "bases" lists every top-level definition, so that a
            # new helper on the path between to_dict and the file is noticed
            cls = tree
            out = [f'(* {self.spec["file"]} :: module-level functions (codec tables) *)']
            bases = [n.name for n in tree.body if isinstance(n, (ast.FunctionDef, ast.ClassDef))]
        else:
            cls = find_class(tree, self.spec['cls'])
            if cls is None:
                raise Unsupported(f"class {self.spec['cls']} not found in {self.spec['file']}")
            out = [f'(* {self.spec["file"]} :: class {self.spec["cls"]} (codec tables) *)']
            bases = [ast.unparse(b) for b in cls.bases]
        self.tables['bases'] = bases
        out.append(f'Definition k_{self.name}_bases : list string := [' + '; '.join(coq_str(b) for b in bases) + '].')
        for m in self.spec.get('methods', ['to_dict', 'from_dict', '__init__']):
            fn = find_method(cls, m)
            rows = rows_of(fn) if fn is not None else [('<absent>', '')]
            self.tables[m] = rows
            mm = m.strip('_')
            if m.startswith('_') and not m.startswith('__'):
                mm = 'p_' + mm
            body = ';\n   '.join(f'({coq_str(k)}, {coq_str(v)})' for k, v in rows)
            out.append(f'Definition k_{self.name}_{mm} : list (string * string) :=\n  [{body}].')
        return '\n'.join(out) + '\n'

    # ------------------------------------------------------------------ flags
    def method_rows(self, rel, cls, meth):
        c = find_class(self.parse(rel), cls)
        if c is None:
            raise Unsupported(f'class {cls} not found in {rel}')
        fn = find_method(c, meth)
        return rows_of(fn) if fn is not None else None

    def translate_flags(self):
        f = {}
        # D26: FresnelCoating.to_dict stores the material objects themselves unless it calls their to_dict
        rows = dict(self.method_rows('optiland/coatings.py', 'FresnelCoating', 'to_dict') or [])
        f['fresnel_nested'] = ('.to_dict()' in rows.get('material_pre', '') and '.to_dict()' in rows.get('material_post', ''))
        # D27: Optic.to_dict stores the PolarizationState object unless some encoder is applied to it
        rows = dict(self.method_rows('optiland/optic.py', 'Optic', 'to_dict') or [])
        f['pol_codec'] = rows.get('data.wavelengths.polarization', 'self.polarization') != 'self.polarization'
        # ImageSurface inherits Surface._from_dict, whose 8-argument constructor call does not fit ImageSurface.__init__
        f['image_from_dict'] = self.method_rows('optiland/surfaces/image_surface.py', 'ImageSurface', '_from_dict') is not None
        # Optic.from_dict passes data['aperture'] (None for a lens without aperture) straight to Aperture.from_dict
        rr = self.method_rows('optiland/optic.py', 'Optic', 'from_dict') or []
        f['aperture_none_ok'] = not any(v.strip() == "optic.aperture = Aperture.from_dict(data['aperture'])"
                                        for k, v in rr)
        # PickupManager.from_dict re-applies every pickup (manager.add) instead of only re-attaching it
        rr = self.method_rows('optiland/pickup.py', 'PickupManager', 'from_dict') or []
        f['pickups_applied_on_load'] = any('manager.add(' in v for k, v in rr)
        # Plane.to_dict drops a conic constant kept on the flat surface (attribute k) unless it writes a 'conic' entry
        rr = self.method_rows('optiland/geometries/plane.py', 'Plane', 'to_dict') or []
        f['plane_conic'] = any(k.strip().endswith('.conic') or k.strip() == 'conic' for k, v in rr)
        # EvenAsphere.to_dict / from_dict hand the coefficient list itself to the dictionary / the new geometry
        rr = dict(self.method_rows('optiland/geometries/even_asphere.py', 'EvenAsphere', 'to_dict') or [])
        f['evenasphere_copies'] = rr.get('data.coefficients', 'self.c') != 'self.c'
        self.flags = f
        out = ['(* defect-site flags read off the current sources (see tools/py2coq_codec.py) *)']
        for k, v in f.items():
            out.append(f'Definition k_flag_{k} : bool := {"true" if v else "false"}.')
        return '\n'.join(out) + '\n'

    def translate(self):
        if self.spec.get('mode') == 'flags':
            self.coq_text = self.translate_flags()
        else:
            self.coq_text = self.translate_tables()
        return self.coq_text

    def manifest(self):
        return {'name': self.name, 'file': self.spec['file'], 'cls': self.spec.get('cls'),
                'func': self.spec.get('func', 'to_dict'), 'inputs': [], 'outputs': [], 'can_raise': False,
                'codec': True, 'tables': {k: [list(r) if isinstance(r, tuple) else r for r in v]
                                          for k, v in self.tables.items()},
                'flags': self.flags}

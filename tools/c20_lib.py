"""C20 helpers: seeded generator of sequential .zmx prescriptions, text emitter, the property's own oracle
(expected lens computed from the WRITTEN tokens only), the subprocess script that loads the text with the
real importer and extracts what the resulting Optic contains, and printers of Coq terms for the model run."""
import json
import math
import os

INF = float('inf')

# published catalogue data (Schott / Ohara / CDGM data sheets): name -> (n_d, V_d).  Independent of /repo.
KNOWN_GLASS = {
    'N-BK7': (1.5168, 64.17), 'N-SF11': (1.78472, 25.68), 'N-SK16': (1.62041, 60.32),
    'N-BAF10': (1.67003, 47.11), 'N-FK51A': (1.48656, 84.47), 'N-SF6': (1.80518, 25.36),
    'N-LAK22': (1.65113, 55.89), 'N-KZFS4': (1.61336, 44.49), 'N-LASF44': (1.8042, 46.50),
    'SF2': (1.64769, 33.85), 'K7': (1.51112, 60.41), 'N-BK10': (1.49782, 66.95),
    'N-SF57': (1.84666, 23.78), 'N-LAK9': (1.691, 54.71), 'N-F2': (1.62005, 36.43),
    'N-PSK53A': (1.618, 63.39), 'LF5': (1.58144, 40.85), 'N-SSK5': (1.65844, 50.88),
    'N-BAK4': (1.56883, 55.98), 'S-BSL7': (1.51633, 64.14), 'S-TIH53': (1.84666, 23.78),
    'S-LAH66': (1.7725, 49.6), 'S-FPL51': (1.497, 81.54), 'H-K9L': (1.5168, 64.2),
}
# catalogue glasses whose name collides with another catalogue entry (listed finding D21 family)
COLLIDING_GLASS = {'SF6': (1.80518, 25.43)}
# names that are in no catalogue; the property asks for the model glass (n_d, V_d) written in the file
UNKNOWN_FREE = ['ZZGLASS9', 'QX-77', 'MYGLASS_1', 'XQZ1', 'J-UNOBT5', 'W_W_W']
# unknown names that occur inside some catalogue entry's name (listed finding D21)
UNKNOWN_SUBSTRING = ['K', 'BK', 'SF', 'LAK']

NOISE_HEAD = ['VERS 181105 1000 52000', 'NAME generated lens', 'NOTE 0 some note', 'PFIL 0 0 0', 'LANG 0',
              'UNIT MM X W X CM MR CPMM', 'ENVD 2.0E+1 1 0', 'GFAC 0 0', 'RAIM 0 0 1 1 0 0 0 0 0', 'PUSH 0 0 0 0 0 0',
              'SDMA 0 1 0', 'ROPD 2', 'PICB 1', 'ZVDX 0 0 0', 'ZVDY 0 0 0', 'ZVCX 0 0 0', 'ZVCY 0 0 0', 'ZVAN 0 0 0',
              'VDXN 0 0 0 0 0 0 0 0 0 0 0 0', 'PZUP', '', 'BLNK', 'WWGT 1 1 1', 'FWGN 1 1 1']
NOISE_SURF = ['  DIAM 1.2E+1 0 0 0 1 ""', '  POPS 0 0 0 0 0 0 0 0 1 1 1 1 0 0 0 0', '  HIDE 0 0 0 0 0 0 0 0 0 0',
              '  MIRR 2 0', '  SLAB 3', '  COAT AR', '  COMM a comment', '  FLAP 0 1.2E+1 0', '', '  XDAT 1 0 0 0 1E+0 0 0 0 ""']


def fmt(g, x):
    """a decimal token for x; the written value is float(token)"""
    if x == INF:
        return g.r.choice(['1e400', 'INF'])       # only used in 'wild' files
    style = g.r.random()
    if style < 0.5:
        return repr(float(x))
    if style < 0.8:
        return '%.15E' % x
    if style < 0.9:
        return '%.9g' % x
    return '%.17g' % x


def gen_prescription(g, idx, mode=None, n=None):
    """mode: 'sane' (physically plausible, paraxial data comparable), 'wild' (any numbers / layouts),
    'd21' / 'd22' (inputs of the listed findings), 'nsc' (non-sequential),
    'dupglass' (two surfaces carrying the same unknown glass name with different n_d, V_d)"""
    r = g.r
    if mode is None:
        mode = r.choices(['sane', 'wild'], weights=[70, 30])[0]
    wild = mode == 'wild'
    n0 = r.choice([1, 2, 2, 3, 4, 4, 5, 6, 8, 10, 14, 20, 30]) if idx % 7 else r.choice([1, 30])
    n = n or n0
    finite_obj = r.random() < 0.35
    ft = 1 if (finite_obj and r.random() < 0.7) else 0
    surfs = []
    stop_at = r.randrange(1, n + 1)
    in_glass = False
    for k in range(n + 2):
        s = {'type': 'STANDARD', 'stop': k == stop_at, 'glass': None, 'coni': None, 'parm': None, 'extra_parm': False}
        if k == 0:
            s['curv'] = '0.0'
            # finite object distances over the whole finite range (a far but FINITE object is not an object at infinity)
            od = r.uniform(50, 500) if r.random() < 0.7 else 10 ** r.uniform(3, 15)
            s['disz'] = fmt(g, od) if finite_obj else 'INFINITY'
        elif k == n + 1:
            s['curv'] = r.choice(['0.0', '0', '0.'])
            s['disz'] = r.choice(['0', '0.0'])
        else:
            if r.random() < 0.2:
                s['curv'] = r.choice(['0.0', '0', '-0.0', '0.', '0.000000000000000E+000'])
            else:
                s['curv'] = fmt(g, r.choice([-1, 1]) / r.uniform(12.0, 400.0))
            t = r.uniform(0.3, 12.0)
            if wild and r.random() < 0.15:
                t = r.choice([0.0, -r.uniform(0.1, 5), 1e5, 1e10, 10 ** r.uniform(6, 13), -10 ** r.uniform(6, 13)])
            s['disz'] = fmt(g, t)
            if wild and r.random() < 0.04:
                s['disz'] = r.choice(['INFINITY', '1e400'])
            if r.random() < 0.3:
                s['type'] = 'EVENASPH'
                s['parm'] = [fmt(g, 0.0 if r.random() < 0.4 else r.uniform(-1, 1) * 10 ** (-3 - 2.2 * j)) for j in range(8)]
                s['extra_parm'] = wild and r.random() < 0.3
            if r.random() < 0.35:
                s['coni'] = fmt(g, r.choice([-1.0, r.uniform(-3, 1.5), 0.0]))
            # alternate glass / air, always ending in air
            if not in_glass and k < n and r.random() < 0.75 or (n == 1 and False):
                if r.random() < 0.7:
                    name = r.choice(sorted(KNOWN_GLASS))
                    nd, vd = KNOWN_GLASS[name]
                    s['glass'] = {'name': name, 'nd': repr(nd), 'vd': repr(vd), 'class': 'catalogue'}
                else:
                    name = r.choice(UNKNOWN_FREE)
                    s['glass'] = {'name': name, 'nd': fmt(g, r.uniform(1.45, 1.9)), 'vd': fmt(g, r.uniform(22, 80)),
                                  'class': 'model'}
                in_glass = True
            else:
                in_glass = False
        surfs.append(s)
    if mode == 'd21':
        k = r.randrange(1, n + 1)
        name = r.choice(UNKNOWN_SUBSTRING + sorted(COLLIDING_GLASS))
        if name in COLLIDING_GLASS:
            nd, vd = COLLIDING_GLASS[name]
            surfs[k]['glass'] = {'name': name, 'nd': repr(nd), 'vd': repr(vd), 'class': 'catalogue'}
        else:
            surfs[k]['glass'] = {'name': name, 'nd': fmt(g, r.uniform(1.55, 1.65)), 'vd': fmt(g, r.uniform(40, 55)),
                                 'class': 'model'}
    if mode == 'dupglass':
        surfs[1]['glass'] = {'name': '___BLANK', 'nd': '1.52', 'vd': '60.5', 'class': 'model'}
        if n >= 3:
            surfs[3]['glass'] = {'name': '___BLANK', 'nd': '1.71', 'vd': '29.5', 'class': 'model'}
    if mode == 'd22':
        what = r.choice(['curv', 'curv', 'coni', 'type', 'glass', 'stop'])
        im = surfs[-1]
        im['curv'] = fmt(g, r.choice([-1, 1]) / r.uniform(20.0, 300.0))
        if what == 'coni':
            im['coni'] = fmt(g, r.uniform(-2, 1))
        if what == 'type':
            im['type'] = 'EVENASPH'
            im['parm'] = [fmt(g, r.uniform(-1, 1) * 10 ** (-4 - 2 * j)) for j in range(8)]
        if what == 'glass':
            im['glass'] = {'name': 'N-BK7', 'nd': '1.5168', 'vd': '64.17', 'class': 'catalogue'}
        if what == 'stop':
            for s in surfs:
                s['stop'] = False
            im['stop'] = True
    # aperture
    ap = r.choice(['ENPD', 'ENPD', 'FNUM', 'OBNA'] if finite_obj else ['ENPD', 'ENPD', 'FNUM'])
    apv = fmt(g, {'ENPD': r.uniform(2, 20), 'FNUM': r.uniform(1.4, 16), 'OBNA': r.uniform(0.01, 0.3)}[ap])
    # fields
    nf = r.choice([1, 1, 2, 3, 3, 5, 12])
    ys = sorted(r.uniform(0, 20) for _ in range(nf))
    if r.random() < 0.6:
        ys[0] = 0.0
    xs = [0.0 if r.random() < 0.7 else r.uniform(-10, 10) for _ in range(nf)]
    if wild and nf > 1:
        if r.random() < 0.4:
            r.shuffle(ys)
        if r.random() < 0.3:
            j = r.randrange(1, nf)
            ys[j], xs[j] = ys[0], xs[0]             # duplicated field point
        if r.random() < 0.3:
            j = r.randrange(1, nf)
            ys[j] = ys[0]                           # same y, possibly different x
    fx = [fmt(g, v) for v in xs]
    fy = [fmt(g, v) for v in ys]
    pad = r.choice([0, 12 - nf])
    # wavelengths
    nw = r.choice([1, 1, 2, 3, 3, 3, 5, 12])
    waves = [fmt(g, r.uniform(0.4, 0.75)) for _ in range(nw)]
    extra = r.choice([0, 0, 24 - nw, 2])
    p = {'idx': idx, 'mode': mode, 'surfs': surfs, 'ap': [ap, apv], 'ftype': ft, 'tele': 0,
         'fx': fx, 'fy': fy, 'pad': pad, 'waves': waves, 'wextra': extra, 'pwav': r.randrange(1, nw + 1),
         'pwav_first': r.random() < 0.3, 'gcat': r.choice([None, ['SCHOTT'], ['SCHOTT', 'OHARA', 'CDGM']]),
         'noise': r.random() < 0.7, 'seqline': r.choice(['MODE SEQ', 'MODE SEQ', None]),
         'nl': r.choice(['\n', '\r\n']), 'seed': r.randrange(10 ** 9), 'mode_first': False}
    if mode == 'nsc':
        p['seqline'] = r.choice(['MODE NSC', 'MODE NSC', 'MODE NSEQ', 'MODE MIXED'])
    return p


def emit_lines(p):
    import random
    r = random.Random(p['seed'])
    L = []
    noise = list(NOISE_HEAD) if p['noise'] else ['VERS 181105 1000 52000']
    if p.get('mode_first') and p['seqline']:
        L.append(p['seqline'])
        L.append(noise[0])
    else:
        L.append(noise[0])
        if p['seqline']:
            L.append(p['seqline'])
    L += noise[1:6]
    ap, apv = p['ap']
    L.append({'ENPD': f'ENPD {apv}', 'FNUM': f'FNUM {apv} 0', 'OBNA': f'OBNA {apv} 0'}[ap])
    L += noise[6:9]
    if p['gcat']:
        L.append('GCAT ' + ' '.join(p['gcat']))
    L += noise[9:12]
    nf, nw = len(p['fx']), len(p['waves'])
    L.append(f'FTYP {p["ftype"]} {p["tele"]} {nf} {nw} 0 0 0' + (' 0 0' if r.random() < 0.5 else ''))
    L += noise[12:14]
    L.append('XFLN ' + ' '.join(p['fx'] + ['0'] * p['pad']))
    L.append('YFLN ' + ' '.join(p['fy'] + ['0'] * p['pad']))
    L += noise[14:]
    wt = '' if p.get('wavm_weight') is False else ' 1'
    wl = [f'WAVM {i + 1} {w}{wt}' for i, w in enumerate(p['waves'])]
    wl += [f'WAVM {nw + 1 + i} 0.55 1' for i in range(p['wextra'])]
    pw = f'PWAV {p["pwav"]}'
    L += ([pw] + wl) if p['pwav_first'] else (wl + [pw])
    for k, s in enumerate(p['surfs']):
        L.append(f'SURF {k}')
        body = []
        if s['stop']:
            body.append('  STOP')
        body.append(f'  TYPE {s["type"]}')
        body.append(f'  CURV {s["curv"]} 0 0 0 0 ""' if r.random() < 0.6 else f'  CURV {s["curv"]}')
        if s['parm']:
            for j, v in enumerate(s['parm']):
                body.append(f'  PARM {j + 1} {v}')
            if s.get('extra_parm'):
                body.append(f'  PARM 3 {s["parm"][2]}')       # re-written with the same value
        body.append(f'  DISZ {s["disz"]}')
        if s['glass']:
            gl = s['glass']
            code, tail = r.choice([0, 1]), (' 0 0 0 0 1 0' if r.random() < 0.5 else '')
            form = gl.get('form', 'full')
            if form == 'name':            # vendor files: the glass name only
                body.append(f'  GLAS {gl["name"]}')
            elif form == 'codes':         # name and the two integer codes
                body.append(f'  GLAS {gl["name"]} {code} 0')
            elif form == 'nd_only':       # numeric fields cut short after n_d
                body.append(f'  GLAS {gl["name"]} {code} 0 {gl["nd"]}')
            else:                         # as saved by Zemax
                body.append(f'  GLAS {gl["name"]} {code} 0 {gl["nd"]} {gl["vd"]}' + tail)
        if s['coni'] is not None:
            body.append(f'  CONI {s["coni"]}')
        if p['noise']:
            for _ in range(r.choice([0, 1, 2])):
                body.insert(r.randrange(1, len(body) + 1), r.choice(NOISE_SURF))
        L += body
    return L


GLAS_FORMS = ['full', 'name', 'codes', 'nd_only']
WS_STYLES = ['plain', 'tabs', 'multi', 'trailing']


def respace(line, style, r):
    """the same tokens with the whitespace other writers produce"""
    if style == 'plain' or not line.strip():
        return line
    toks = line.split()
    lead = line[:len(line) - len(line.lstrip())]
    if style == 'tabs':
        return ('\t' if lead else '') + '\t'.join(toks)
    if style == 'multi':
        return lead + ''.join(t + ' ' * r.choice([1, 2, 4]) for t in toks).rstrip() + ' '
    return lead + ' '.join(toks) + r.choice(['  ', ' \t', '\t'])


def emit_text(p):
    import random
    r = random.Random(p['seed'] + 17)
    style = p.get('ws', 'plain')
    return p['nl'].join(respace(ln, style, r) for ln in emit_lines(p)) + p['nl']


def add_variants(p):
    """syntactic variants of the same prescription (drawn from a stream of their own, so the prescriptions
    themselves do not depend on them): GLAS line forms for catalogue glasses, whitespace, WAVM without weight"""
    import random
    r = random.Random(p['seed'] + 4711)
    for s in p['surfs']:
        gl = s['glass']
        if gl and gl['class'] == 'catalogue' and gl['name'] in KNOWN_GLASS:
            gl['form'] = r.choice(['full', 'full', 'name', 'name', 'codes', 'nd_only'])
    p['ws'] = r.choice(WS_STYLES)
    p['wavm_weight'] = r.random() < 0.7
    return p


D_LINE = 0.5875618


def fixed_prescription(idx, form, ws, model=False):
    """fixed corpus: a cemented doublet + singlet at the d line, every glass written in the given GLAS form
    (model=True: unknown names with n_d, V_d written out)"""
    def gl(name):
        if model:
            nd, vd = KNOWN_GLASS[name]
            return {'name': '___BLANK', 'nd': repr(nd), 'vd': repr(vd), 'class': 'model', 'form': 'full'}
        nd, vd = KNOWN_GLASS[name]
        return {'name': name, 'nd': repr(nd), 'vd': repr(vd), 'class': 'catalogue', 'form': form}

    def sf(curv, disz, glass=None, stop=False, coni=None):
        return {'type': 'STANDARD', 'stop': stop, 'glass': glass, 'coni': coni, 'parm': None, 'extra_parm': False,
                'curv': curv, 'disz': disz}
    surfs = [sf('0.0', 'INFINITY'),
             sf('0.0173', '5.5', gl('N-BAK4'), stop=True), sf('-0.0215', '2.25', gl('N-SF57')), sf('-0.0061', '3.0'),
             sf('0.004', '4.0', gl('N-SK16'), coni='-0.8'), sf('-0.0125', '88.0'),
             sf('0.0', '0.0')]
    return {'idx': idx, 'mode': 'sane', 'surfs': surfs, 'ap': ['ENPD', '18.0'], 'ftype': 0, 'tele': 0,
            'fx': ['0.0', '0.0'], 'fy': ['0.0', '1.5'], 'pad': 0,
            'waves': ['0.4861327', repr(D_LINE), '0.6562725'], 'wextra': 0, 'pwav': 2, 'pwav_first': True,
            'gcat': ['SCHOTT'], 'noise': False, 'seqline': 'MODE SEQ', 'nl': '\r\n', 'seed': 1000 + idx,
            'mode_first': True, 'ws': ws, 'wavm_weight': idx % 2 == 0, 'glas_form': 'model' if model else form}


def ynu_focal_length(exp):
    """independent paraxial oracle: y-nu trace of the written curvatures / thicknesses with the published n_d
    (valid at the d line, catalogue and air media only).  None when not applicable"""
    ss = exp['surfs']
    if exp['waves'][exp['prim']] != D_LINE:
        return None
    n, y, u = 1.0, 1.0, 0.0
    for k in range(1, len(ss) - 1):
        s = ss[k]
        m = s['med']
        if m['kind'] == 'air':
            n2 = 1.0
        elif m['kind'] == 'catalogue' and m.get('nd'):
            n2 = m['nd']
        else:
            return None
        sh = s['shape']
        c = 0.0 if sh['geom'] == 'plane' else 1.0 / sh['R']
        u = (n * u - y * (n2 - n) * c) / n2
        n = n2
        if k < len(ss) - 2:
            y = y + u * s['t']
    return None if u == 0 else -1.0 / u


ENCODINGS = ['utf-8', 'utf-8-sig', 'utf-16-le-bom', 'utf-16-be-bom']


def encode_text(text, enc):
    """the bytes of the file: UTF-8 without / with BOM, UTF-16 little / big endian with BOM"""
    if enc == 'utf-16-le-bom':
        return b'\xff\xfe' + text.encode('utf-16-le')
    if enc == 'utf-16-be-bom':
        return b'\xfe\xff' + text.encode('utf-16-be')
    return text.encode(enc)


def importer_encodings(repo):
    """the codec list of ZemaxFileReader._read_file, read from the source (so the model's input follows it)"""
    import ast
    src = open(os.path.join(repo, 'optiland/fileio/zemax_handler.py')).read()
    for node in ast.walk(ast.parse(src)):
        if isinstance(node, ast.FunctionDef) and node.name == '_read_file':
            for a in ast.walk(node):
                if isinstance(a, ast.Assign) and len(a.targets) == 1 and isinstance(a.targets[0], ast.Name) \
                        and a.targets[0].id == 'encodings' and isinstance(a.value, ast.List) \
                        and all(isinstance(e, ast.Constant) and isinstance(e.value, str) for e in a.value.elts):
                    return [e.value for e in a.value.elts]
    raise RuntimeError('codec list of _read_file not found')


def decoded_lines(data, codecs):
    """the lines the importer's line loop sees: every pass whose codec decodes the bytes contributes its lines
    (a pure-ASCII file also decodes as UTF-16: one line of CJK garbage, which no operand matches)"""
    import re
    out = []
    for enc in codecs:
        try:
            text = data.decode(enc)
        except (UnicodeError, LookupError):
            continue
        out += [ln for ln in re.split('\r\n|\r|\n', text)]
    return out


def pyfloat(tok):
    try:
        return float(tok)
    except ValueError:
        return None


def pyint(tok):
    try:
        return int(tok)
    except ValueError:
        return None


# --------------------------------------------------------------------------
# the property's oracle: the lens the WRITTEN numbers describe
# --------------------------------------------------------------------------
def expected_lens(p):
    ss = []
    zs = []
    last_t = 0.0
    for k, s in enumerate(p['surfs']):
        c = float(s['curv'])
        R = INF if c == 0 else 1.0 / c
        t = INF if s['disz'] == 'INFINITY' else float(s['disz'])
        if k == 0:
            z = -t
        elif k == 1:
            z = 0.0
        else:
            z = zs[-1] + last_t
        zs.append(z)
        last_t = t
        conic = float(s['coni']) if s['coni'] is not None else 0.0
        if s['type'] == 'EVENASPH':
            shape = {'geom': 'even', 'R': R, 'k': conic, 'c': [float(v) for v in s['parm']]}
        elif math.isinf(R):
            shape = {'geom': 'plane'}
        else:
            shape = {'geom': 'std', 'R': R, 'k': conic}
        gl = s['glass']
        if gl is None:
            med = {'kind': 'air'}
        elif gl['class'] == 'catalogue':
            med = {'kind': 'catalogue', 'name': gl['name'], 'nd': float(gl['nd']), 'vd': float(gl['vd'])}
        else:
            med = {'kind': 'model', 'name': gl['name'], 'nd': float(gl['nd']), 'vd': float(gl['vd'])}
        ss.append({'shape': shape, 'z': z, 't': t, 'stop': bool(s['stop']) and k > 0, 'med': med})
    ap = {'ENPD': 'EPD', 'FNUM': 'imageFNO', 'OBNA': 'objectNA'}[p['ap'][0]]
    pairs = []
    for x, y in zip(p['fx'], p['fy']):
        q = (float(x), float(y))
        if q not in pairs:
            pairs.append(q)
    pairs.sort(key=lambda q: (q[1], q[0]))
    return {'surfs': ss, 'ap': [ap, float(p['ap'][1])], 'ftype': ['angle', 'object_height'][p['ftype']],
            'fields': pairs, 'waves': [float(w) for w in p['waves']], 'prim': p['pwav'] - 1}


def same_float(a, b):
    return a == b or (a != a and b != b)


def compare(p, exp, obs):
    """clause-by-clause comparison of the loaded Optic (obs) with what the file says (exp).
    returns a list of {clause, surface, detail, class}"""
    out = []
    if not obs.get('ok'):
        return [{'clause': 'load', 'class': 'import-raised', 'detail': obs.get('err', '') + ': ' + obs.get('msg', '')}]
    es, os_ = exp['surfs'], obs['surfs']
    if len(es) != len(os_):
        out.append({'clause': 'surface_count', 'class': 'count', 'detail': f'file has {len(es)} SURF blocks, lens has {len(os_)} surfaces'})
    last = len(es) - 1
    for k, (e, o) in enumerate(zip(es, os_)):
        tag = {'surface': k, 'is_last_surf_block': k == last}
        sh = e['shape']
        og = o['geom']
        bad = None
        if sh['geom'] == 'plane':
            if og != 'Plane':
                bad = f'plane expected, got {og} R={o["R"]}'
        elif sh['geom'] == 'std':
            if og != 'StandardGeometry' or not same_float(o['R'], sh['R']):
                bad = f'radius {sh["R"]!r} expected, got {og} R={o["R"]!r}'
            elif not same_float(o['k'], sh['k']):
                out.append({'clause': 'conic', 'class': 'conic', 'detail': f'conic {sh["k"]!r} expected, got {o["k"]!r}', **tag})
        else:
            if og != 'EvenAsphere' or not same_float(o['R'], sh['R']):
                bad = f'even asphere R={sh["R"]!r} expected, got {og} R={o["R"]!r}'
            else:
                if not same_float(o['k'], sh['k']):
                    out.append({'clause': 'conic', 'class': 'conic', 'detail': f'conic {sh["k"]!r} expected, got {o["k"]!r}', **tag})
                if o['c'] is None or len(o['c']) != len(sh['c']) or any(not same_float(a, b) for a, b in zip(o['c'], sh['c'])):
                    out.append({'clause': 'coefficients', 'class': 'coefficients', 'detail': f'{sh["c"]} expected, got {o["c"]}', **tag})
        if bad:
            out.append({'clause': 'radius', 'class': 'shape', 'detail': bad, **tag})
        if not same_float(o['z'], e['z']):
            out.append({'clause': 'thickness', 'class': 'vertex-position', 'detail': f'vertex z {e["z"]!r} expected (sum of written thicknesses), got {o["z"]!r}', **tag})
        if bool(o['stop']) != e['stop']:
            out.append({'clause': 'stop', 'class': 'stop', 'detail': f'is_stop {e["stop"]} expected', **tag})
        m, om = e['med'], o['med']
        if m['kind'] == 'air':
            if om[0] != 'ideal' or om[1] != 1.0:
                out.append({'clause': 'medium', 'class': 'air-expected', 'detail': f'air expected, got {om}', **tag})
        elif m['kind'] == 'model':
            if om[0] == 'cat':
                out.append({'clause': 'medium', 'class': 'catalogue-entry-contradicts-file-index' if abs(om[3] - m['nd']) > 2e-3 else 'catalogue-entry-for-unknown-name',
                            'glass': m['name'], 'detail': f'name {m["name"]} is in no catalogue; file says n_d={m["nd"]}, V_d={m["vd"]}; lens uses catalogue entry "{om[1]}" with n_d={om[3]:.5f}', **tag})
            elif om[0] != 'abbe' or not same_float(om[1], m['nd']) or not same_float(om[2], m['vd']):
                out.append({'clause': 'medium', 'class': 'model-glass-wrong', 'glass': m['name'], 'detail': f'model glass ({m["nd"]}, {m["vd"]}) expected, got {om}', **tag})
        else:
            if om[0] != 'cat':
                out.append({'clause': 'medium', 'class': 'catalogue-glass-not-used', 'glass': m['name'], 'detail': f'catalogue glass {m["name"]} expected, got {om}', **tag})
            elif not (abs(om[3] - m['nd']) <= 2e-3):
                out.append({'clause': 'medium', 'class': 'catalogue-entry-contradicts-file-index', 'glass': m['name'],
                            'detail': f'glass {m["name"]} (n_d={m["nd"]}) resolved to catalogue entry "{om[1]}" with n_d={om[3]:.5f}', **tag})
    if obs['ap'][0] != exp['ap'][0] or not same_float(obs['ap'][1], exp['ap'][1]):
        out.append({'clause': 'aperture', 'class': 'aperture', 'detail': f'{exp["ap"]} expected, got {obs["ap"]}'})
    if obs['ftype'] != exp['ftype']:
        out.append({'clause': 'field_type', 'class': 'field_type', 'detail': f'{exp["ftype"]} expected, got {obs["ftype"]}'})
    of = sorted([tuple(q) for q in obs['fields']], key=lambda q: (q[1], q[0]))
    if of != [tuple(q) for q in exp['fields']]:
        out.append({'clause': 'fields', 'class': 'fields', 'detail': f'{exp["fields"]} expected, got {obs["fields"]}'})
    if len(obs['waves']) != len(exp['waves']) or any(not same_float(a, b) for a, b in zip(obs['waves'], exp['waves'])):
        out.append({'clause': 'wavelengths', 'class': 'wavelengths', 'detail': f'{exp["waves"]} expected, got {obs["waves"]}'})
    if obs['prim'] != exp['prim']:
        out.append({'clause': 'primary_wavelength', 'class': 'primary', 'detail': f'index {exp["prim"]} expected, got {obs["prim"]}'})
    return out


# --------------------------------------------------------------------------
# subprocess: load texts with the real importer
# --------------------------------------------------------------------------
LOADER = r'''
import sys, json, os, io, contextlib, warnings, tempfile
import numpy as np
warnings.simplefilter('ignore')
np.seterr(all='ignore')
job = json.load(open(sys.argv[1]))
from optiland.fileio.zemax_handler import load_zemax_file
from optiland.materials import Material, AbbeMaterial, IdealMaterial
from optiland.optic import Optic
def f(x):
    return float(np.ravel(x)[0])
def med(m):
    if isinstance(m, AbbeMaterial):
        return ['abbe', float(m.index), float(m.abbe)]
    if isinstance(m, Material):
        try:
            nd = f(m.n(0.5875618))
        except Exception:
            nd = float('nan')
        return ['cat', str(m.material_data.get('name')), m.reference, nd, str(m.name), str(m.material_data.get('filename'))]
    if isinstance(m, IdealMaterial):
        return ['ideal', f(m.n(0.55))]
    return ['other', type(m).__name__]
def extract(o):
    ss = []
    for s in o.surface_group.surfaces:
        g = s.geometry
        ss.append({'geom': type(g).__name__, 'R': f(g.radius), 'k': f(g.k) if hasattr(g, 'k') else None,
                   'c': [float(v) for v in g.c] if hasattr(g, 'c') else None, 'z': f(g.cs.z),
                   'stop': bool(s.is_stop), 'obj': type(s).__name__ == 'ObjectSurface', 'med': med(s.material_post),
                   'refl': bool(getattr(s, 'is_reflective', False))})
    res = {'ok': True, 'surfs': ss, 'ap': [o.aperture.ap_type, float(o.aperture.value)], 'ftype': o.field_type,
           'fields': [[float(fl.x), float(fl.y)] for fl in o.fields.fields],
           'waves': [float(w.value) for w in o.wavelengths.wavelengths], 'prim': o.wavelengths.primary_index}
    return res
def parax(o):
    out = {}
    for nm in ('f2', 'EPD', 'EPL', 'FNO'):
        try:
            with contextlib.redirect_stdout(io.StringIO()):
                out[nm] = f(getattr(o.paraxial, nm)())
        except Exception as e:
            out[nm] = 'ERR ' + type(e).__name__
    return out
def build_reference(e):
    """the lens the written numbers describe, built through the public API"""
    o = Optic()
    for k, s in enumerate(e['surfs']):
        sh = s['shape']
        m = s['med']
        if m['kind'] == 'air':
            mat = 'air'
        elif m['kind'] == 'catalogue':
            mat = Material(m['name'])
        else:
            mat = AbbeMaterial(m['nd'], m['vd'])
        kw = dict(index=k, thickness=s['t'], is_stop=s['stop'], material=mat)
        if sh['geom'] == 'plane':
            o.add_surface(radius=float('inf'), **kw)
        elif sh['geom'] == 'std':
            o.add_surface(radius=sh['R'], conic=sh['k'], **kw)
        else:
            o.add_surface(surface_type='even_asphere', radius=sh['R'], conic=sh['k'], coefficients=list(sh['c']), **kw)
    o.set_aperture(aperture_type=e['ap'][0], value=e['ap'][1])
    o.set_field_type(e['ftype'])
    for x, y in e['fields']:
        o.add_field(x=x, y=y)
    for i, w in enumerate(e['waves']):
        o.add_wavelength(value=w, is_primary=(i == e['prim']))
    return o
out = []
LOOKUP_CACHE = {}
d = tempfile.mkdtemp(prefix='c20_', dir=job['tmp'])
for ci, c in enumerate(job['cases']):
    fn = os.path.join(d, f'c{ci}.zmx')
    import base64
    with open(fn, 'wb') as fh:
        fh.write(base64.b64decode(c['bytes']))
    res = None
    try:
        with contextlib.redirect_stdout(io.StringIO()):
            o = load_zemax_file(fn)
        res = extract(o)
        if c.get('parax'):
            res['parax'] = parax(o)
            try:
                with contextlib.redirect_stdout(io.StringIO()):
                    ref = build_reference(c['expected'])
                res['parax_ref'] = parax(ref)
            except Exception as e:
                res['parax_ref'] = {'error': type(e).__name__ + ': ' + str(e)[:100]}
    except Exception as e:
        res = {'ok': False, 'err': type(e).__name__, 'msg': str(e)[:160]}
    os.remove(fn)
    # lookups the model takes as an oracle: does Material(name[, reference]) find an entry
    rs = {}
    for (name, ref) in c.get('lookups', []):
        key_ = name + '|' + (ref or '')
        if key_ in LOOKUP_CACHE:
            rs[key_] = LOOKUP_CACHE[key_]
            continue
        try:
            with contextlib.redirect_stdout(io.StringIO()):
                Material(name, ref.lower() if ref else None)
            rs[name + '|' + (ref or '')] = True
        except ValueError:
            rs[name + '|' + (ref or '')] = False
        except Exception as e:
            rs[name + '|' + (ref or '')] = 'ERR ' + type(e).__name__
        LOOKUP_CACHE[key_] = rs[key_]
    res['lookups'] = rs
    out.append(res)
os.rmdir(d)
json.dump(out, open(sys.argv[2], 'w'))
'''


def lookups_of(lines):
    """(name, reference) pairs _read_glass may look up for this text"""
    gcat = []
    names = []
    for ln in lines:
        d = ln.split()
        if d and d[0] == 'GCAT':
            gcat = d[1:]
        if d and d[0] == 'GLAS' and len(d) > 1:
            names.append((d[1], tuple(gcat)))
    out = []
    for nm, cats in names:
        for ref in (None,) + cats:
            if (nm, ref) not in out:
                out.append((nm, ref))
    return out


def run_loader(vlib, cases):
    """cases: [{text, encoding, parax?, expected?, lookups}] -> observed list"""
    tmp = os.path.join(vlib.BUILD, 'tmp')
    os.makedirs(tmp, exist_ok=True)
    import base64
    js = []
    for c in cases:
        c = dict(c)
        c['bytes'] = base64.b64encode(encode_text(c.pop('text'), c['encoding'])).decode()
        js.append(c)
    return vlib.run_python(LOADER, {'cases': js, 'tmp': tmp})


# --------------------------------------------------------------------------
# Coq term printers
# --------------------------------------------------------------------------
def cstr(s):
    # token texts are only ever compared with ASCII keywords: any other character is shown as '~'
    s = ''.join(ch if 32 <= ord(ch) < 127 else '~' for ch in s)
    return '"' + s.replace('"', '""') + '"%string'


def cfl(vlib, x):
    return vlib.fhex(x)


def tok_term(vlib, t):
    f = pyfloat(t)
    i = pyint(t)
    fs = f'(Some {cfl(vlib, f)})' if f is not None else 'None'
    is_ = f'(Some {vlib.zlit(i)})' if i is not None else 'None'
    return f'tk {cstr(t)} {fs} {is_}'


def lines_term(vlib, lines):
    rows = []
    for ln in lines:
        rows.append('[' + '; '.join(tok_term(vlib, t) for t in ln.split()) + ']')
    return '[' + ';\n '.join(rows) + ']'


def resolve_term(lookups):
    """fun name ref => bool, from the table of observed Material() outcomes"""
    rows = []
    for k, v in lookups.items():
        if v is True:
            nm, ref = k.split('|')
            rows.append(f'({cstr(nm)}, {("Some " + cstr(ref)) if ref else "None"})')
    return 'rtab [' + '; '.join(rows) + ']'


def obs_lens_term(vlib, obs, gcat):
    ss = []
    for s in obs['surfs']:
        if s['geom'] == 'Plane':
            sh = 'fPlane'
        elif s['geom'] == 'StandardGeometry':
            sh = f'fStd {cfl(vlib, s["R"])} {cfl(vlib, s["k"])}'
        elif s['geom'] == 'EvenAsphere':
            sh = f'fEven {cfl(vlib, s["R"])} {cfl(vlib, s["k"])} [' + '; '.join(cfl(vlib, v) for v in s['c']) + ']'
        else:
            sh = 'fStd nan nan'
        m = s['med']
        if m[0] == 'ideal' and m[1] == 1.0:
            md = 'fAir'
        elif m[0] == 'abbe':
            md = f'fAbbe {cfl(vlib, m[1])} {cfl(vlib, m[2])}'
        elif m[0] == 'cat':
            ref = m[2]
            if ref is not None:
                for gc in gcat or []:
                    if gc.lower() == ref:
                        ref = gc
            md = f'fCat {cstr(m[4])} ' + (f'(Some {cstr(ref)})' if ref else 'None')
        else:
            md = 'fAbbe nan nan'
        ss.append(f'fL ({sh}) {cfl(vlib, s["z"])} {"true" if s["stop"] else "false"} ({md})')
    fields = '[' + '; '.join(f'({cfl(vlib, x)}, {cfl(vlib, y)})' for x, y in obs['fields']) + ']'
    waves = '[' + '; '.join(cfl(vlib, w) for w in obs['waves']) + ']'
    prim = obs['prim'] if obs['prim'] is not None else -1
    return (f'fLens [' + ';\n  '.join(ss) + f'] {cstr(obs["ap"][0])} {cfl(vlib, obs["ap"][1])} {cstr(obs["ftype"])} '
            f'{fields} {waves} {vlib.zlit(prim)}')

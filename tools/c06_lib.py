"""C06 - analytically stigmatic systems: seeded generator of the closed-form configurations (as lensgen
specs, built through optiland's public API) and the implementation-level numerical oracle
(image-plane x,y / optical-path spread / Wavefront.data / FFTPSF.strehl_ratio).

Every configuration is perfect for the axial object point IN CLOSED FORM (see coq/Lemmas/L_C06_stigmatic.v):
  parab          paraboloid mirror k=-1, object at infinity                     (Rc < 0, light along +z)
  parab_fold     flat fold mirror, then a paraboloid met by light along -z     (Rc > 0)
  sphere_cc      spherical mirror imaging its own centre of curvature           (finite object)
  ellipsoid      ellipsoid mirror between its geometric foci, both directions   (finite object)
  hyperboloid_far  convex hyperboloid mirror with the (real) object at its far focus R/(1-e), virtual image at the
                 near focus R/(1+e): VIRTUAL_CONFIGS, ray-level clauses only (oracle_virtual)
  cassegrain     paraboloid primary + hyperboloid secondary (one focus on the prime focus, image at the other)
  gregorian      paraboloid primary + ellipsoid secondary
  planohyp       plano-hyperbolic singlet, conic = -n^2, plane side first
  planohyp_fold  the same singlet met by light along -z after a fold mirror     (Rc > 0)
  ellipsoid_lens single refracting ellipsoid k = -1/n^2 focusing inside the glass (immersed image)
  aplanat        plano-hyperbolic collimator-focuser followed by an aplanatic meniscus
                 (front face: aplanatic points; back face: concentric with its image = centre of curvature)
  aplanat_immersed  the same with the image inside the glass of the aplanatic front face
"""
import math
import warnings

import numpy as np

INF = float('inf')
WL = 0.55

CONFIGS = ['parab', 'parab_fold', 'sphere_cc', 'ellipsoid', 'cassegrain', 'gregorian', 'planohyp',
           'planohyp_fold', 'ellipsoid_lens', 'aplanat', 'aplanat_immersed']


# configurations whose image is virtual: checked at ray level (the line of the reflected ray passes through the
# image point, object-to-mirror path minus mirror-to-image distance is constant) by oracle_virtual
VIRTUAL_CONFIGS = ['hyperboloid_far']


def _spec(obj_t, surfaces, aperture, finite):
    return {'object_thickness': obj_t, 'surfaces': surfaces, 'aperture': aperture,
            'field_type': 'object_height' if finite else 'angle', 'fields': [[0.0, 0.0, 0.0, 0.0]],
            'wavelengths': [[WL, True]], 'telecentric': False}


def _std(radius, thickness, material='air', conic=None, stop=False):
    s = {'type': 'standard', 'radius': radius, 'thickness': thickness, 'material': material, 'is_stop': stop}
    if conic is not None:
        s['conic'] = conic
    return s


def hyperboloid_far_geometry(R, e, na):
    """marginal ray of `hyperboloid_far` (leaves the far focus f2 = R/(1-e) at sin(theta) = na): where it meets
    the two sheets of the hyperboloid (closed form, polar equation about the focus)"""
    f1, f2 = R / (1 + e), R / (1 - e)
    N = math.sqrt(1 - na * na)
    t_vertex = R / (e * N - 1)                     # > 0 below the asymptote angle (cos(theta) > 1/e)
    t_other = R / (1 + e * N)
    z_v = f2 + t_vertex * N
    z_o = f2 + t_other * N
    return {'z_vertex_sheet': z_v, 'z_other_sheet': z_o, 'PF2': t_vertex, 'PF1': abs(e * z_v + f1),
            # StandardGeometry.distance keeps the root whose z is closer to the vertex
            'other_sheet_is_closer_to_vertex': abs(z_o) <= abs(z_v)}


def conic_sag(r, R, k):
    return r * r / (R * (1 + math.sqrt(1 - (1 + k) * r * r / (R * R))))


def gen_config(rng, name, edits=None, vignetting=None, medium=None, contact_stop=None, entry=None, route=None,
               rescale=None, flat_carry=False):
    """returns dict(name, params, spec, scale, edits) ; scale = characteristic path length (for tolerances).
    edits: None = with probability 1/2 the stigmatic prescription is reached through an edit history
    (see add_edit_history)"""
    u = rng.uniform
    p = {}
    if name == 'parab':
        R = -u(20, 400)
        fno = math.exp(u(math.log(0.6), math.log(8)))
        p = {'R': R, 'fno': fno}
        spec = _spec(INF, [_std(R, R / 2, 'mirror', -1.0, True)], ['EPD', abs(R) / 2 / fno], False)
        scale = 2 * abs(R)
    elif name == 'parab_fold':
        R = u(20, 400)
        fno = math.exp(u(math.log(0.6), math.log(8)))
        d = u(0.6, 2.0) * R
        p = {'R': R, 'fno': fno, 'd': d}
        spec = _spec(INF, [_std(INF, -d, 'mirror', None, True), _std(R, R / 2, 'mirror', -1.0)],
                     ['EPD', R / 2 / fno], False)
        scale = 3 * R + d
    elif name == 'sphere_cc':
        R = -u(20, 400)
        na = u(0.05, 0.9)
        p = {'R': R, 'na': na}
        spec = _spec(-R, [_std(R, R, 'mirror', None, True)], ['objectNA', na], True)
        scale = 2 * abs(R)
    elif name == 'ellipsoid':
        R = -u(20, 300)
        e = u(0.1, 0.9)
        near_first = rng.random() < 0.5
        f1, f2 = R / (1 + e), R / (1 - e)          # near, far (both negative)
        a_ = R / (1 - e * e)                       # centre of the ellipsoid
        b_ = abs(R) / math.sqrt(1 - e * e)         # semi-minor axis (r_max of the vertex sheet)
        if near_first:
            so, si = f1, f2
            th_max = math.radians(80)
        else:
            so, si = f2, f1
            # cone angles at the two foci: tan(th_far/2) / tan(th_near/2) = (1-e)/(1+e); keep the image-side
            # cone below 80 deg (beyond that the rays graze the image plane and the intersection is ill-conditioned)
            th_max = min(2 * math.atan(math.tan(math.radians(40)) * (1 - e) / (1 + e)),
                         math.atan(b_ / (abs(f2) - abs(a_))) * 0.9)
        na = math.sin(th_max) * u(0.2, 1.0)
        p = {'R': R, 'e': e, 'near_first': near_first, 'na': na}
        spec = _spec(-so, [_std(R, si, 'mirror', -e * e, True)], ['objectNA', na], True)
        scale = abs(f1) + abs(f2)
    elif name == 'hyperboloid_far':
        R = u(20, 200)                             # convex towards the light (+z travel)
        e = u(1.15, 3.0)
        f1, f2 = R / (1 + e), R / (1 - e)          # near focus behind the mirror (virtual), far focus in front (real)
        th_asym = math.atan(math.sqrt(e * e - 1))  # rays steeper than the asymptote never meet the mirror
        th = u(0.15, 0.92) * min(th_asym, math.asin(0.9))
        na = math.sin(th)
        geo = hyperboloid_far_geometry(R, e, na)
        p = {'R': R, 'e': e, 'na': na}
        # the image surface is a dummy (the image is virtual); only the records at the mirror are used
        spec = _spec(-f2, [_std(R, -abs(f2), 'mirror', -e * e, True)], ['objectNA', na], True)
        scale = abs(f2) + geo['PF2'] + geo['PF1']
    elif name in ('cassegrain', 'gregorian'):
        R1 = -u(100, 600)
        fp = R1 / 2
        fno1 = math.exp(u(math.log(0.7), math.log(5)))
        m = u(1.5, 5.0)
        if name == 'cassegrain':
            d = fp * u(0.5, 0.85)                  # secondary before the prime focus
            pdist = fp - d                         # < 0 : prime focus beyond the secondary (virtual object)
            q = -pdist * m                         # image on the +z side
        else:
            d = fp * u(1.15, 1.6)                  # secondary beyond the prime focus
            pdist = fp - d                         # > 0 : real object for the secondary
            q = pdist * m
        e = (q - pdist) / (q + pdist)
        R2 = pdist * (1 + e)
        p = {'R1': R1, 'fno1': fno1, 'm': m, 'd': d, 'R2': R2, 'e': e, 'q': q}
        spec = _spec(INF, [_std(R1, d, 'mirror', -1.0, True), _std(R2, q, 'mirror', -e * e)],
                     ['EPD', abs(fp) / fno1], False)
        scale = abs(R1) + abs(d) + abs(q)
    elif name in ('planohyp', 'planohyp_fold'):
        n = u(1.3, 4.0)
        R = -u(15, 200)
        f = R / (1 - n)                            # > 0
        fno = math.exp(u(math.log(0.6), math.log(8)))
        epd = f / fno
        sag = abs(conic_sag(epd / 2, R, -n * n))
        dth = sag * u(1.05, 1.6) + u(0.5, 3.0)     # centre thickness > edge sag: the rays exist
        p = {'n': n, 'R': R, 'fno': fno, 'd': dth}
        if name == 'planohyp':
            spec = _spec(INF, [_std(INF, dth, ['ideal', n, 0.0], None, True), _std(R, f, 'air', -n * n)],
                         ['EPD', epd], False)
        else:
            gap = u(0.3, 1.5) * epd + sag
            p['gap'] = gap
            spec = _spec(INF, [_std(INF, -gap, 'mirror', None, True),
                               _std(INF, -dth, ['ideal', n, 0.0]), _std(-R, -f, 'air', -n * n)],
                         ['EPD', epd], False)
        scale = f + n * dth + epd
    elif name == 'ellipsoid_lens':
        n = u(1.3, 4.0)
        R = u(15, 200)
        # air -> glass, k = -(1/n)^2, focus inside the glass at R / (1 - 1/n)
        uu = 1.0 / n
        f = R / (1 - uu)
        rmax = R / math.sqrt(1 - uu * uu)          # equator of the ellipsoid
        epd = 2 * rmax * u(0.1, 0.9)
        p = {'n': n, 'R': R, 'epd': epd}
        spec = _spec(INF, [_std(R, f, ['ideal', n, 0.0], -uu * uu, True)], ['EPD', epd], False)
        scale = n * f + epd
    elif name in ('aplanat', 'aplanat_immersed'):
        while True:
            nh = u(1.4, 2.0)
            Rh = -u(30, 120)
            fh = Rh / (1 - nh)
            n = u(1.3, 4.0)
            # keep n * sin(U) of the final cone below ~0.85
            sinu = u(0.03, min(0.6, 0.85 / n))
            epd = 2 * fh * math.tan(math.asin(sinu)) * 0.98
            sag = abs(conic_sag(epd / 2, Rh, -nh * nh))
            d1 = sag * 1.1 + u(0.5, 3.0)
            gap = u(0.1, 0.6) * fh
            s = fh - gap
            R1 = s / (1 + n)
            s1 = R1 * (1 + n) / n
            t2 = u(0.1, 0.5) * s1
            if name == 'aplanat_immersed':
                break
            # the meniscus must have a positive edge thickness at the rim ray (the rays exist)
            h3 = s * math.tan(math.asin(sinu))          # upper bound of the ray height on the front face
            R2 = s1 - t2
            if h3 < 0.95 * R1 and h3 < 0.95 * R2 and \
                    t2 - (R1 - math.sqrt(R1 * R1 - h3 * h3)) + (R2 - math.sqrt(R2 * R2 - h3 * h3)) > 0.05 * t2 + 0.2:
                break
        p = {'nh': nh, 'Rh': Rh, 'n': n, 'epd': epd, 'd1': d1, 'gap': gap, 't2': t2}
        surfs = [_std(INF, d1, ['ideal', nh, 0.0], None, True), _std(Rh, gap, 'air', -nh * nh)]
        if name == 'aplanat':
            surfs += [_std(R1, t2, ['ideal', n, 0.0]), _std(s1 - t2, s1 - t2, 'air')]
        else:
            surfs += [_std(R1, s1, ['ideal', n, 0.0])]
        spec = _spec(INF, surfs, ['EPD', epd], False)
        scale = nh * d1 + fh + n * s1
    else:
        raise ValueError(name)
    medium_class, contact = 'air', False
    if medium is None:
        medium = rng.choice(['air', 'air', 'immersed', 'solid']) if name in MIRROR_ONLY else 'air'
    if medium == 'solid' and math.isfinite(spec['object_thickness']):
        medium = 'immersed'            # a plane entrance face is only stigmatic for a collimated beam
    if medium in ('immersed', 'solid') and name in MIRROR_ONLY:
        n0 = u(1.3, 4.0)
        p['n_medium'] = n0
        if medium == 'immersed':
            immerse(spec, n0)
        else:
            p['t_entrance'] = solidify(rng, spec, n0)
        scale = scale * n0 + p.get('t_entrance', 0.0) * n0
        medium_class = medium
    if contact_stop is None:
        contact_stop = name in CONTACT_STOP_OK and rng.random() < 0.35
    if contact_stop and name in CONTACT_STOP_OK:
        contact = add_contact_stop(spec)
    # how a conic is ENTERED: as a standard surface, or through the asphere surface types with no polynomial term
    # (Newton-Raphson intersection instead of the closed-form one)
    has_conic = any(s_.get('conic') for s_ in spec['surfaces']) and asphere_entry_ok(name, p)
    if entry is None:
        entry = rng.choice(['standard'] * 7 + ['asphere', 'asphere', 'polynomial_tight']) if has_conic else 'standard'
    if entry != 'standard' and has_conic:
        for s_ in spec['surfaces']:
            if s_.get('conic'):
                if entry == 'asphere':            # factory default tolerance (1e-6 mm) of the iteration
                    s_['type'] = 'even_asphere'
                    s_['coefficients'] = rng.choice([[], [0.0], [0.0, 0.0]])
                else:
                    s_['type'] = 'polynomial'
                    s_['coefficients'] = [[0.0]]
                    s_['tol'] = 1e-13
                    s_['max_iter'] = 100
    else:
        entry = 'standard'
    cfg = {'name': name, 'params': p, 'spec': spec, 'scale': scale, 'image_in_glass': None, 'edits': [],
           'vignetting': [0.0, 0.0], 'medium_class': medium_class, 'contact_stop': contact, 'entry': entry,
           'route': 'direct', 'route_seed': rng.randrange(10 ** 9), 'scaled_by': None}
    if edits is None:
        edits = rng.random() < 0.5
    if edits:
        add_edit_history(rng, cfg)
    # history class: the lens is built 1/s times its size and brought to size with Optic.scale_system(s)
    if rescale is None:
        rescale = rng.random() < 0.3
    if rescale:
        sf = rescale if isinstance(rescale, float) else rng.choice([0.4, 2.5, rng.uniform(0.3, 3.0)])
        add_scale_history(cfg, sf)
    # history class: a flat surface carries the conic before it gets its radius (forced cases only: corpus();
    # the random stream of the other dimensions is left as it was)
    if flat_carry:       # 'mode' (random subset of the curved surfaces, one conic at least) or ('mode', 'all')
        if isinstance(flat_carry, str):
            add_flat_carry_history(rng, cfg, flat_carry)
        else:
            add_flat_carry_history(rng, cfg, flat_carry[0], all_surfaces=True)
    # route by which the Optic object is reached (tools/lensgen.build_via)
    if route is None:
        route = rng.choice(['direct'] * 11 + ['handbuilt'] * 3 + ['reuse'] * 3 + ['roundtrip'] * 3)
    cfg['route'] = route
    if vignetting is None:
        vignetting = rng.random() < 0.4
    if vignetting:
        # vignetting factors on the axial field only compress the launched pupil to an ellipse: the bundle is
        # still the plane / spherical wave of the axial object point and every clause must hold unchanged
        v = lambda: rng.choice([0.0, round(rng.uniform(0.05, 0.5), 3)])      # noqa: E731
        vx, vy = rng.choice([(v(), v()), (rng.uniform(0.05, 0.5), 0.0), (0.0, rng.uniform(0.05, 0.5)),
                             (rng.uniform(0.05, 0.5), rng.uniform(0.05, 0.5))])
        if vignetting == 'unequal':
            vx, vy = rng.choice([(0.1, 0.3), (0.25, 0.0), (0.0, 0.35)])
        cfg['vignetting'] = [vx, vy]
        for sp in (cfg['spec'], cfg.get('final_spec')):
            if sp:
                sp['fields'][0][2], sp['fields'][0][3] = vx, vy
    if name in IMMERSED:
        # the image plane lies inside the last glass.  True: the image surface is declared in that glass
        # (nothing happens at it);  False: optiland's default, air behind the image plane
        cfg['image_in_glass'] = rng.random() < 0.6
    return cfg


IMMERSED = ('ellipsoid_lens', 'aplanat_immersed')

# configurations made of mirrors only: they stay stigmatic when the whole system is immersed in a homogeneous
# medium n0 (object and image space included), and - object at infinity - as a solid catadioptric block
# (plane entrance face met at normal incidence, mirrors as back surfaces, focus inside the glass)
MIRROR_ONLY = ('parab', 'parab_fold', 'sphere_cc', 'ellipsoid', 'cassegrain', 'gregorian', 'hyperboloid_far')
# configurations whose stop is the (conic) first surface AND whose surface bulges away from the incoming light
# (Rc > 0 for +z travel: the sag lies behind the tangent plane, so no ray has to travel backwards from the plane):
# the stop may be entered as a separate plane in contact with its vertex (thickness exactly 0)
CONTACT_STOP_OK = ('ellipsoid_lens', 'hyperboloid_far')


def immerse(spec, n0):
    """the whole system inside the medium n0: object space, every 'air' gap and the image space"""
    spec['object_material'] = ['ideal', n0, 0.0]
    for s_ in spec['surfaces']:
        if s_['material'] == 'air':
            s_['material'] = ['ideal', n0, 0.0]
    spec['image_material'] = ['ideal', n0, 0.0]


def solidify(rng, spec, n0):
    """solid catadioptric block: object at infinity in air, plane entrance face into glass n0, the mirrors are
    the back surfaces, image inside the glass.  returns the distance from the entrance face to the first mirror"""
    # every later vertex and the image must lie behind the entrance face: the thicknesses of the mirror system
    # reach at most  min(z) < 0  in front of the first mirror
    z, zmin = 0.0, 0.0
    for s_ in spec['surfaces']:
        z += s_['thickness']
        zmin = min(zmin, z)
    t = -zmin * rng.uniform(1.1, 1.5) + rng.uniform(1.0, 10.0)
    for s_ in spec['surfaces']:
        if s_['material'] == 'air':
            s_['material'] = ['ideal', n0, 0.0]
    spec['surfaces'].insert(0, _std(INF, t, ['ideal', n0, 0.0]))
    spec['image_material'] = ['ideal', n0, 0.0]
    return t


def add_contact_stop(spec):
    """the aperture stop entered as a separate plane surface in contact (thickness exactly 0) with the vertex of the
    conic stop surface; the medium behind the plane is the one in front of the conic"""
    idx = next((i for i, s_ in enumerate(spec['surfaces']) if s_.get('is_stop')), None)
    if idx is None or not math.isfinite(spec['surfaces'][idx]['radius']):
        return False
    med = spec.get('object_material', 'air')
    for s_ in spec['surfaces'][:idx]:
        if s_['material'] != 'mirror':
            med = s_['material']
    spec['surfaces'][idx]['is_stop'] = False
    spec['surfaces'].insert(idx, _std(INF, 0.0, med, None, True))
    return True


def prescription_media(spec):
    """index of the medium of every segment (object -> s1, s1 -> s2, ..., s_last -> image), taken from the
    PRESCRIPTION (a mirror keeps the medium it sits in), never read back from the built surfaces"""
    def idx(m, cur):
        if m == 'mirror':
            return cur
        if m == 'air':
            return 1.0
        if isinstance(m, list) and m[0] == 'ideal':
            return float(m[1])
        raise ValueError(m)
    cur = idx(spec.get('object_material', 'air'), 1.0)
    out = []
    for s_ in spec['surfaces']:
        out.append(cur)
        cur = idx(s_.get('material', 'air'), cur)
    out.append(cur)
    return out


def build_spec(spec):
    """lensgen.build plus the object-space and image-space media (public API only: the factory decides what lies
    behind a mirror)"""
    import lensgen
    if 'object_material' not in spec and 'image_material' not in spec:
        return lensgen.build(spec)
    from optiland.optic import Optic
    from optiland.materials import IdealMaterial

    def mat(m):
        return IdealMaterial(n=m[1], k=m[2]) if isinstance(m, list) else m
    o = Optic()
    o.add_surface(index=0, radius=np.inf, thickness=spec['object_thickness'], material=mat(spec.get('object_material', 'air')))
    for i, s_ in enumerate(spec['surfaces']):
        kw = {k: s_[k] for k in ('radius', 'conic') if k in s_}
        o.add_surface(index=i + 1, surface_type='standard', thickness=s_['thickness'], material=mat(s_.get('material', 'air')),
                      is_stop=bool(s_.get('is_stop')), **kw)
    o.add_surface(index=len(spec['surfaces']) + 1, material=mat(spec.get('image_material', 'air')))
    o.set_aperture(spec['aperture'][0], spec['aperture'][1])
    o.set_field_type(spec['field_type'])
    for f in spec['fields']:
        o.add_field(y=f[0], x=f[1], vx=f[2], vy=f[3])
    for w, prim in spec['wavelengths']:
        o.add_wavelength(w, is_primary=prim)
    return o


def add_edit_history(rng, cfg):
    """the lens is first BUILT with a different prescription and then edited through the public setters
    (Optic.set_conic / set_radius / set_thickness / set_index) until it is the stigmatic one: whatever a
    surface caches at construction must follow the edits.  cfg['spec'] becomes the initial (wrong)
    prescription, cfg['edits'] the list (setter, surface_number, value) applied after building, and
    cfg['final_spec'] keeps the stigmatic prescription."""
    import copy
    final = cfg['spec']
    init = copy.deepcopy(final)
    edits = []
    for j, (s0, s1) in enumerate(zip(init['surfaces'], final['surfaces'])):
        num = j + 1
        conic_edit = False
        if 'conic' in s1 and rng.random() < 0.9:
            s0['conic'] = s1['conic'] + rng.choice([-1, 1]) * rng.uniform(0.05, 0.6)
            edits.append(['conic', num, s1['conic']])
            conic_edit = True
        elif 'conic' not in s1 and math.isfinite(s1['radius']) and rng.random() < 0.3:
            s0['conic'] = rng.uniform(-0.5, 0.3)       # a sphere that was first entered as a conic
            edits.append(['conic', num, 0.0])
            conic_edit = True
        if math.isfinite(s1['radius']) and rng.random() < 0.5:
            # a wrong radius, or a surface that was first entered flat (Plane -> StandardGeometry on set_radius)
            # (a flat surface built WITH a conic drops it - Plane has no k - so flat-first is only used when
            # the history also sets the conic, or there is none)
            flat_ok = (conic_edit or not s1.get('conic')) and s1.get('type', 'standard') == 'standard'
            s0['radius'] = INF if (flat_ok and rng.random() < 0.3) else s1['radius'] * rng.uniform(1.05, 1.4)
            edits.append(['radius', num, s1['radius']])
        if rng.random() < 0.5:
            s0['thickness'] = s1['thickness'] * rng.uniform(0.7, 1.3)
            edits.append(['thickness', num, s1['thickness']])
        if isinstance(s1.get('material'), list) and s1['material'][0] == 'ideal' and rng.random() < 0.5:
            s0['material'] = ['ideal', s1['material'][1] + rng.uniform(0.05, 0.3), 0.0]
            edits.append(['index', num, s1['material'][1]])
            # Optic.set_index only replaces the medium of ONE gap; a mirror that follows keeps the material object it
            # was built with, so the same glass behind each following mirror has to be re-entered as well
            for jj in range(j + 1, len(final['surfaces'])):
                if final['surfaces'][jj]['material'] != 'mirror':
                    break
                edits.append(['index', jj + 1, s1['material'][1]])
    if math.isfinite(final['object_thickness']) and rng.random() < 0.5:
        init['object_thickness'] = final['object_thickness'] * rng.uniform(0.7, 1.3)
        edits.append(['thickness', 0, final['object_thickness']])
    rng.shuffle(edits)
    cfg['spec'] = init
    cfg['final_spec'] = final
    cfg['edits'] = edits
    return cfg


def corpus():
    """fixed cases, one per CLASS that matters (independent of the seed of the run): every class below is forced,
    the other dimensions are switched off"""
    import random
    off = dict(edits=False, vignetting=False, medium='air', contact_stop=False, entry='standard', route='direct',
               rescale=False)
    items = [
        ('ellipsoid', dict(entry='asphere')), ('ellipsoid', dict(entry='polynomial_tight')),
        ('cassegrain', dict(entry='asphere')), ('parab', dict(entry='asphere', edits=True)),
        ('ellipsoid', dict(rescale=2.5)), ('sphere_cc', dict(rescale=0.4)), ('planohyp', dict(rescale=3.0)),
        ('parab', dict(medium='immersed')), ('parab', dict(medium='solid')), ('ellipsoid', dict(medium='immersed')),
        ('cassegrain', dict(medium='solid')),
        ('ellipsoid_lens', dict(contact_stop=True)),
        ('parab', dict(vignetting='unequal')), ('planohyp', dict(vignetting='unequal')),
        ('parab', dict(edits=True)), ('ellipsoid', dict(edits=True)),
        ('ellipsoid', dict(route='reuse')), ('planohyp', dict(route='roundtrip')), ('cassegrain', dict(route='handbuilt')),
        ('aplanat', dict(route='reuse', edits=True)),
    ]
    out = []
    for i, (name, kw) in enumerate(items):
        for k in range(50):      # the forced entry type needs an instance whose rim ray allows it
            cfg = gen_config(random.Random(1000 + i + 100 * k), name, **{**off, **kw})
            if cfg['entry'] == kw.get('entry', 'standard'):
                break
        if name in IMMERSED:
            cfg['image_in_glass'] = True
        cfg['corpus'] = '%s:%s' % (name, ','.join('%s=%s' % kv for kv in sorted(kw.items())))
        out.append(cfg)
    return out


FLAT_CARRY_CONFIGS = ['parab', 'parab_fold', 'ellipsoid', 'cassegrain', 'gregorian', 'planohyp', 'planohyp_fold',
                      'ellipsoid_lens', 'aplanat', 'aplanat_immersed', 'sphere_cc']


def corpus_flat_carry():
    """fixed cases of the history class `a flat surface carries the conic constant, then receives its radius`
    (add_flat_carry_history), one per mode and per way the flat state is reached / left; all curved standard surfaces
    of the instance go through the history"""
    import random
    off = dict(edits=False, vignetting=False, medium='air', contact_stop=False, entry='standard', route='direct',
               rescale=False)
    items = [
        ('parab', 'flatten_restore', {}),
        ('planohyp', 'flat_first_conic_then_radius', {}),
        ('planohyp', 'flatten_roundtrip_restore', {}),
        ('ellipsoid', 'flatten_query_restore', {}),
        ('cassegrain', 'flatten_reconic_restore', {}),
        ('gregorian', 'flat_first_conic_then_radius', dict(rescale=2.5)),
        ('planohyp_fold', 'flatten_restore', dict(route='reuse')),
        ('sphere_cc', 'flatten_restore', {}),
        ('ellipsoid_lens', 'flatten_roundtrip_restore', {}),
        ('parab', 'flat_first_conic_then_radius', dict(medium='solid', route='handbuilt')),
        ('aplanat', 'flatten_query_restore', dict(edits=True)),
    ]
    out = []
    for i, (name, mode, kw) in enumerate(items):
        cfg = gen_config(random.Random(3000 + i), name, **{**off, **kw, 'flat_carry': (mode, 'all')})
        if name in IMMERSED:
            cfg['image_in_glass'] = True
        cfg['corpus'] = '%s:flat_carry=%s%s' % (name, mode, ''.join(',%s=%s' % kv for kv in sorted(kw.items())))
        out.append(cfg)
    return out


def random_flat_carry(rng, n):
    """n seeded instances of the same history class on top of the other (random) dimensions"""
    out = []
    for _ in range(n):
        name = rng.choice(FLAT_CARRY_CONFIGS)
        out.append(gen_config(rng, name, entry='standard', flat_carry=rng.choice(FLAT_CARRY_MODES)))
    return out


def corpus_virtual():
    import random
    off = dict(edits=False, vignetting=False, medium='air', contact_stop=False, entry='standard', route='direct',
               rescale=False)
    out = []
    for i, kw in enumerate([dict(contact_stop=True), dict(medium='immersed'), dict(rescale=2.5), dict(route='roundtrip'),
                            dict(edits=True)]):
        cfg = gen_config(random.Random(2000 + i), 'hyperboloid_far', **{**off, **kw})
        cfg['corpus'] = 'hyperboloid_far:' + ','.join('%s=%s' % (k_, v_[0] if isinstance(v_, tuple) else v_)
                                                      for k_, v_ in sorted(kw.items()))
        out.append(cfg)
    return out


def corpus_virtual_flat_carry():
    """the history class of corpus_flat_carry on the virtual-image configuration"""
    import random
    off = dict(edits=False, vignetting=False, medium='air', contact_stop=False, entry='standard', route='direct',
               rescale=False)
    out = []
    for i, kw in enumerate([dict(flat_carry=('flatten_restore', 'all')),
                            dict(flat_carry=('flat_first_conic_then_radius', 'all'), rescale=0.4),
                            dict(flat_carry=('flatten_roundtrip_restore', 'all'), medium='immersed')]):
        cfg = gen_config(random.Random(2100 + i), 'hyperboloid_far', **{**off, **kw})
        cfg['corpus'] = 'hyperboloid_far:' + ','.join('%s=%s' % (k_, v_[0] if isinstance(v_, tuple) else v_)
                                                      for k_, v_ in sorted(kw.items()))
        out.append(cfg)
    return out


def asphere_entry_ok(name, p):
    """the Newton-Raphson surfaces start from the intersection with the vertex SPHERE: only conics whose rim ray stays
    well inside |Rc| (closed form from the generated parameters) are entered through the asphere types"""
    if name in ('parab', 'parab_fold'):
        return True                                  # rim height |R| / (4 F#) <= 0.42 |R|
    if name == 'ellipsoid':
        R, e = p['R'], p['e']
        N = math.sqrt(1 - p['na'] ** 2)
        t = -R / (1 + e * N) if p['near_first'] else -R / (1 - e * N)     # polar equation about the object focus
        return t * p['na'] <= 0.7 * abs(R)
    if name in ('cassegrain', 'gregorian'):
        fp = p['R1'] / 2
        h1 = abs(fp) / p['fno1'] / 2
        h2 = h1 * abs(fp - p['d']) / abs(fp) * 1.05
        return h2 <= 0.6 * abs(p['R2'])
    return False


def add_scale_history(cfg, sf):
    """cfg['spec'] (the prescription the Optic is built from) is shrunk by 1/sf in every length - radii, thicknesses,
    a finite object distance, an entrance-pupil-diameter aperture - and ['scale', None, sf] becomes the FIRST edit:
    Optic.scale_system must bring every length that is not edited afterwards to the stigmatic prescription"""
    import copy
    if not cfg.get('final_spec'):
        cfg['final_spec'] = copy.deepcopy(cfg['spec'])
    sp = cfg['spec']
    for s_ in sp['surfaces']:
        if math.isfinite(s_['radius']):
            s_['radius'] = s_['radius'] / sf
        s_['thickness'] = s_['thickness'] / sf
    if math.isfinite(sp['object_thickness']):
        sp['object_thickness'] = sp['object_thickness'] / sf
    if sp['aperture'][0] == 'EPD':
        sp['aperture'] = ['EPD', sp['aperture'][1] / sf]
    cfg['edits'] = [['scale', None, sf]] + list(cfg['edits'])
    cfg['scaled_by'] = sf


def apply_edits(optic, edits):
    """returns the Optic the history ends with (a 'roundtrip' step replaces the object)"""
    for kind, num, value in edits:
        if kind == 'scale':
            optic.scale_system(value)
        elif kind == 'conic':
            optic.set_conic(value, num)
        elif kind == 'radius':
            optic.set_radius(value, num)
        elif kind == 'thickness':
            optic.set_thickness(value, num)
        elif kind == 'index':
            optic.set_index(value, num)
        elif kind == 'query':
            # the lens is USED in its intermediate state (whatever a query caches must follow the later edits)
            try:
                optic.trace(0.0, 0.0, WL, 3, 'hexapolar')
                optic.paraxial.f2()
            except Exception:      # noqa  (an intermediate state need not be a valid lens)
                pass
        elif kind == 'roundtrip':
            from optiland.optic import Optic
            optic = Optic.from_dict(optic.to_dict())
        else:
            raise ValueError(kind)
    return optic


FLAT_CARRY_MODES = ('flatten_restore', 'flatten_query_restore', 'flatten_roundtrip_restore', 'flatten_reconic_restore',
                    'flat_first_conic_then_radius')


def add_flat_carry_history(rng, cfg, mode, all_surfaces=False):
    """history class: a surface is FLAT at some moment of its history while the prescription already gives it a conic
    constant, and receives its radius afterwards - the conic constant entered by the user must survive on the flat
    surface.  Applied on top of whatever history cfg already has; every value is taken from the generated stigmatic
    prescription (cfg['final_spec'] / cfg['spec']).
      flatten_restore               set_radius(inf), set_radius(R)          (edit and edit back)
      flatten_query_restore         query, set_radius(inf), query, set_radius(R)
      flatten_roundtrip_restore     set_radius(inf), to_dict/from_dict, set_radius(R)
      flatten_reconic_restore       set_radius(inf), set_conic(other), set_conic(k), set_radius(R)
      flat_first_conic_then_radius  BUILT flat without conic; the last edits are set_conic(k), set_radius(R) in this order
    returns the list of surface numbers concerned (empty: the class does not apply)"""
    import copy
    if not cfg.get('final_spec'):
        cfg['final_spec'] = copy.deepcopy(cfg['spec'])
    final = cfg['final_spec']
    cand = [j for j, s_ in enumerate(final['surfaces'])
            if math.isfinite(s_['radius']) and s_.get('type', 'standard') == 'standard']
    conics = [j for j in cand if final['surfaces'][j].get('conic')]
    if not cand:
        return []
    if all_surfaces:
        picks = cand
    else:       # at least one conic surface when there is one; spheres (conic 0) go through the same history
        picks = sorted(set(([rng.choice(conics)] if conics else [rng.choice(cand)]) +
                           [j for j in cand if rng.random() < 0.5]))
    edits = list(cfg.get('edits') or [])
    tail = []
    for j in picks:
        num, s1 = j + 1, final['surfaces'][j]
        R, k = s1['radius'], s1.get('conic', 0.0)
        if mode == 'flat_first_conic_then_radius':
            s0 = cfg['spec']['surfaces'][j]
            s0['radius'] = INF
            s0.pop('conic', None)
            edits = [e for e in edits if not (e[0] in ('radius', 'conic') and e[1] == num)]
            tail += [['conic', num, k], ['radius', num, R]]
        elif mode == 'flatten_restore':
            tail += [['radius', num, INF], ['radius', num, R]]
        elif mode == 'flatten_query_restore':
            tail += [['query', None, None], ['radius', num, INF], ['query', None, None], ['radius', num, R]]
        elif mode == 'flatten_roundtrip_restore':
            tail += [['radius', num, INF], ['roundtrip', None, None], ['radius', num, R]]
        elif mode == 'flatten_reconic_restore':
            tail += [['radius', num, INF], ['conic', num, k + rng.choice([-1, 1]) * rng.uniform(0.05, 0.6)],
                     ['conic', num, k], ['radius', num, R]]
        else:
            raise ValueError(mode)
    cfg['edits'] = edits + tail
    cfg['flat_carry'] = mode
    return [j + 1 for j in picks]


def build(cfg):
    import random as _random
    import lensgen
    warnings.simplefilter('ignore')
    o = lensgen.build_via(cfg['spec'], cfg.get('route', 'direct'), _random.Random(cfg.get('route_seed', 0)))
    o = apply_edits(o, cfg.get('edits') or [])
    if cfg.get('image_in_glass'):
        img = o.surface_group.surfaces[-1]
        img.material_post = img.material_pre
    return o


def pupil_points(rng, n):
    """pupil points: centre, rim (4 + random azimuths), random interior"""
    pts = [(0.0, 0.0), (0.0, 1.0), (1.0, 0.0), (0.0, -1.0), (-1.0, 0.0)]
    while len(pts) < n:
        r = rng.choice([1.0, 1.0, math.sqrt(rng.random()), rng.uniform(0.9, 1.0)])
        th = rng.uniform(0, 2 * math.pi)
        pts.append((r * math.cos(th), r * math.sin(th)))
    return pts[:n]


def trace_pencil(optic, pts, w=WL, one_by_one=False):
    """returns (launch, records) per ray: records[k] = 8 floats at surface k.  one_by_one: each ray in its own call
    (the Newton-Raphson surfaces stop on a batch-wide criterion; the trace model iterates per ray)"""
    if one_by_one:
        return [trace_pencil(optic, [p_], w)[0] for p_ in pts]
    Px = np.array([p[0] for p in pts], dtype=float)
    Py = np.array([p[1] for p in pts], dtype=float)
    optic.trace_generic(0.0, 0.0, Px, Py, w)
    sg = optic.surface_group
    cols = [sg.x, sg.y, sg.z, sg.L, sg.M, sg.N, sg.intensity, sg.opd]
    nrec = cols[0].shape[0]
    out = []
    for j in range(len(pts)):
        out.append([[float(c[k, j]) for c in cols] for k in range(nrec)])
    return out


ULP = 2.220446049250313e-16
ASPHERE_DEFAULT_TOL = 1e-6


def strehl_tolerance(cfg):
    """1e-9, or the Marechal drop (2 pi sigma)^2 of the admitted wavefront error when the surface declares its own
    iteration tolerance"""
    if cfg.get('entry') == 'asphere':
        return max(1e-9, (2 * math.pi * 4 * ASPHERE_DEFAULT_TOL / (WL * 1e-3)) ** 2)
    return 1e-9


def tolerances(cfg, min_cos=1.0):
    """geometric tolerance (mm) and wavefront tolerance (waves): a few thousand ulp of the path length,
    divided by the squared direction cosine of the steepest ray at the image plane (the conditioning of
    `where does this ray cross the plane`)"""
    c2 = max(min_cos, 0.05) ** 2
    tol_mm = 4096 * ULP * cfg['scale'] / c2
    # the wavefront adds the cancellation  opd - n * (distance back to the reference sphere): 4x the budget
    tol_w = 4 * tol_mm / (WL * 1e-3)
    if cfg.get('entry') == 'asphere':
        # entered through the even-asphere type with the factory's iteration tolerance (1e-6 mm in sag): "numerical
        # precision" is that declared tolerance, seen through the lever of the mirror (x10) and the obliquity at the
        # image plane for the ray position; the optical path is stationary in it (Fermat), so the wavefront keeps 1x
        tol_mm = max(tol_mm, 10 * ASPHERE_DEFAULT_TOL / c2)
        tol_w = max(tol_w, 4 * ASPHERE_DEFAULT_TOL / c2 / (WL * 1e-3))
    return tol_mm, tol_w


def oracle(cfg, rng, n_rays=24, wavefront=True, psf=True, samplings=None):
    """the property, stated on the implementation.  returns the list of ALL violations (empty = holds)"""
    from optiland.wavefront import Wavefront
    from optiland.psf import FFTPSF
    warnings.simplefilter('ignore')
    bad = []
    try:
        o = build(cfg)
    except Exception as e:      # the configuration is a legal prescription: failing to build is a finding
        return [{'kind': 'build-raises', 'error': type(e).__name__ + ': ' + str(e)[:200]}]
    bad.extend(prescription_check(cfg, o))
    pts = pupil_points(rng, n_rays)
    try:
        recs = trace_pencil(o, pts)
    except Exception as e:
        return bad + [{'kind': 'trace-raises', 'error': type(e).__name__ + ': ' + str(e)[:200]}]
    img = [r[-1] for r in recs]
    cosines = [abs(r[-2][5]) for r in recs if math.isfinite(r[-2][5])]
    tol_mm, tol_w = tolerances(cfg, min(cosines) if cosines else 1.0)
    # (1) every ray meets the image point
    for (px, py), r in zip(pts, img):
        if not all(math.isfinite(v) for v in r[:3] + r[7:]):
            bad.append({'kind': 'ray-lost', 'pupil': [px, py], 'record': r})
            break
        if abs(r[0]) > tol_mm or abs(r[1]) > tol_mm:
            bad.append({'kind': 'misses-image-point', 'pupil': [px, py], 'x': r[0], 'y': r[1], 'tol': tol_mm})
            break
    for (px, py), r in zip(pts, img):
        if all(math.isfinite(v) for v in r[:3]) and not all(math.isfinite(v) for v in r[3:6]):
            bad.append({'kind': 'image-direction-nan', 'pupil': [px, py], 'record': r})
            break
    # (2) equal optical paths; the accumulated path must be the sum of index x segment length with the index of
    #     the medium the light travels in, taken from the prescription
    try:
        media = prescription_media(cfg.get('final_spec') or cfg['spec'])
    except ValueError:
        media = None
    if media is not None and len(media) == len(recs[0]) - 1:
        for (px, py), r in zip(pts, recs):
            if not all(math.isfinite(v) for rec_ in r for v in rec_[:3]):
                continue
            own = sum(nk * math.dist(r[k][:3], r[k + 1][:3]) for k, nk in enumerate(media))
            if abs(own - r[-1][7]) > tol_mm:
                bad.append({'kind': 'optical-path-wrong-medium', 'pupil': [px, py], 'reported': r[-1][7],
                            'sum_n_times_length': own, 'media_of_prescription': media, 'tol': tol_mm})
                break
    opl = [r[7] for r in img if math.isfinite(r[7])]
    if opl and max(opl) - min(opl) > tol_mm:
        bad.append({'kind': 'unequal-optical-paths', 'spread': max(opl) - min(opl), 'tol': tol_mm})
    # (3) reported wavefront error zero
    if wavefront:
        try:
            for dist, nr in (('hexapolar', 5), ('uniform', 9)):
                wf = Wavefront(o, fields=[(0.0, 0.0)], wavelengths=[WL], num_rays=nr, distribution=dist)
                d = np.asarray(wf.data[0][0][0], dtype=float)
                fin = np.isfinite(d)
                if not np.all(fin):
                    bad.append({'kind': 'wavefront-nan', 'distribution': dist, 'nan': int((~fin).sum()), 'of': int(d.size)})
                if np.any(fin) and np.max(np.abs(d[fin])) > tol_w:
                    bad.append({'kind': 'wavefront-error-nonzero', 'distribution': dist,
                                'max_abs_waves': float(np.max(np.abs(d[fin]))), 'tol': tol_w})
                if bad and bad[-1]['kind'].startswith('wavefront'):
                    break
        except Exception as e:
            bad.append({'kind': 'wavefront-raises', 'error': type(e).__name__ + ': ' + str(e)[:200]})
    # (4) Strehl ratio one
    if psf:
        for nr_, grid in (samplings or psf_samplings(rng)):
            try:
                ps = FFTPSF(o, (0.0, 0.0), WL, num_rays=nr_, grid_size=grid)
                s = float(ps.strehl_ratio())
                if math.isnan(s):
                    bad.append({'kind': 'strehl-nan', 'num_rays': nr_, 'grid_size': grid})
                elif not (abs(s - 1.0) <= strehl_tolerance(cfg)):
                    bad.append({'kind': 'strehl-not-one', 'strehl': s, 'num_rays': nr_, 'grid_size': grid})
            except Exception as e:
                bad.append({'kind': 'psf-raises', 'num_rays': nr_, 'grid_size': grid,
                            'error': type(e).__name__ + ': ' + str(e)[:200]})
            if bad and bad[-1]['kind'].startswith(('strehl', 'psf')):
                break
    return bad


PSF_CLASSES = [[(24, 64), (16, 128), (32, 64)],              # even rays, even grid
               [(25, 64), (17, 128), (33, 64)],              # odd rays, even grid  (odd difference)
               [(24, 65), (16, 129), (32, 201)],             # even rays, odd grid  (odd difference)
               [(25, 65), (17, 129), (33, 255), (21, 201)]]  # odd rays, odd grid


def psf_sampling_cycle(i, rng):
    """the i-th instance of a run gets parity class i mod 4 (every class is exercised by any 4 instances)"""
    return rng.choice(PSF_CLASSES[i % 4])


def psf_samplings(rng, k=2):
    """(num_rays, grid_size) pairs: all four parity classes of (num_rays, grid_size) - hence both parities of
    grid_size - num_rays - are drawn with equal weight; odd grids (65, 129, 201, 255) included"""
    classes = [[(24, 64), (16, 128), (32, 64)],            # even, even
               [(25, 64), (17, 128), (33, 64)],            # odd rays, even grid  (odd difference)
               [(24, 65), (16, 129), (32, 201)],           # even rays, odd grid  (odd difference)
               [(25, 65), (17, 129), (33, 255), (21, 201)]]  # odd, odd
    picks = rng.sample(range(4), k)
    if all(p < 2 for p in picks):
        picks[-1] = rng.choice([2, 3])       # every call exercises an odd grid
    return [rng.choice(classes[c]) for c in picks]


def oracle_virtual(cfg, rng, n_rays=24):
    """ray-level clauses for a configuration with a VIRTUAL image (hyperboloid_far): after the mirror the line of
    every ray passes through the near focus (0, 0, R/(1+e)), and  path(object -> mirror) - |P F1|  is the same for
    all rays; the hit points lie on the vertex sheet of the prescribed conic"""
    warnings.simplefilter('ignore')
    p = cfg['params']
    R, e = p['R'], p['e']
    f1 = R / (1 + e)
    try:
        o = build(cfg)
        pts = pupil_points(rng, n_rays)
        recs = trace_pencil(o, pts)
    except Exception as ex:      # noqa
        return [{'kind': 'build-or-trace-raises', 'error': type(ex).__name__ + ': ' + str(ex)[:200]}]
    tol = 4096 * ULP * cfg['scale']
    bad = []
    vals = []
    km = 2 if cfg.get('contact_stop') else 1          # record of the mirror
    n0 = prescription_media(cfg.get('final_spec') or cfg['spec'])[0]
    for (px, py), r in zip(pts, recs):
        x, y, z, L, M, N, _, opl = r[km]
        if not all(math.isfinite(v) for v in (x, y, z, L, M, N, opl)):
            bad.append({'kind': 'ray-lost', 'pupil': [px, py], 'record': r[km]})
            break
        k = -e * e
        if (R - (1 + k) * z) * R < 0:
            bad.append({'kind': 'hit-on-other-sheet', 'pupil': [px, py], 'hit': [x, y, z], 'launch_direction': r[0][3:6],
                        'note': 'the traced intersection is on the second sheet of the hyperboloid, not on the surface'})
            break
        # closest approach of the line (P, d) to the focus
        wx, wy, wz = 0.0 - x, 0.0 - y, f1 - z
        s = wx * L + wy * M + wz * N
        miss = math.sqrt(max((wx - s * L) ** 2 + (wy - s * M) ** 2 + (wz - s * N) ** 2, 0.0))
        if miss > tol * max(1.0, abs(s) / cfg['scale']):
            bad.append({'kind': 'misses-virtual-image-point', 'pupil': [px, py], 'miss': miss, 'tol': tol})
            break
        vals.append(opl + n0 * s)     # s < 0 for a virtual image: optical path minus n x distance to the image
        own = n0 * math.dist(r[0][:3], r[km][:3])
        if abs(own - opl) > tol:
            bad.append({'kind': 'optical-path-wrong-medium', 'pupil': [px, py], 'reported': opl, 'n_times_length': own})
            break
    if not bad and vals and max(vals) - min(vals) > tol:
        bad.append({'kind': 'unequal-optical-paths', 'spread': max(vals) - min(vals), 'tol': tol})
    return bad


def prescription_check(cfg, optic):
    """is the object - however it was reached (route, edit history, scale_system) - the stigmatic prescription that
    was generated?  (tools/lensgen.prescription_problems: vertex positions, media, radii, conics; plus the object
    distance and the entrance pupil diameter)"""
    import lensgen
    final = cfg.get('final_spec') or cfg['spec']
    try:
        bad = list(lensgen.prescription_problems(final, optic, WL))
    except Exception as ex:      # noqa
        return [{'kind': 'prescription', 'quantity': 'oracle raised', 'error': repr(ex)[:200]}]
    if cfg.get('image_in_glass'):
        bad = [b for b in bad if 'image' not in b.get('quantity', '')]
    zo = float(np.ravel(optic.surface_group.positions[0])[0])
    want = -final['object_thickness']
    if not ((math.isinf(zo) and math.isinf(want)) or abs(zo - want) <= 1e-9 * (1 + abs(want))):
        bad.append({'kind': 'prescription', 'quantity': 'object distance', 'implementation': -zo, 'entered': -want})
    if final['aperture'][0] == 'EPD' and abs(optic.aperture.value - final['aperture'][1]) > 1e-9 * final['aperture'][1]:
        bad.append({'kind': 'prescription', 'quantity': 'entrance pupil diameter', 'implementation': float(optic.aperture.value),
                    'entered': final['aperture'][1]})
    return bad[:4]


def image_cone(optic, w=WL):
    """largest n * sin(U') over the rim of the (possibly vignetted, hence elliptical) pupil, in the last medium
    (direction recorded at the surface before the image)"""
    Px = np.array([0.0, 1.0, 0.0, -1.0, 0.7071067811865476])
    Py = np.array([1.0, 0.0, -1.0, 0.0, 0.7071067811865476])
    optic.trace_generic(0.0, 0.0, Px, Py, w)
    sg = optic.surface_group
    s = np.hypot(sg.L[-2, :], sg.M[-2, :])
    s = float(np.nanmax(s)) if np.any(np.isfinite(s)) else float('nan')
    n = float(np.ravel(sg.surfaces[-1].material_pre.n(w))[0])
    return n * s

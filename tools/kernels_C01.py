"""C01 kernels (lens prescription edits): the arithmetic / integer / decision code of
Optic.set_thickness / image_solve, SurfaceFactory._configure_cs, SurfaceGroup.get_thickness, Pickup.apply,
MarginalRayHeightSolve.apply, WavelengthGroup.add_wavelength and the optimisation variables'
update_value / scale / inverse_scale, translated by py2coq (+ tools/py2coq_c01.py: object lists,
constructors, kwargs.get, vector-scalar arithmetic) into coq/Gen/LensEdit.v on every run.

The plumbing that is not arithmetic (which geometry class is built, material object sharing, the
pickup / solve managers, stop flags) is the hand model coq/Model/M_C01.v."""
from py2coq_c01 import C01Kernel

OP = 'optiland/optic.py'
SF = 'optiland/surfaces/surface_factory.py'
SG = 'optiland/surfaces/surface_group.py'
PK = 'optiland/pickup.py'
SV = 'optiland/solves.py'
WL = 'optiland/wavelength.py'
VR = 'optiland/optimization/variable/'

SURFS = 'self.surface_group.surfaces'
OSURFS = 'self.optic.surface_group.surfaces'
VSURFS = 'self._surfaces.surfaces'


def _k(**kw):
    kw.setdefault('kclass', C01Kernel)
    return kw


def _var(prefix, file, cls, setter, extra_types=None, nargs=2):
    t = {'self.apply_scaling': 'bool', 'self.surface_number': 'int'}
    t.update(extra_types or {})
    return [
        _k(name=f'c01_{prefix}_scale', file=VR + file, cls=cls, func='scale', types=dict(extra_types or {})),
        _k(name=f'c01_{prefix}_inverse_scale', file=VR + file, cls=cls, func='inverse_scale', types=dict(extra_types or {})),
        _k(name=f'c01_{prefix}_update', file=VR + file, cls=cls, func='update_value', types=t,
           calls={'self.inverse_scale': f'c01_{prefix}_inverse_scale'},
           capture_calls={setter: 'set_arg'},
           outputs=['set_arg'] + [f'set_arg_{j}' for j in range(1, nargs)]),
    ]


def _axis_var(prefix, file, cls, ax, ay):
    return [
        _k(name=f'c01_{prefix}_update', file=VR + file, cls=cls, func='update_value',
           types={'self.apply_scaling': 'bool', 'self.surface_number': 'int', 'self.axis': 'str',
                  VSURFS: 'objlist'},
           calls={'self.inverse_scale': f'c01_{prefix}_inverse_scale'},
           outputs=[f'{VSURFS}[].geometry.cs.{ax}', f'{VSURFS}[].geometry.cs.{ay}']),
    ]


MODULES = {
    'LensEdit': [
        # vertex position of a new surface
        _k(name='c01_cfg_cs', file=SF, cls='SurfaceFactory', func='_configure_cs',
           types={'index': 'int', 'self._surface_group.positions': 'list'},
           ctors={'CoordinateSystem': [('x', 'x', 0), ('y', 'y', 0), ('z', 'z', 0), ('rx', 'rx', 0), ('ry', 'ry', 0),
                                       ('rz', None, 0), ('reference_cs', None, 0)]}),
        _k(name='c01_get_thickness', file=SG, cls='SurfaceGroup', func='get_thickness',
           types={'self.positions': 'list', 'surface_number': 'int'}),
        _k(name='c01_set_thickness', file=OP, cls='Optic', func='set_thickness',
           types={'surface_number': 'int', 'self.surface_group.positions': 'list', SURFS: 'objlist'},
           outputs=[f'{SURFS}[].geometry.cs.z']),
        _k(name='c01_image_solve', file=OP, cls='Optic', func='image_solve',
           types={SURFS: 'objlist'},
           opaque_calls={'self.paraxial.marginal_ray': ['list', 'list']},
           outputs=[f'{SURFS}[].geometry.cs.z']),
        _k(name='c01_pickup_apply', file=PK, cls='Pickup', func='apply',
           opaque_calls={'self._get_value': 'num'}, capture_calls={'self._set_value': 'set_arg'},
           outputs=['set_arg']),
        _k(name='c01_mrh_apply', file=SV, cls='MarginalRayHeightSolve', func='apply',
           types={'self.surface_idx': 'int', OSURFS: 'objlist'},
           opaque_calls={'self.optic.paraxial.marginal_ray': ['list', 'list']},
           outputs=[f'{OSURFS}[].geometry.cs.z']),
        _k(name='c01_add_wavelength', file=WL, cls='WavelengthGroup', func='add_wavelength',
           types={'is_primary': 'bool', 'unit': 'str', 'self.num_wavelengths': 'int',
                  'self.wavelengths': 'objlist', 'self.wavelengths[].is_primary': 'bool'},
           ctors={'Wavelength': [('value', '_value', None), ('is_primary', 'is_primary', None), ('unit', None, None)]},
           outputs=['self.wavelengths[]._value', 'self.wavelengths[].is_primary']),
    ]
    + _var('thickness', 'thickness.py', 'ThicknessVariable', 'self.optic.set_thickness')
    + _var('radius', 'radius.py', 'RadiusVariable', 'self.optic.set_radius')
    + _var('index', 'index.py', 'IndexVariable', 'self.optic.set_index')
    + _var('asphere', 'asphere_coeff.py', 'AsphereCoeffVariable', 'self.optic.set_asphere_coeff',
           {'self.coeff_number': 'int'}, nargs=3)
    + [
        _k(name='c01_conic_update', file=VR + 'conic.py', cls='ConicVariable', func='update_value',
           types={'self.surface_number': 'int'}, capture_calls={'self.optic.set_conic': 'set_arg'},
           outputs=['set_arg', 'set_arg_1']),
        _k(name='c01_tilt_inverse_scale', file=VR + 'tilt.py', cls='TiltVariable', func='inverse_scale'),
        _k(name='c01_decenter_inverse_scale', file=VR + 'decenter.py', cls='DecenterVariable', func='inverse_scale'),
    ]
    + _axis_var('tilt', 'tilt.py', 'TiltVariable', 'rx', 'ry')
    + _axis_var('decenter', 'decenter.py', 'DecenterVariable', 'x', 'y'),
}
MODULE_DEPS = {}

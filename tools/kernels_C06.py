"""C06 kernels: the per-ray arithmetic of optiland/wavefront.py (reference sphere, path length to the
reference sphere, wavefront error in waves) that py2coq translates (Gen/WavefrontC06.v).  The ray-trace
kernels the property also rests on (std_distance, std_normal, std_sag, plane_distance, reflect, refract,
propagate) are the shared ones of tools/kernels.py (Gen/Standard.v, Gen/RealRays.v).
The array plumbing (tracing the pupil grid, taking the last row of the recorded arrays, FFT) is
hand-modelled in coq/Model/M_C06.v and tied to the code by tools/props/C06.py."""
from py2coq_c06 import C06Kernel

WF = 'optiland/wavefront.py'
_K = dict(kclass=C06Kernel)

MODULES = {
    'WavefrontC06': [
        dict(name='c06_opd_image_to_xp', file=WF, cls='Wavefront', func='_opd_image_to_xp', **_K),
        dict(name='c06_ref_sphere', file=WF, cls='Wavefront', func='_get_reference_sphere', **_K),
        dict(name='c06_path_length', file=WF, cls='Wavefront', func='_get_path_length',
             calls={'self._opd_image_to_xp': 'c06_opd_image_to_xp'}, **_K),
        dict(name='c06_correct_tilt_xy', file=WF, cls='Wavefront', func='_correct_tilt',
             types={'self.optic.field_type': 'str', 'field': 'tuple2'},
             opaque_calls={'self.optic.paraxial.EPD': 'num'}, static={'x': 'notnone', 'y': 'notnone'}, **_K),
        dict(name='c06_correct_tilt', file=WF, cls='Wavefront', func='_correct_tilt',
             types={'self.optic.field_type': 'str', 'field': 'tuple2'},
             opaque_calls={'self.optic.paraxial.EPD': 'num'}, static={'x': 'none', 'y': 'none'}, **_K),
        dict(name='c06_field_data', file=WF, cls='Wavefront', func='_generate_field_data',
             types={'self.optic.field_type': 'str', 'field': 'tuple2'},
             ignore_calls=['self.optic.trace'],
             calls={'self._get_path_length': 'c06_path_length', 'self._correct_tilt': 'c06_correct_tilt'}, **_K),
    ],
}
MODULE_DEPS = {}

"""C06 kernels: the per-ray arithmetic of optiland/wavefront.py (reference sphere, path length to the
reference sphere, wavefront error in waves) that py2coq translates (Gen/WavefrontC06.v).  The ray-trace
kernels the property also rests on (std_distance, std_normal, std_sag, plane_distance, reflect, refract,
propagate) are the shared ones of tools/kernels.py (Gen/Standard.v, Gen/RealRays.v).
The array plumbing (tracing the pupil grid, taking the last row of the recorded arrays, FFT) is
hand-modelled in coq/Model/M_C06.v and tied to the code by tools/props/C06.py."""
from py2coq_c06 import C06Kernel

WF = 'optiland/wavefront.py'
_K = dict(kclass=C06Kernel)

_OBJ = {'self.optic.image_surface.material_pre': 'obj', 'self.optic.object_surface.material_post': 'obj'}
_TILT_T = dict({'self.optic.field_type': 'str', 'field': 'tuple2'}, **_OBJ)
_OPQ = {'self.optic.paraxial.EPD': 'num', 'self.optic.object_surface.material_post.n': 'num',
        'self.optic.image_surface.material_pre.n': 'num'}
_VIG = ['self.optic.fields.get_vig_factor']

MODULES = {
    'WavefrontC06': [
        dict(name='c06_opd_image_to_xp', file=WF, cls='Wavefront', func='_opd_image_to_xp', **_K),
        dict(name='c06_ref_sphere', file=WF, cls='Wavefront', func='_get_reference_sphere', **_K),
        dict(name='c06_path_length', file=WF, cls='Wavefront', func='_get_path_length', types=dict(_OBJ),
             static={'wavelength': 'notnone'}, opaque_calls=dict(_OPQ),
             calls={'self._opd_image_to_xp': 'c06_opd_image_to_xp'}, **_K),
        dict(name='c06_correct_tilt_xy', file=WF, cls='Wavefront', func='_correct_tilt', types=dict(_TILT_T),
             opaque_calls=dict(_OPQ), opaque_pairs=_VIG,
             static={'x': 'notnone', 'y': 'notnone', 'wavelength': 'notnone'}, **_K),
        dict(name='c06_correct_tilt', file=WF, cls='Wavefront', func='_correct_tilt', types=dict(_TILT_T),
             opaque_calls=dict(_OPQ), opaque_pairs=_VIG,
             static={'x': 'none', 'y': 'none', 'wavelength': 'notnone'}, **_K),
        dict(name='c06_field_data', file=WF, cls='Wavefront', func='_generate_field_data', types=dict(_TILT_T),
             ignore_calls=['self.optic.trace'], opaque_calls=dict(_OPQ), opaque_pairs=_VIG,
             calls={'self._get_path_length': 'c06_path_length', 'self._correct_tilt': 'c06_correct_tilt'}, **_K),
    ],
}
MODULE_DEPS = {}

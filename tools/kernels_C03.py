"""C03 kernels: ray launch (optiland/rays/ray_generator.py) and pupil samplings (optiland/distribution.py),
translated by py2coq (+ tools/py2coq_c03.py) into coq/Gen/Fields.v, coq/Gen/RayGen.v and coq/Gen/Distrib.v (regenerated on every run)."""
from py2coq_c03 import C03Kernel

RG = 'optiland/rays/ray_generator.py'
DI = 'optiland/distribution.py'
FI = 'optiland/fields.py'
_R = ['Num.OpsC03']
_K = dict(kclass=C03Kernel, requires=_R)

MODULE_DEPS = {'RayGen': ['Standard']}

_OPTIC_T = {
    'self.optic.object_surface': 'obj',
    'self.optic.object_surface.is_infinite': 'bool',
    'self.optic.field_type': 'str',
    'self.optic.obj_space_telecentric': 'bool',
    'self.optic.aperture.ap_type': 'str',
    'self.optic.polarization': 'str',
    'self.optic.surface_group.uses_polarization': 'bool',
    'self.optic.surface_group.positions': 'list',
}
_PX = {'self.optic.paraxial.EPL': 'num', 'self.optic.paraxial.EPD': 'num'}

_FT = {'self.x_fields': 'list', 'self.y_fields': 'list'}

MODULES = {
    'Fields': [
        dict(name='fld_max_field', file=FI, cls='FieldGroup', func='max_field', types=dict(_FT), **_K),
        dict(name='fld_max_y_field', file=FI, cls='FieldGroup', func='max_y_field', types=dict(_FT), **_K),
        dict(name='fld_max_x_field', file=FI, cls='FieldGroup', func='max_x_field', types=dict(_FT), **_K),
    ],
    'RayGen': [
        dict(name='rg_z_offset', file=RG, cls='RayGenerator', func='_get_starting_z_offset',
             types=dict(_OPTIC_T), opaque_calls=dict(_PX), **_K),
        dict(name='rg_origins', file=RG, cls='RayGenerator', func='_get_ray_origins',
             types=dict(_OPTIC_T), opaque_calls=dict(_PX),
             calls={'self._get_starting_z_offset': 'rg_z_offset', 'obj.geometry.sag': 'std_sag'}, **_K),
        dict(name='rg_generate', file=RG, cls='RayGenerator', func='generate_rays',
             types=dict(_OPTIC_T),
             opaque_calls=dict(_PX, **{'self.optic.object_surface.material_post.n': 'num'}),
             opaque_pairs=['self.optic.fields.get_vig_factor'],
             calls={'self._get_ray_origins': 'rg_origins'}, **_K),
    ],
    'Distrib': [
        dict(name='dist_line_x', file=DI, cls='LineXDistribution', func='generate_points',
             types={'num_points': 'int', 'self.positive_only': 'bool'}, outputs=['self.x', 'self.y'], **_K),
        dict(name='dist_line_y', file=DI, cls='LineYDistribution', func='generate_points',
             types={'num_points': 'int', 'self.positive_only': 'bool'}, outputs=['self.x', 'self.y'], **_K),
        dict(name='dist_random', file=DI, cls='RandomDistribution', func='generate_points',
             types={'num_points': 'int'}, opaque_seq={'self.rng.uniform': 'list'},
             outputs=['self.x', 'self.y'], **_K),
        dict(name='dist_uniform', file=DI, cls='UniformDistribution', func='generate_points',
             types={'num_points': 'int'}, outputs=['self.x', 'self.y'], **_K),
        dict(name='dist_hexapolar', file=DI, cls='HexagonalDistribution', func='generate_points',
             types={'num_rings': 'int'}, outputs=['self.x', 'self.y'], **_K),
        dict(name='dist_cross', file=DI, cls='CrossDistribution', func='generate_points',
             types={'num_points': 'int'}, outputs=['self.x', 'self.y'], **_K),
        dict(name='dist_gq_radius', file=DI, cls='GaussianQuadrature', func='_get_radius',
             types={'num_rings': 'int'}, **_K),
        dict(name='dist_gq', file=DI, cls='GaussianQuadrature', func='generate_points',
             types={'num_rings': 'int', 'self.is_symmetric': 'bool'},
             calls={'self._get_radius': 'dist_gq_radius'}, outputs=['self.x', 'self.y'], **_K),
        dict(name='dist_ring', file=DI, cls='RingDistribution', func='generate_points',
             types={'num_points': 'int'}, outputs=['self.x', 'self.y'], **_K),
    ],
}

"""One-shot helper: print `Theorem <prop>_<lemma> : <type>. Proof. exact <lemma>. Qed.` blocks
from the current types of the named lemmas (output is pasted into Props/<prop>.v and then FROZEN
in git: a later weakening of a lemma makes `exact` fail)."""
import subprocess, sys, re, os
COQ = os.path.join(os.path.dirname(os.path.dirname(os.path.abspath(__file__))), 'coq')
prop = sys.argv[1]
imports = sys.argv[2]           # e.g. "Lemmas.L_RealRays Lemmas.L_Standard"
lemmas = sys.argv[3:]
src = 'From Coq Require Import Reals ZArith List String.\nFrom OV Require Import Ops RInst XR ' + imports + '.\nSet Printing Width 100.\n'
for l in lemmas:
    src += f'Check {l}.\n'
open('/tmp/_mk.v', 'w').write(src)
out = subprocess.run(['coqtop', '-Q', COQ, 'OV', '-batch', '-l', '/tmp/_mk.v'], capture_output=True, text=True).stdout
blocks = re.split(r'\n(?=[A-Za-z_][A-Za-z0-9_\']*\n?\s+: )', '\n' + out)
print('From Coq Require Import Reals ZArith List String.\nFrom OV Require Import Ops RInst XR ' + imports + '.\nLocal Open Scope R_scope.\nImport ListNotations.\n')
for b in blocks:
    b = b.strip()
    if not b:
        continue
    m = re.match(r'([A-Za-z_][A-Za-z0-9_\']*)\s*:\s*(.*)', b, re.S)
    if not m:
        continue
    name, ty = m.group(1), m.group(2).strip()
    print(f'Theorem {prop}_{name} :\n  {ty}.\nProof. exact {name}. Qed.\nPrint Assumptions {prop}_{name}.\n')

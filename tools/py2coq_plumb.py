"""py2coq_plumb: fail-closed translation of the PLUMBING of the real-ray trace (which step runs when).

The arithmetic kernels are translated by py2coq.py.  The methods that only sequence calls on objects
(`Surface._trace_real`, `Surface._interact`, `CoordinateSystem.localize/globalize`, `BaseCoating.interact`,
`SurfaceGroup.trace`, `Surface.trace`) are outside that translator's subset; the hand model coq/Model/Trace.v
writes their composition by hand.  This module closes the gap syntactically: every statement of those methods
must match, after normalisation, exactly one entry of a table of known statements; the method then becomes the
LIST of the corresponding step constructors in source order (coq/Gen/Plumbing.v).  coq/Model/Plumb.v gives each
step its meaning over the same regenerated kernels and coq/Lemmas/L_Plumb.v proves that executing the
regenerated lists IS `trace_surface` / `trace` of the hand model.  A reordered, dropped, duplicated or edited
statement either changes the list (the proof breaks) or matches nothing (translation failure): in both cases
the property's check reports a broken obligation and searches for a failing input.
"""
import ast
import os

# (file, class, method) -> name of the generated definition
METHODS = [
    ('optiland/surfaces/standard_surface.py', 'Surface', '_trace_real', 'plumb_trace_real'),
    ('optiland/surfaces/standard_surface.py', 'Surface', '_interact', 'plumb_interact'),
    ('optiland/surfaces/standard_surface.py', 'Surface', 'trace', 'plumb_surface_trace'),
    ('optiland/coordinate_system.py', 'CoordinateSystem', 'localize', 'plumb_localize'),
    ('optiland/coordinate_system.py', 'CoordinateSystem', 'globalize', 'plumb_globalize'),
    ('optiland/coatings.py', 'BaseCoating', 'interact', 'plumb_coat_interact'),
    ('optiland/surfaces/surface_group.py', 'SurfaceGroup', 'trace', 'plumb_group_trace'),
    ('optiland/geometries/base.py', 'BaseGeometry', 'localize', 'plumb_geom_localize'),
    ('optiland/geometries/base.py', 'BaseGeometry', 'globalize', 'plumb_geom_globalize'),
]

# normalised source of one statement (ast.unparse of the statement with the docstring removed) -> step
TABLE = {
    # Surface._trace_real
    'self.reset()': 'PReset',
    'self.geometry.localize(rays)': 'PLocalize',
    't = self.geometry.distance(rays)': 'PDistance',
    'rays.propagate(t, self.material_pre)': 'PPropagate',
    'rays.opd += np.abs(t * self.material_pre.n(rays.w))': 'POpd',
    'if self.aperture:\n    self.aperture.clip(rays)': 'PClipIfAperture',
    'rays = self._interact(rays)': 'PInteract',
    'self.geometry.globalize(rays)': 'PGlobalize',
    'self._record(rays)': 'PRecord',
    'return rays': 'PReturn',
    # Surface._interact
    'nx, ny, nz = self.geometry.surface_normal(rays)': 'PNormal',
    'if self.is_reflective:\n    rays.reflect(nx, ny, nz)\nelse:\n    n1 = self.material_pre.n(rays.w)\n    n2 = self.material_post.n(rays.w)\n    rays.refract(nx, ny, nz, n1, n2)': 'PReflectOrRefract',
    'if self.bsdf:\n    rays = self.bsdf.scatter(rays, nx, ny, nz)': 'PScatterIfBsdf',
    'if self.coating:\n    rays = self.coating.interact(rays, reflect=self.is_reflective, nx=nx, ny=ny, nz=nz)\nelse:\n    rays.update()': 'PCoatingOrUpdate',
    # Surface.trace
    'if isinstance(rays, ParaxialRays):\n    return self._trace_paraxial(rays)\nelif isinstance(rays, RealRays):\n    return self._trace_real(rays)': 'PDispatchRealOrParaxial',
    # CoordinateSystem.localize / globalize
    'if self.reference_cs:\n    self.reference_cs.localize(rays)': 'PRefLocalize',
    'if self.reference_cs:\n    self.reference_cs.globalize(rays)': 'PRefGlobalize',
    'rays.translate(-self.x, -self.y, -self.z)': 'PTranslateNeg',
    'rays.translate(self.x, self.y, self.z)': 'PTranslatePos',
    'if self.rx:\n    rays.rotate_x(-self.rx)': 'PRotXNeg',
    'if self.ry:\n    rays.rotate_y(-self.ry)': 'PRotYNeg',
    'if self.rz:\n    rays.rotate_z(-self.rz)': 'PRotZNeg',
    'if self.rx:\n    rays.rotate_x(self.rx)': 'PRotXPos',
    'if self.ry:\n    rays.rotate_y(self.ry)': 'PRotYPos',
    'if self.rz:\n    rays.rotate_z(self.rz)': 'PRotZPos',
    # BaseCoating.interact
    'if reflect:\n    return self.reflect(rays, nx, ny, nz)\nelse:\n    return self.transmit(rays, nx, ny, nz)': 'PCoatReflectOrTransmit',
    # SurfaceGroup.trace
    'for surface in self.surfaces[skip:]:\n    surface.trace(rays)': 'PForEachSurfaceFromSkip',
    # BaseGeometry.localize / globalize
    'self.cs.localize(rays)': 'PCsLocalize',
    'self.cs.globalize(rays)': 'PCsGlobalize',
}

# expected formal parameters (a renamed or added parameter changes what the statements mean)
PARAMS = {
    'plumb_trace_real': ['self', 'rays'], 'plumb_interact': ['self', 'rays'], 'plumb_surface_trace': ['self', 'rays'],
    'plumb_localize': ['self', 'rays'], 'plumb_globalize': ['self', 'rays'],
    'plumb_coat_interact': ['self', 'rays', 'reflect', 'nx', 'ny', 'nz'],
    'plumb_group_trace': ['self', 'rays', 'skip'],
    'plumb_geom_localize': ['self', 'rays'], 'plumb_geom_globalize': ['self', 'rays'],
}

STEPS = sorted(set(TABLE.values()))

HEADER = '''(* GENERATED by tools/py2coq_plumb.py from /repo sources -- do not edit. *)
From Coq Require Import List.
From OV Require Import Model.PlumbSteps.
Import ListNotations.
'''


def _find(tree, cls, func):
    for node in tree.body:
        if isinstance(node, ast.ClassDef) and node.name == cls:
            for f in node.body:
                if isinstance(f, ast.FunctionDef) and f.name == func:
                    return f
    return None


def translate(src_root):
    """returns (coq_text, manifests, failures) in the shape of py2coq.translate_module"""
    out = [HEADER]
    failures = []
    manifests = []
    for (rel, cls, func, name) in METHODS:
        try:
            with open(os.path.join(src_root, rel)) as fh:
                tree = ast.parse(fh.read())
            f = _find(tree, cls, func)
            if f is None:
                raise ValueError(f'{cls}.{func} not found')
            if f.decorator_list:
                raise ValueError('decorated method')
            a = f.args
            params = [x.arg for x in a.posonlyargs + a.args]
            if params != PARAMS[name] or a.vararg or a.kwarg or a.kwonlyargs:
                raise ValueError(f'parameters {params} differ from {PARAMS[name]}')
            body = list(f.body)
            if body and isinstance(body[0], ast.Expr) and isinstance(getattr(body[0], 'value', None), ast.Constant) \
                    and isinstance(body[0].value.value, str):
                body = body[1:]
            steps = []
            for st in body:
                src = ast.unparse(st)
                if src not in TABLE:
                    raise ValueError('statement outside the plumbing table: ' + src.replace('\n', ' / ')[:160])
                steps.append(TABLE[src])
            out.append(f'(* {rel} :: {cls}.{func} *)\nDefinition {name} : list pstep :=\n  [' + '; '.join(steps) + '].\n')
            manifests.append({'name': name, 'plumbing': True, 'file': rel, 'func': f'{cls}.{func}', 'steps': steps})
        except Exception as e:     # fail closed
            failures.append({'kernel': name, 'file': rel, 'func': f'{cls}.{func}', 'why': f'{type(e).__name__}: {e}'})
            out.append(f'(* {name} NOT TRANSLATED: {e} *)\n')
    return '\n'.join(out), manifests, failures


def steps_inductive():
    """text of the step type (kept in coq/Model/PlumbSteps.v; checked by tools/setup to be in sync)"""
    return 'Inductive pstep : Set :=\n' + '\n'.join(f'| {s}' for s in STEPS) + '.\n'


if __name__ == '__main__':
    import sys
    t, m, f = translate(sys.argv[1] if len(sys.argv) > 1 else '/repo')
    print(t)
    print(f)

"""C11 kernels: the scalar / integer / decision code of optiland/psf.py and optiland/mtf.py that
py2coq translates (Gen/PsfMtf.v).  The array plumbing (np.pad, np.fft, masks) is hand-modelled in
coq/Model/M_C11.v and tied to the code by tools/props/C11.py."""
PSF = 'optiland/psf.py'
MTF = 'optiland/mtf.py'

_PARAX = {'self.optic.paraxial.FNO': 'num', 'self.optic.paraxial.XPD': 'num',
          'self.optic.paraxial.EPD': 'num', 'self.optic.paraxial.magnification': 'num'}

MODULES = {
    'PsfMtf': [
        dict(name='strehl', file=PSF, cls='FFTPSF', func='strehl_ratio',
             types={'self.psf': 'list2', 'self.grid_size': 'int'}),
        dict(name='psf_units', file=PSF, cls='FFTPSF', func='_get_psf_units',
             types={'image': 'obj', 'image.shape': 'intlist', 'self.wavelengths': 'list',
                    'self.grid_size': 'int', 'self.num_rays': 'int',
                    'self.optic.object_surface.is_infinite': 'bool'},
             opaque_calls=dict(_PARAX)),
        dict(name='mtf_units', file=MTF, cls='FFTMTF', func='_get_mtf_units',
             types={'self.grid_size': 'int', 'self.num_rays': 'int'}),
        dict(name='mtf_fno', file=MTF, cls='FFTMTF', func='_get_fno',
             types={'self.optic.object_surface.is_infinite': 'bool'},
             opaque_calls=dict(_PARAX)),
    ],
}
MODULE_DEPS = {}

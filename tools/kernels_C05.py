"""C05 kernel specs.

Every arithmetic step of the real meridional trace and of the paraxial trace that C05 reasons about
is ALREADY a translated kernel of another module and is reused (not duplicated) by
coq/Model/M_C05.v and coq/Lemmas/L_C05_*.v:
  kernels.py      RealRays : translate  propagate_vac  align  refract  reflect
                  Standard : std_distance  std_normal  plane_distance  std_sag
  kernels_C04.py  Paraxial : surf_trace_paraxial (+ px_propagate, cs_localize_px, ...)
tools/props/C05.py lists them in KERNELS, so each is re-validated against the Python function it came
from on every `./check C05`.

Tried and not translated (the translator is fail-closed): Paraxial._get_object_position and
RayGenerator._get_ray_origins assign their results in if/elif chains without a final else
("unbound name y0"); RayGenerator._get_starting_z_offset uses np.min over a slice.  The launch is
therefore the hand model M_C05.mlaunch (unit vector from the start point to the aim point), tied to
RayGenerator.generate_rays by the correspondence check (launch record of every traced ray).
"""
MODULES = {}

"""C04 - paraxial properties equal matrix optics."""
import math
from props.common import BASE_TRUSTED

PROP = 'C04'
KERNELS = ['px_propagate', 'px_rot_x', 'px_rot_y', 'px_rot_z', 'cs_localize_px', 'cs_globalize_px',
           'geom_localize_px', 'geom_globalize_px', 'surf_trace_paraxial', 'translate', 'px_marginal_launch']
THEOREMS = ['C04_pstep_matrix', 'C04_ptrace_is_atrace', 'C04_atrace_abcd', 'C04_atrace_linear',
            'C04_lagrange_records', 'C04_mdet_sysmat', 'C04_lagrange_invariant', 'C04_sysmats_last',
            'C04_mapply_mmul', 'C04_mdet_surf', 'C04_focal_from_matrix',
            'C04_tg_forward_matrix', 'C04_XPL_from_matrix', 'C04_marginal_ray_matrix_infinite',
            'C04_marginal_ray_matrix_finite', 'C04_magnification_matrix', 'C04_magnification_is_A',
            'C04_wf_inverted', 'C04_tg_reverse_matrix', 'C04_EPL_from_matrix',
            'C04_reversed_system_matrix', 'C04_reversed_entries', 'C04_f1_F1_from_forward_matrix', 'C04_EPL_classical',
            'C04_marginal_ray_launch_regenerated']
COQ_TARGETS = ['Model/Paraxial.vo']
TRUSTED_BASE = BASE_TRUSTED + [
    'hand model coq/Model/Paraxial.v (composition of traces into f1 f2 F1 F2 P1 P2 N1 N2 EPL EPD XPL XPD FNO '
    'magnification invariant marginal_ray chief_ray, SurfaceGroup.inverted): tied by correspondence only',
    'specification coq/Spec/S_ABCD.v (transfer / refraction / mirror matrices)',
    'implementation-level oracle tools/oracles.py::check_paraxial (independent NumPy matrix optics)',
]
RULE = ('seeded axially symmetric prescriptions of 1-12 planes/spheres/conics/aspheres incl. mirrors, catalogue and ideal media, '
        'stop first/interior/last, finite and infinite objects, EPD/imageFNO/objectNA, angle/height fields; every Paraxial query '
        'compared with the Coq model (FOps) and with independent matrix optics; non-trivial = distinct lens with a finite f2')
PARTIAL = ['cardinal points / pupils: theorems give f2 = -1/C and F2 = -A/C of the system matrix (focal_from_matrix), XPL = -B/D of the surfaces behind '
           'the stop (XPL_from_matrix), EPL = (B + eD)/(A + eC) - d of the FORWARD matrix of the surfaces in front of the stop (EPL_classical) with SurfaceGroup.inverted proved to be the reversed '
           'abstract system (wf_inverted, EPL_from_matrix), the reversed-system matrix M\' = T(-d) J M^-1 J T(e) (reversed_system_matrix, mirrors included) '
           'and with it f1 = det M / C and F1 = (D - C)/C of the FORWARD matrix (f1_F1_from_forward_matrix), the marginal ray as accumulated matrices applied to (EPD/2, 0) or (0, EPD/2(EPL-z_obj)) '
           '(marginal_ray_matrix_*), magnification = n0/(n_last D) = A in the conjugate plane (magnification_matrix, magnification_is_A); for P, N, '
           'XPD, FNO, imageFNO/objectNA apertures and the chief ray the theorem is about the trace records they are computed from '
           '(tg_forward_matrix / tg_reverse_matrix: every _trace_generic = accumulated ABCD matrices applied to the launch) and the stated '
           'matrix entries are carried by the model correspondence and the matrix-optics oracle']


def kernel_cases(ctx):
    g = ctx.gen
    n = ctx.n(300, 3000)
    cases = []
    for i in range(n):
        R = g.r.choice([float('inf'), g.uni(10, 200) * g.r.choice([-1, 1])])
        n1, n2 = g.uni(1, 2), g.uni(1, 2)
        cases.append([0.0, g.r.choice([0.0, g.uni(-1, 1)]), g.uni(-20, 60), 0.0, g.uni(-5, 5), g.uni(-30, 60),
                      0.0, 0.0, 0.0, g.uni(-0.3, 0.3), bool(i % 4 == 0), R, n1, n2])
    # run the real Surface._trace_paraxial on real objects (the kernel reads through geometry.cs / materials)
    import warnings
    import numpy as np
    warnings.simplefilter('ignore')
    from optiland.surfaces.standard_surface import Surface
    from optiland.geometries import Plane, StandardGeometry
    from optiland.coordinate_system import CoordinateSystem
    from optiland.materials import IdealMaterial
    from optiland.rays import ParaxialRays
    pyres = []
    for c in cases:
        (csx, csy, csz, x, y, z, rx, ry, rz, u, refl, R, n1, n2) = c
        try:
            cs = CoordinateSystem(csx, csy, csz, rx, ry, rz)
            geo = Plane(cs) if math.isinf(R) else StandardGeometry(cs, R, 0.0)
            s = Surface(geo, IdealMaterial(n1), IdealMaterial(n2), is_reflective=refl)
            r = ParaxialRays(y, u, z, 0.55)
            r.x = np.array([x], dtype=float)
            s._trace_paraxial(r)
            pyres.append({'ok': [float(v[0]).hex() for v in (r.y, r.u, r.z, r.x)]})
        except Exception as e:    # noqa
            pyres.append({'err': type(e).__name__})
    yield 'surf_trace_paraxial', cases, {'pyres': pyres}
    # the regenerated LAUNCH of the marginal ray against Paraxial.marginal_ray on real lenses (its final
    # _trace_generic call is intercepted: the arguments are the launch)
    import random, lensgen
    r3 = random.Random(ctx.seed * 13 + 6)
    lc, lres = [], []
    for i in range(ctx.n(40, 400)):
        spec = lensgen.rear_stop_spec(r3) if i % 8 == 7 else lensgen.gen_spec(r3, allow=['plane', 'standard', 'conic'], decenter=False,
                                                                                 finite_object=(True if i % 2 else None))
        try:
            o = lensgen.build_via(spec, 'direct', r3)
            px = o.paraxial
            inp = [float(px.EPD()), [float(np.ravel(v)[0]) for v in px.surfaces.positions], bool(o.object_surface.is_infinite),
                   float(o.object_surface.geometry.cs.z), float(px.EPL()), float(o.primary_wavelength)]
            calls, orig = [], px._trace_generic
            px._trace_generic = lambda *a, **kw: (calls.append((a, kw)), orig(*a, **kw))[1]
            px.marginal_ray()            # EPD() / EPL() trace too: the LAST call is the launch of the marginal ray
            (a, kw) = calls[-1]
            if kw or len(a) != 4:
                raise ValueError('unexpected launch call')
            lres.append({'ok': [float(np.ravel(v)[0]).hex() for v in a]})
            lc.append(inp)
        except Exception:    # noqa  (a lens that does not build is not a case of this kernel)
            continue
    yield 'px_marginal_launch', lc, {'pyres': lres}


def _cases(ctx, nl):
    import random, warnings
    import lensgen, paraxcorr
    warnings.simplefilter('ignore')
    rng = random.Random(ctx.seed * 13 + 4)
    cases = []
    hist = {'lenses': 0, 'mirrors': 0, 'finite_object': 0, 'stop_first': 0, 'stop_last': 0, 'aperture': {}, 'field': {}}
    corp = [c for c in lensgen.corpus() if c['name'] in ('mangin', 'image-in-glass', 'tir-planoconvex', 'window-before-stop', 'cemented', 'paraboloid',
                                                        'centre-of-curvature', 'rear-stop-finite-object')]
    _r2 = random.Random(ctx.seed * 13 + 5)      # own stream: the main stream stays as it was
    corp += [lensgen.rear_stop_spec(_r2) for _ in range(3)]      # random members of the EPL < 0, finite-object family
    for li in range(nl + len(corp)):
        spec = dict(corp[li]) if li < len(corp) else lensgen.gen_spec(rng, allow=['plane', 'standard', 'conic', 'even_asphere'], decenter=False,
                                                                                  finite_object=(True if li % 4 == 3 else None))
        if li >= len(corp) and li % 4 == 3 and not math.isinf(spec['object_thickness']):
            lensgen.immerse(spec, rng)       # immersion objective / eye model: object or image space not in air
            hist['immersed'] = hist.get('immersed', 0) + 1
            if rng.random() < 0.5:
                spec['aperture'] = ['objectNA', rng.uniform(0.02, 0.3)]
        if li >= len(corp) and li % 6 == 2:
            hist['cemented_interfaces'] = hist.get('cemented_interfaces', 0) + lensgen.cement(spec, rng)
        if li >= len(corp) and li % 5 == 4 and len(spec['fields']) > 1:
            lensgen.reorder_fields(spec, rng)      # the maximum field does not depend on the order of the field list
            hist['fields_reordered'] = hist.get('fields_reordered', 0) + 1
        edits = []
        route = {1: 'handbuilt', 3: 'reuse', 5: 'roundtrip'}.get(li % 7, 'direct') if li >= len(corp) else 'direct'
        hist['route_' + route] = hist.get('route_' + route, 0) + 1
        try:
            o = lensgen.build_via(spec, route, rng)
            if li % 3 == 1 or route == 'roundtrip':
                # query, edit through the public setters, query again: stale caches / missed updates show up here
                paraxcorr.impl_queries(o)
                edits = lensgen.random_edits(o, spec, rng, kinds=(['index', 'index', 'radius'] if route == 'roundtrip' else None))
                hist['edited'] = hist.get('edited', 0) + 1
            ps = paraxcorr.psurfs(o)
            impl = paraxcorr.impl_queries(o)
        except Exception as e:   # noqa
            hist.setdefault('errors', {}).setdefault(type(e).__name__, 0)
            hist['errors'][type(e).__name__] += 1
            continue
        hist['lenses'] += 1
        hist['mirrors'] += int(any(s['refl'] for s in ps))
        hist['finite_object'] += int(not math.isinf(spec['object_thickness']))
        if not math.isinf(spec['object_thickness']) and isinstance(impl.get('EPL'), float) and impl['EPL'] < 0:
            hist['finite_object_pupil_in_front'] = hist.get('finite_object_pupil_in_front', 0) + 1
        st = [bool(s.get('is_stop')) for s in spec['surfaces']].index(True)
        hist['stop_first'] += int(st == 0)
        hist['stop_last'] += int(st == len(spec['surfaces']) - 1)
        hist['aperture'][spec['aperture'][0]] = hist['aperture'].get(spec['aperture'][0], 0) + 1
        hist['field'][spec['field_type']] = hist['field'].get(spec['field_type'], 0) + 1
        cases.append(dict(ps=ps, spec=spec, impl=impl, edits=edits, route=route, pp=lensgen.prescription_problems(spec, o, None, edits)))
    return cases, hist


def system_checks(ctx):
    import paraxcorr, oracles
    cases, hist = _cases(ctx, ctx.n(80, 1500))
    res = {'name': 'paraxial-model-vs-implementation', 'n': 0, 'nontrivial': 0, 'histogram': hist, 'samples': [],
           'disagreements': []}
    try:
        fails, n = paraxcorr.run(cases, tol=1e-9, tag='C04')
    except RuntimeError as e:
        res['error'] = str(e)
        yield res
        return
    res['n'] = n
    seen = set()
    for ci, c in enumerate(cases):
        f2 = c['impl'].get('f2')
        key = tuple((s['R'], s['z'], s['npost']) for s in c['ps'])
        if isinstance(f2, float) and math.isfinite(f2) and key not in seen:
            seen.add(key)
            res['nontrivial'] += 1
        bad = c['pp'] + oracles.check_paraxial(c['ps'], c['spec'], c['impl'])
        if ci in fails or bad:
            res['disagreements'].append({'spec': c['spec'], 'route': c['route'], 'edits_after_first_query': c['edits'], 'model_disagrees_on': fails.get(ci, []),
                                         'oracle': bad[:5], 'violates_property': bool(bad)})
    if -1 in fails:
        res['disagreements'].append({'note': fails[-1], 'violates_property': False})
    if cases:
        c = cases[0]
        res['samples'].append({'surfaces': [(s['R'], s['z'], s['npost'], s['refl'], s['stop']) for s in c['ps']],
                               'f2': c['impl'].get('f2'), 'EPL': c['impl'].get('EPL')})
    yield res


def search(ctx, broken, disagreements):
    import oracles
    cases, hist = _cases(ctx, ctx.n(150, 1500))
    for c in cases:
        bad = c['pp'] + oracles.check_paraxial(c['ps'], c['spec'], c['impl'])
        if bad:
            return {'spec': c['spec'], 'route': c['route'], 'edits_after_first_query': c['edits'], 'oracle': bad[:5], 'violates_property': True}
    return None


def matches_finding(w, f):
    return False


def replay_finding(ctx, f):
    return None


def broken_explained(b, known, witnesses):
    return False

"""C13 - tracing and analysis are repeatable and free of side effects."""
import json
import math
import os
import random

from props.common import BASE_TRUSTED

PROP = 'C13'
KERNELS = ['sg_get_thickness', 'wf_opd_image_to_xp', 'wf_path_length', 'wf_path_length_vac', 'nr_sphere', 'ea_sag',
           'pg_sag']
THEOREMS = ['C13_queries_preserve_prescription', 'C13_output_depends_only_on_prescription',
            'C13_history_independent_output', 'C13_repeatable_output', 'C13_records_after_forward_trace',
            'C13_records_after_real_trace', 'C13_reverse_trace_leaves_lens', 'C13_built_wf',
            'C13_query_history_independent', 'C13_every_modelled_query_built',
            'C13_interleavings_preserve_prescription', 'C13_interleavings_history_independent',
            'C13_interleavings_repeatable', 'C13_model_meets_spec',
            'C13_reading_before_tracing_is_history_dependent', 'C13_caller_arrays_unchanged',
            'C13_rays_do_not_depend_on_aliasing', 'C13_trace_generic_args_safe', 'C13_tg_scale_twice_same',
            'C13_inplace_unchanged_iff', 'C13_newton_batch_iter', 'C13_batch_count_ge_single',
            'C13_newton_batch_member', 'C13_newton_companions_only_prolong', 'C13_newton_batch_exit_residual',
            'C13_newton_iterates_on_ray', 'C13_newton_batch_tolerance_partial',
            'C13_wf_opd_image_to_xp_on_sphere', 'C13_wf_path_length_reads_only_the_ray',
            'C13_wf_path_length_vac_reads_only_the_ray']
TRUSTED_BASE = BASE_TRUSTED + [
    'modelled, not translated: the record plumbing of Surface/SurfaceGroup (reset, _record, getters, trace with skip, '
    'inverted deep copy) and the call graph of paraxial.py / ray_generator.py / optic.py / wavefront.py / analysis/*.py '
    '(coq/Model/M_C13.v); tied to the implementation on every run by comparing the sizes of all ten record arrays of '
    'every surface after every call of random histories',
    'TRANSLATION VALIDATION, not proof: that the Python implementation has no state outside the modelled one (module '
    'globals, caches, aliasing of NumPy buffers) cannot be carried by a theorem about the model; it is tested by the '
    'interleaving differential test (every call of the catalogue executed on fresh lenses and inside random '
    'interleavings on ONE lens object, results compared bit for bit, caller arrays, deep lens snapshot and to_dict() '
    'compared before/after every call)',
    'static extraction tools/c13lib.inplace_params (AST: augmented / subscript assignment to a parameter before it is '
    'rebound) supplies the in-place flags of the caller-array model; validated by comparing the predicted caller array '
    'with the observed one',
    'TRANSLATION VALIDATION, method level: analysis objects are exercised through every public no-argument method found by '
    'introspection (view() runs under the Agg backend); methods that need arguments are not called',
    'NaN payload/sign bits are not compared (NumPy scalar and SIMD paths produce different NaN signs); unseeded random '
    'pupil sampling (distribution="random" by name, BSDF scatter) is excluded as the property allows',
]
RULE = ('seeded lenses from tools/lensgen (planes/spheres/conics/aspheres/polynomials/Chebyshev, mirrors, tilts, finite '
        'and infinite objects, EPD/imageFNO/objectNA) in the variants plain / vignetting factors / simple coatings / '
        'Fresnel coatings + polarization state / iterated (Newton) surfaces; call catalogue = trace (7 distributions, '
        'caller-made distribution objects, seeded random), trace_generic (python floats, ints, arrays, size-1 arrays, '
        'mixed), 15 paraxial queries, marginal/chief ray, paraxial.trace, 14 aberration queries, n(), Wavefront, OPDFan, '
        'OPD, ZernikeOPD, FFTPSF, FFTMTF, GeometricMTF and the 10 analysis classes; non-trivial = call returned without '
        'raising; multi-item requests (several fields x several wavelengths in one analysis call, lists in several '
        'orders) on chromatic lenses against the single-pair requests')
COQ_TARGETS = ['Lemmas/L_C13.vo', 'Lemmas/L_C13_wavefront.vo', 'Model/M_C13.vo', 'Gen/Geometries.vo', 'Gen/C13Kern.vo']
PARTIAL = [
    'newton_batch_tolerance_partial: the bound 2 tol/m + 2 tol/|N| between a ray alone and in company needs the residual '
    'z - sag(x,y) to be m-expansive along the ray (transversality) as a hypothesis; without it only the structural facts '
    'are proved (companions only add corrections of the ray\'s own iteration; every returned point is one correction '
    'away from an iterate that passed |dz| < tol)',
    'bit-identity of floating-point results and absence of hidden state in the Python objects: differential test only',
    'calls that raise in the middle of a trace (Chebyshev domain error) leave partially written records; the model has '
    'total physics, the differential test covers raising calls',
]

HERE = os.path.dirname(os.path.abspath(__file__))


# --------------------------------------------------------------------------------------------------
# 3a. translated kernels
# --------------------------------------------------------------------------------------------------
def kernel_cases(ctx):
    g = ctx.gen
    n = ctx.n(120, 1500)
    th = []
    for i in range(n):
        m = g.r.randrange(2, 9)
        pos = [g.uni(-500, 0)]
        for _ in range(m - 1):
            pos.append(pos[-1] + g.uni(-20, 60))
        if i % 13 == 0:
            pos[0] = float('-inf')
        th.append([g.r.randrange(0, m - 1), pos])
    yield 'sg_get_thickness', th, {'shadow': ['positions'], 'arrays': ['self.positions']}
    # the code that reads the record table after a trace: ray at the image, reference sphere through the pupil
    wfc, wfp, wfv = [], [], []
    rows = ['self.optic.surface_group.' + q for q in ('x', 'y', 'z', 'L', 'M', 'N', 'opd')]
    for i in range(n):
        xc, yc, zc = g.uni(-5, 5), g.uni(-5, 5), g.uni(-0.5, 0.5)
        R = g.uni(20, 200)
        L, M = g.uni(-0.3, 0.3), g.uni(-0.3, 0.3)
        N = math.sqrt(1 - L * L - M * M) * (1 if i % 11 else -1)
        x, y, z = xc + g.uni(-1, 1), yc + g.uni(-1, 1), zc + g.uni(-0.2, 0.2)
        if i % 17 == 0:
            x, y = xc + 3 * R, yc            # outside the sphere, heading away: negative discriminant -> NaN
        wfc.append([xc, yc, zc, R, x, y, z, L, M, N])
        opd = g.uni(50, 300)
        wfv.append([xc, yc, zc, R, opd, x, y, z, L, M, N])
        wfp.append([xc, yc, zc, R, opd, g.uni(1.0, 1.9) * (-1 if i % 7 == 0 else 1), x, y, z, L, M, N])
    yield 'wf_opd_image_to_xp', wfc, {'rows2d': rows}
    yield 'wf_path_length_vac', wfv, {'rows2d': rows}
    # with a wavelength the method reads self.optic.image_surface.material_pre through a local name: the generic
    # runner cannot wire that, so the REAL method is run here on stub objects and its results handed over
    yield 'wf_path_length', wfp, {'rows2d': rows, 'pyres': _run_path_length(wfp)}
    sph = []
    for i in range(n):
        d = g.unit3()
        if d[2] < 0:
            d = [-v for v in d]
        R = g.uni(15, 200) * g.r.choice([-1, 1])
        x, y = g.uni(-0.5, 0.5) * abs(R), g.uni(-0.5, 0.5) * abs(R)
        if i % 9 == 0:
            x, y = 3 * x, 3 * y       # miss
        sph.append(d + [x, y, R, g.uni(-30, 2)])
    yield 'nr_sphere', sph, {'scalars': ['self.radius'], 'plain_self': True}
    ea, pg = [], []
    for i in range(n):
        R = g.uni(20, 200) * g.r.choice([-1, 1])
        k = g.r.choice([0.0, -1.0, g.uni(-2, 1)])
        x, y = g.uni(-0.4, 0.4) * abs(R), g.uni(-0.4, 0.4) * abs(R)
        ea.append([x, y, R, k, [g.uni(-1, 1) * 10 ** (-4 - 2 * j) for j in range(g.r.choice([1, 2, 3]))]])
        nr, nc = g.r.choice([(2, 2), (3, 2), (3, 3)])
        pg.append([x, y, R, k, [[g.uni(-1, 1) * 10 ** (-3 - (a + b)) for b in range(nc)] for a in range(nr)]])
    yield 'ea_sag', ea, {'scalars': ['self.radius', 'self.k'], 'tol': 1e-12}
    yield 'pg_sag', pg, {'scalars': ['self.radius', 'self.k'], 'tol': 1e-12}


def _run_path_length(cases):
    """Wavefront._get_path_length(xc, yc, zc, r, wavelength) of the implementation on stub record tables"""
    import types
    import numpy as np
    from optiland.wavefront import Wavefront
    out = []
    for xc, yc, zc, R, opd, n, x, y, z, L, M, N in cases:
        row = lambda v: np.array([[v]], dtype=float)   # noqa
        one = lambda v: np.array([v], dtype=float)     # noqa
        wf = object.__new__(Wavefront)
        wf.optic = types.SimpleNamespace(
            surface_group=types.SimpleNamespace(x=row(x), y=row(y), z=row(z), L=row(L), M=row(M), N=row(N),
                                                opd=row(opd)),
            image_surface=types.SimpleNamespace(material_pre=types.SimpleNamespace(n=lambda w, _n=n: _n)))
        try:
            with np.errstate(all='ignore'):
                r = Wavefront._get_path_length(wf, one(xc), one(yc), one(zc), one(R), wavelength=0.55)
            out.append({'ok': [float(np.ravel(r)[0]).hex()]})
        except Exception as e:   # noqa
            out.append({'err': type(e).__name__, 'msg': str(e)[:100]})
    return out


# --------------------------------------------------------------------------------------------------
# helpers
# --------------------------------------------------------------------------------------------------
def _lib():
    import warnings
    import c13lib
    warnings.simplefilter('ignore')
    return c13lib


def _specs(ctx, rng, n, variants=None):
    c13 = _lib()
    out = []
    tries = 0
    while len(out) < n and tries < 4 * n:
        tries += 1
        v = variants[len(out) % len(variants)] if variants else None
        spec = c13.gen_spec(rng, variant=v)
        try:
            c13.build(spec)
        except Exception:   # noqa
            continue
        out.append(spec)
    return out


def _viol_to_witness(v, spec):
    w = {'kind': v['kind'], 'spec': spec, 'op': v.get('op'), 'history': v.get('history', []),
         'violates_property': True}
    for k in ('diff', 'args', 'detail', 'ray', 'group', 'why', 'deviation'):
        if k in v:
            w[k] = v[k]
    if v['kind'] == 'caller-array-modified':
        w['call_site'] = 'Optic.' + v['op']['op'] if v.get('op') else None
    return w


# --------------------------------------------------------------------------------------------------
# 3b. system checks
# --------------------------------------------------------------------------------------------------
def check_state_machine(ctx):
    """Model/M_C13.v (size instance, evaluated in Coq over Z) against the real objects: sizes of all ten record
    arrays of every surface after every call of random histories"""
    import vlib
    c13 = _lib()
    rng = random.Random(ctx.seed * 13 + 1)
    nl, ln = ctx.n(10, 60), ctx.n(26, 50)
    res = {'name': 'record-state-machine-vs-implementation', 'n': 0, 'nontrivial': 0, 'samples': [],
           'disagreements': [], 'histogram': {'lenses': 0, 'calls': 0, 'opcodes': {}}}
    specs = _specs(ctx, rng, nl, ['plain', 'vignetting', 'coated', 'newton', 'polarized', 'plain'])
    bodies, hs = [], []
    for i, spec in enumerate(specs):
        h = c13.history_tables(rng, spec, length=ln, heavy=True)
        if not h['steps']:
            continue
        hs.append((spec, h))
        bodies.append(c13.coq_history_case(f'c{i}', h) + f'Eval vm_compute in (report r_c{i}).\n')
        res['histogram']['lenses'] += 1
        for _, code, _ in h['steps']:
            k = code.split()[0]
            res['histogram']['opcodes'][k] = res['histogram']['opcodes'].get(k, 0) + 1
    try:
        out = vlib.run_cases('C13hist', 'From OV Require Import Model.M_C13 Lemmas.L_C13.', bodies)
    except RuntimeError as e:
        res['error'] = str(e)
        return res
    seen = set()
    for (spec, h), r in zip(hs, out):
        if r[0] == 'error':
            res['error'] = r[1]
            return res
        res['n'] += r[0]
        res['histogram']['calls'] += r[0]
        if r[0] != len(h['steps']):
            res['disagreements'].append({'why': 'model produced a different number of steps', 'model': r[0],
                                         'impl': len(h['steps']), 'violates_property': False})
        for j, (op, code, t) in enumerate(h['steps']):
            if (code, str(t)) not in seen:
                seen.add((code, str(t)))
                res['nontrivial'] += 1
        for j in r[2]:
            op, code, t = h['steps'][j]
            # is it the implementation that misbehaves?  replay the call after the same history against a fresh lens
            hist = [s[0] for s in h['steps'][:j]]
            rp = c13.replay(spec, c13.build, hist, op)
            d = {'spec': spec, 'history': hist, 'op': op, 'opcode': code, 'observed_record_sizes': t,
                 'kind': 'record-table', 'replay': rp, 'violates_property': bool(rp)}
            if rp:
                d['kind'] = rp[0]['kind']
            res['disagreements'].append(d)
    if hs:
        spec, h = hs[0]
        op, code, t = h['steps'][-1]
        res['samples'].append({'lens': h['cfg'], 'stop': h['stop'], 'call': op, 'opcode': code,
                               'record_sizes[y,u,x,z,L,M,N,intensity,aoi,opd] per surface': t})
    return res


def check_caller_arrays(ctx):
    """tg_scale (Coq, PrimFloat) with the in-place flags extracted from the source against the caller's arrays
    as they are after Optic.trace_generic"""
    import numpy as np
    import vlib
    c13 = _lib()
    rng = random.Random(ctx.seed * 13 + 2)
    res = {'name': 'caller-arrays-model-vs-implementation', 'n': 0, 'nontrivial': 0, 'samples': [],
           'disagreements': [], 'histogram': {}}
    try:
        flags = c13.inplace_params(os.path.join(vlib.REPO, 'optiland/optic.py'), 'Optic', 'trace_generic')
        flags_trace = c13.inplace_params(os.path.join(vlib.REPO, 'optiland/optic.py'), 'Optic', 'trace')
    except Exception as e:  # noqa
        res['error'] = 'static extraction failed: ' + repr(e)
        return res
    res['histogram']['inplace_params'] = {'Optic.trace_generic': flags, 'Optic.trace': flags_trace}
    specs = _specs(ctx, rng, ctx.n(8, 60), ['vignetting', 'vignetting', 'plain'])
    lines, meta = [], []
    fh = vlib.fhex
    for spec in specs:
        o = c13.build(spec)
        for _ in range(ctx.n(6, 12)):
            n = rng.choice([1, 2, 5, 8])
            Hy = rng.choice([0.0, 1.0, rng.uniform(0, 1)])
            Px = np.array([rng.uniform(-1, 1) for _ in range(n)])
            Py = np.array([rng.uniform(-1, 1) for _ in range(n)])
            Hx = 0.0
            try:
                vx, vy = o.fields.get_vig_factor(Hx, Hy)
            except Exception:   # noqa
                continue
            before = {'Px': Px.copy(), 'Py': Py.copy()}
            op = {'op': 'trace_generic', 'Hx': Hx, 'Hy': Hy, 'Px': {'array': Px.tolist()},
                  'Py': {'array': Py.tolist()}, 'w': spec['wavelengths'][0][0]}
            try:
                with np.errstate(all='ignore'):
                    o.trace_generic(Hx, Hy, Px, Py, op['w'])
            except Exception:   # noqa
                continue
            for nm, arr, v in (('Px', Px, float(vx)), ('Py', Py, float(vy))):
                flag = 'true' if nm in flags else 'false'
                lines.append(f'close_list 0 (snd (tg_scale (O:=FOps) {flag} {vlib.flist(before[nm])} {fh(v)})) '
                             f'{vlib.flist(arr)}')
                changed = arr.tobytes() != before[nm].tobytes()
                meta.append((spec, op, nm, v, changed, [float(x) for x in before[nm]], [float(x) for x in arr]))
                if v != 0.0:
                    res['nontrivial'] += 1
    # regression of the repaired defect D12 (fix 4ab4abd): the original input, and the static flags
    try:
        if _d12_reproduces():
            res['disagreements'].append({'kind': 'caller-array-modified', 'call_site': 'Optic.trace_generic',
                                         'args': ['Px', 'Py'], 'spec': D12_SPEC, 'history': [],
                                         'op': {'op': 'trace_generic', 'Hx': 0.0, 'Hy': 1.0,
                                                'Px': {'array': [0.1, 0.5, 1.0]}, 'Py': {'array': [0.0, 0.2, -1.0]},
                                                'w': 0.55},
                                         'note': 'regression of fix 4ab4abd (D12)', 'violates_property': True})
    except Exception as e:   # noqa
        res['error'] = 'D12 regression case raised: ' + repr(e)
        return res
    if not lines:
        res['error'] = 'no cases'
        return res
    body = 'Eval vm_compute in (report [\n' + ';\n'.join(lines) + '\n]).\n'
    out = vlib.run_cases('C13caller', 'From OV Require Import Model.M_C13.', [body])
    if out[0][0] == 'error':
        res['error'] = out[0][1]
        return res
    res['n'] = out[0][0]
    for j in out[0][2]:
        spec, op, nm, v, changed, b, a = meta[j]
        res['disagreements'].append({'kind': 'caller-array-model', 'spec': spec, 'op': op, 'arg': nm, 'vignetting': v,
                                     'before': b, 'after': a, 'violates_property': False})
    seen = set()
    for spec, op, nm, v, changed, b, a in meta:
        if changed and (nm,) not in seen:
            seen.add((nm,))
            res['disagreements'].append({'kind': 'caller-array-modified', 'call_site': 'Optic.trace_generic',
                                         'args': [nm], 'spec': spec, 'op': op, 'history': [], 'vignetting': v,
                                         'before': b[:6], 'after': a[:6], 'violates_property': True})
    if meta:
        spec, op, nm, v, changed, b, a = [m for m in meta if m[3] != 0.0][0] if any(m[3] != 0.0 for m in meta) else meta[0]
        res['samples'].append({'arg': nm, 'vignetting_factor': v, 'before': b[:4], 'after_call': a[:4],
                               'in_place_flag_from_source': nm in flags})
    return res


def _geom_cases(ctx, rng, nb):
    """direct NewtonRaphsonGeometry.distance calls on batches"""
    import numpy as np
    from optiland.coordinate_system import CoordinateSystem
    from optiland.geometries import EvenAsphere, PolynomialGeometry
    from optiland.rays import RealRays
    cases = []
    for i in range(nb):
        R = rng.uniform(25, 120) * rng.choice([-1, 1])
        k = rng.choice([0.0, rng.uniform(-1.5, 0.5)])
        if i % 2 == 0:
            c = [rng.uniform(-1, 1) * 10 ** (-4 - 2 * j) for j in range(rng.choice([1, 2, 3]))]
            g = EvenAsphere(CoordinateSystem(), R, k, 1e-10, 100, c)
            kind = 'ea'
        else:
            nr, nc = rng.choice([(2, 2), (3, 2), (3, 3)])
            c = [[rng.uniform(-1, 1) * 10 ** (-3 - (a + b)) if a + b else 0.0 for b in range(nc)] for a in range(nr)]
            g = PolynomialGeometry(CoordinateSystem(), R, k, 1e-10, 100, c)
            kind = 'pg'
        n = rng.choice([1, 2, 3, 6])
        rays = []
        for j in range(n):
            if j == 0 and i % 3 == 0:
                x, y, z, L, M = 0.0, 0.0, -5.0, 0.0, 0.0             # lands on the vertex at once
            else:
                x, y, z = rng.uniform(-12, 12), rng.uniform(-12, 12), rng.uniform(-30, -1)
                L, M = rng.uniform(-0.45, 0.45), rng.uniform(-0.45, 0.45)
            N = math.sqrt(1 - L * L - M * M)
            rays.append([L, M, N, x, y, z])
        a = np.array(rays)
        rr = RealRays(a[:, 3], a[:, 4], a[:, 5], a[:, 0], a[:, 1], a[:, 2], np.ones(n), np.full(n, 0.55))
        try:
            with np.errstate(all='ignore'):
                t = [float(v) for v in g.distance(rr)]
        except Exception as e:   # noqa
            continue
        # the same rays one at a time (the property stated on the geometry itself)
        alone = []
        for j in range(n):
            r1 = RealRays(a[j:j + 1, 3], a[j:j + 1, 4], a[j:j + 1, 5], a[j:j + 1, 0], a[j:j + 1, 1], a[j:j + 1, 2],
                          np.ones(1), np.full(1, 0.55))
            try:
                with np.errstate(all='ignore'):
                    alone.append(float(g.distance(r1)[0]))
            except Exception:   # noqa
                alone.append(float('nan'))
        cases.append({'kind': kind, 'R': R, 'k': k, 'c': c, 'rays': rays, 't': t, 't_alone': alone,
                      'tol': float(g.tol), 'max_iter': int(g.max_iter)})
    return cases


def check_newton_batch(ctx):
    """newton_batch / nb_distance (Coq, PrimFloat, on the regenerated kernels k_nr_sphere k_ea_sag k_pg_sag) against
    NewtonRaphsonGeometry.distance on whole batches: one stopping test for all rays"""
    import vlib
    rng = random.Random(ctx.seed * 13 + 3)
    res = {'name': 'newton-batch-model-vs-implementation', 'n': 0, 'nontrivial': 0, 'samples': [],
           'disagreements': [], 'histogram': {'batch_sizes': {}}}
    cases = _geom_cases(ctx, rng, ctx.n(60, 600))
    fh, fl = vlib.fhex, vlib.flist
    lines = []
    for c in cases:
        if c['kind'] == 'ea':
            sag = f'(fun x y => k_ea_sag FOps x y {fh(c["R"])} {fh(c["k"])} {fl(c["c"])})'
        else:
            c2 = '[' + '; '.join(fl(r) for r in c['c']) + ']'
            sag = f'(fun x y => k_pg_sag FOps x y {fh(c["R"])} {fh(c["k"])} {c2})'
        start = (f'(fun r : nray (O:=FOps) => let \'((L, M, N), (x, y, z)) := r in '
                 f'k_nr_sphere FOps L M N x y {fh(c["R"])} z)')
        rays = '[' + '; '.join(f'(({fh(r[0])}, {fh(r[1])}, {fh(r[2])}), ({fh(r[3])}, {fh(r[4])}, {fh(r[5])}))'
                               for r in c['rays']) + ']'
        lines.append(f'close_list {fh(1e-11)} (nb_distance (O:=FOps) {sag} {fh(c["tol"])} {start} {c["max_iter"]}%nat '
                     f'{rays}) {fl(c["t"])}')
        res['histogram']['batch_sizes'][len(c['rays'])] = res['histogram']['batch_sizes'].get(len(c['rays']), 0) + 1
        if len(c['rays']) > 1 and all(math.isfinite(v) for v in c['t']):
            res['nontrivial'] += 1
    bodies = []
    chunk = 60
    for s in range(0, len(lines), chunk):
        bodies.append('Eval vm_compute in (report [\n' + ';\n'.join(lines[s:s + chunk]) + '\n]).\n')
    out = vlib.run_cases('C13newton', 'From OV Require Import Gen.RealRays Gen.Geometries Model.M_C13.', bodies)
    for bi, r in enumerate(out):
        if r[0] == 'error':
            res['error'] = r[1]
            return res
        res['n'] += r[0]
        for j in r[2]:
            c = cases[bi * chunk + j]
            res['disagreements'].append({'kind': 'newton-batch-model', 'case': c, 'violates_property': False})
    # the property itself on the geometry: a ray's distance in the batch vs alone, within the tolerance slack
    c13 = _lib()
    worst = 0.0
    for c in cases:
        bad = None
        for j, (tb, ta) in enumerate(zip(c['t'], c['t_alone'])):
            if math.isnan(tb) != math.isnan(ta):
                bad = (j, 'NaN pattern differs')
            elif not math.isnan(tb) and tb != ta:
                dev = abs(tb - ta)
                if math.isfinite(dev):
                    worst = max(worst, dev)
                if not dev <= c13.slack(c['tol']):
                    bad = (j, 'beyond tolerance')
            if bad:
                break
        if bad:
            res['disagreements'].append({'kind': 'ray-depends-on-companions', 'level': 'NewtonRaphsonGeometry.distance',
                                         'case': c, 'ray': bad[0], 'why': bad[1], 'violates_property': True})
            break
    res['histogram']['worst_batch_vs_alone'] = worst
    if cases:
        c = [c for c in cases if len(c['rays']) > 1][0]
        res['samples'].append({'geometry': c['kind'], 'R': c['R'], 'rays': len(c['rays']), 't': c['t'][:4],
                               't_alone': c['t_alone'][:4]})
    return res


def check_interleavings(ctx, seed_mul=13, offset=4, nl=None, heavy=True):
    """TRANSLATION VALIDATION (differential test): every call on a fresh lens vs inside a random interleaving on
    one lens object; results bit for bit, caller arrays, lens snapshot, to_dict()"""
    c13 = _lib()
    rng = random.Random(ctx.seed * seed_mul + offset)
    nl = nl or ctx.n(6, 50)
    res = {'name': 'interleaving-differential-test (translation validation)', 'n': 0, 'nontrivial': 0,
           'samples': [], 'disagreements': [],
           'histogram': {'lenses': 0, 'variants': {}, 'raised': 0, 'calls_per_lens': 0}}
    specs = c13.pending_specs() + _specs(ctx, rng, nl, ['plain', 'vignetting', 'coated', 'polarized', 'newton', 'any'])
    res['histogram']['input_classes'] = ['lenses carrying pickups / solves with an edit pending (setter called, '
                                         'update() not yet) around every read-only call',
                                         'construction routes direct / handbuilt / reuse / roundtrip']
    res['histogram']['routes'] = {}
    res['histogram']['pending_edit_lenses'] = 0
    seen_kinds = set()
    for spec in specs:
        c = spec.get('c13') or {}
        res['histogram']['routes'][c.get('route', 'direct')] = res['histogram']['routes'].get(c.get('route', 'direct'), 0) + 1
        res['histogram']['pending_edit_lenses'] += int(bool(c.get('pending_edits')))
        viol, stats = c13.interleaving(rng, spec, c13.build, heavy=heavy)
        res['n'] += stats['compared']
        res['nontrivial'] += stats['executed'] - stats['raised']
        res['histogram']['lenses'] += 1
        res['histogram']['raised'] += stats['raised']
        res['histogram']['calls_per_lens'] = stats['ops']
        v = spec['variant']
        res['histogram']['variants'][v] = res['histogram']['variants'].get(v, 0) + 1
        for x in viol:
            key = (x['kind'], x['op']['op'], x['op'].get('cls', x['op'].get('q')), tuple(x.get('args', [])))
            if key in seen_kinds:
                continue
            seen_kinds.add(key)
            res['disagreements'].append(_viol_to_witness(x, spec))
    if specs:
        res['samples'].append({'lens_variant': specs[0]['variant'], 'surfaces': len(specs[0]['surfaces']),
                               'calls_in_catalogue': res['histogram']['calls_per_lens'],
                               'executed_twice_in_random_order_on_one_object': True})
    return res


def check_batch_independence(ctx, offset=5, nl=None):
    """one ray alone / in random subsets / in reversed order vs in the full batch, through trace_generic AND trace,
    with polarization off and on (H, V, unpolarized ...; uncoated, SimpleCoating, FresnelCoating), batches that mix
    special rays (axial / chief / marginal / outside the pupil) with skew rays; compared: surface records, the
    returned bundle incl. intensity, the polarization matrix rays.p.  Plus the same clause on the per-ray
    polarization code itself (PolarizedRays.update / get_output_field / update_intensity)."""
    c13 = _lib()
    rng = random.Random(ctx.seed * 13 + offset)
    nl = nl or ctx.n(18, 200)
    res = {'name': 'ray-independent-of-companions', 'n': 0, 'nontrivial': 0, 'samples': [], 'disagreements': [],
           'histogram': {'input_classes': ['mixed special+skew batches through trace_generic and trace',
                                           'polarization on: batch-vs-alone of intensity and rays.p',
                                           'every geometry class x exceptional ray classes (miss, behind, behind with '
                                           'base sphere in front, backward, grazing, vertex, dead NaN) mixed with '
                                           'ordinary rays',
                                           'lenses whose figured surface crosses the stop plane / crossing faces / TIR'],
                         'closed_form_lenses': 0, 'newton_lenses': 0, 'worst_deviation_newton': 0.0, 'raised': 0,
                         'polarized_lenses': {}, 'modes': {'trace_generic': 0, 'trace': 0},
                         'unit_sites': c13.UNIT_SITES, 'unit_comparisons': 0}}
    h = res['histogram']
    # the clause on the per-ray polarization code itself
    uv, ucmp = c13.polarized_unit_independence(rng, ctx.n(40, 400))
    h['unit_comparisons'] = ucmp
    res['n'] += ucmp
    res['nontrivial'] += ucmp
    for x in uv[:1]:
        res['disagreements'].append(dict({'kind': 'ray-depends-on-companions', 'level': x['site']}, **x,
                                         violates_property=True))
    # the clause on every geometry class, batches mixing ordinary rays with every class of exceptional ray
    gv, gst, gcmp = c13.geometry_independence(rng, ctx.n(250, 2500))
    h['geometry_sites'] = [k + '.distance' for k in c13.GEOMETRY_KINDS]
    h['exceptional_ray_classes_per_geometry [compared, reported as miss when alone]'] = \
        {k: {c: v for c, v in d.items() if v[0]} for k, d in gst.items()}
    res['n'] += gcmp
    res['nontrivial'] += gcmp
    for x in gv[:1]:
        res['disagreements'].append(dict({'kind': 'ray-depends-on-companions', 'level': x['site']}, **x,
                                         violates_property=True))
    exc = c13.exceptional_specs() + c13.dispersive_specs()
    h['exceptional_lenses'] = {}
    h['mixed_wavelength_batches'] = {'dispersive_lenses': 0, 'comparisons': 0}
    h['input_classes'].append('one trace_generic call whose rays carry DIFFERENT wavelengths, through catalogue glass')
    specs = exc + _specs(ctx, rng, nl, ['polarized', 'plain', 'polarized', 'newton', 'coated', 'polarized', 'any',
                                        'newton'])
    for spec in specs:
        o = c13.build(spec)
        w = spec['wavelengths'][0][0]
        pol = spec.get('c13') or {}
        if pol.get('polarization'):
            key = f"{pol['polarization']}/{pol.get('coatings')}"
            h['polarized_lenses'][key] = h['polarized_lenses'].get(key, 0) + 1
        if c13.has_newton(o):
            h['newton_lenses'] += 1
        else:
            h['closed_form_lenses'] += 1
        if c13.is_dispersive(spec):
            # per-ray wavelengths in ONE call: the first ray's wavelength differs from the others'
            Hx, Hy, Px, Py = c13.gen_rays(rng, spec, ctx.n(8, 12))
            ws = [0.4861, 0.5876, 0.6563, 0.45, 0.7]
            wl = [ws[(j * 2 + 1) % len(ws)] if j else 0.6563 for j in range(len(Px))]
            try:
                viol, worst, n = c13.batch_independence(o, Hx, Hy, Px, Py, wl, rng, subsets=2, mode='trace_generic')
                h['mixed_wavelength_batches']['dispersive_lenses'] += 1
                h['mixed_wavelength_batches']['comparisons'] += n
                res['n'] += n
                res['nontrivial'] += n
                for x in viol[:1]:
                    res['disagreements'].append({'kind': 'ray-depends-on-companions', 'call': 'Optic.trace_generic',
                                                 'input_class': 'mixed wavelengths in one call', 'part': x.get('part'),
                                                 'ray': x['ray'], 'group': x['group'], 'why': x['why'],
                                                 'deviation': x.get('deviation'), 'wavelengths': wl,
                                                 'rays': [Hx, Hy, Px, Py], 'spec': spec, 'violates_property': True})
            except Exception:   # noqa
                h['raised'] += 1
        for mode in ('trace_generic', 'trace'):
            if spec.get('name') and spec['variant'].startswith('exceptional'):
                Hx, Hy, Px, Py = c13.fan_rays(rng, spec, 9)        # whole pupil: central zone AND the lost rim
            else:
                Hx, Hy, Px, Py = c13.gen_rays(rng, spec, ctx.n(8, 12), same_field=(mode == 'trace'))
            try:
                viol, worst, n = c13.batch_independence(o, Hx, Hy, Px, Py, w, rng, subsets=2, mode=mode)
            except Exception:   # noqa
                h['raised'] += 1
                continue
            h['modes'][mode] += 1
            if spec.get('name') and spec['variant'].startswith('exceptional'):
                h['exceptional_lenses'][spec['name']] = h['exceptional_lenses'].get(spec['name'], 0) + n
            res['n'] += n
            res['nontrivial'] += n
            if c13.has_newton(o):
                h['worst_deviation_newton'] = max(h['worst_deviation_newton'], worst)
            for x in viol[:1]:
                res['disagreements'].append({'kind': 'ray-depends-on-companions', 'call': 'Optic.' + mode,
                                             'part': x.get('part'), 'ray': x['ray'], 'group': x['group'],
                                             'why': x['why'], 'deviation': x.get('deviation'), 'tol': x.get('tol'),
                                             'polarization': pol or None, 'rays': [Hx, Hy, Px, Py], 'w': w,
                                             'spec': spec, 'violates_property': True})
    res['samples'].append({'comparison': 'records / returned bundle / rays.p of ray j in the full batch vs alone / '
                                         'subset / reversed', 'closed-form lenses': 'bit identical',
                           'Newton lenses': 'within 1e3 * tol',
                           'worst_newton_deviation': h['worst_deviation_newton'],
                           'polarized_lenses': h['polarized_lenses']})
    return res


def check_method_histories(ctx, offset=6, nl=None):
    """TRANSLATION VALIDATION, method level: for EVERY analysis object of the catalogue, every public query method
    (found by introspection: centroid, rms_spot_radius, geometric_spot_radius, rms, strehl_ratio, view in every
    projection, view_residual ...) called repeatedly and interleaved on ONE object; each result compared bit for
    bit with the same query on a pristine copy, the object's stored state (.data, .psf, .mtf ...) compared deep and
    bitwise before/after every query, the lens likewise"""
    c13 = _lib()
    rng = random.Random(ctx.seed * 13 + offset)
    nl = nl or ctx.n(2, 30)
    res = {'name': 'method-histories-on-one-analysis-object (translation validation)', 'n': 0, 'nontrivial': 0,
           'samples': [], 'disagreements': [],
           'histogram': {'input_class': 'method-level histories on one analysis object', 'lenses': 0, 'objects': 0,
                         'classes': {}, 'methods_per_class': {}, 'queries': 0, 'raised': 0}}
    specs = [dict(CLIP_SPEC, variant='regression: clipping aperture (view() masks, fixes eb1bc3c f4c405d)'),
             dict(FNO_SPEC, variant='ndarray imageFNO aperture, finite object')] + \
        _specs(ctx, rng, nl, ['coated', 'any', 'vignetting', 'plain', 'polarized', 'newton'])
    seen = set()
    for spec in specs:
        viol, st = c13.method_histories(rng, spec, c13.build)
        h = res['histogram']
        h['lenses'] += 1
        h['objects'] += st['objects']
        h['queries'] += st['queries']
        h['raised'] += st['raised']
        for k, v in st['classes'].items():
            h['classes'][k] = h['classes'].get(k, 0) + v
        for k, v in st['methods'].items():
            h['methods_per_class'][k] = sorted(set(h['methods_per_class'].get(k, [])) | set(v))
        res['n'] += st['queries']
        res['nontrivial'] += st['queries'] - st['raised']
        for x in viol:
            key = (x['kind'], x['cls'], x['method'], json.dumps(x.get('change', {}).get('only_nan_written')))
            if key in seen:
                continue
            seen.add(key)
            x = dict(x)
            x['violates_property'] = True
            res['disagreements'].append(x)
    res['samples'].append({'one_object': 'SpotDiagram', 'history_style': 'every public query twice, shuffled',
                           'methods_found_by_introspection': res['histogram']['methods_per_class'].get('SpotDiagram')})
    return res


def check_request_decomposition(ctx, offset=7, nl=None, corpus=True):
    """one analysis call that covers several (field, wavelength) pairs: the stored entry of every pair is
    bit-identical to the entry of the request for that pair ALONE on a fresh lens, whatever the other pairs of the
    request are and in whatever order they are listed (the result for one pair does not depend on what was traced
    before it in the same call).  Lenses: catalogue glass (lateral colour), off-axis and skew fields, wavelengths
    given as explicit lists in three orders, fields in two orders."""
    c13 = _lib()
    rng = random.Random(ctx.seed * 13 + offset)
    nl = ctx.n(3, 30) if nl is None else nl
    res = {'name': 'multi-item-request-equals-single-item-requests', 'n': 0, 'nontrivial': 0, 'samples': [],
           'disagreements': [],
           'histogram': {'input_class': 'one analysis call over several (field, wavelength) pairs on a chromatic lens '
                                        'vs the same pair requested alone; wavelength / field lists in several orders',
                         'lenses': {}, 'classes': {}, 'pairs_compared': 0, 'requests': 0, 'raised': 0,
                         'off_axis_pairs_not_first_in_request': 0}}
    h = res['histogram']
    specs = (c13.chromatic_specs() + c13.dispersive_specs()) if corpus else []
    tries = 0
    while nl and tries < 40 * nl and len(specs) < nl + (5 if corpus else 0):
        tries += 1
        spec = c13.gen_spec(rng, variant=rng.choice(['plain', 'vignetting', 'coated', 'newton', 'any']))
        if not c13.is_dispersive(spec) or len(spec['surfaces']) > 7 or \
                not any(f[0] for f in spec['fields']) or any(s.get('material') == 'mirror' for s in spec['surfaces']):
            continue
        try:
            c13.build(spec)
        except Exception:   # noqa
            continue
        specs.append(spec)
    seen = set()
    for spec in specs:
        classes = None if spec['variant'].startswith(('chromatic', 'dispersive')) else \
            ['Wavefront', 'OPDFan', 'RmsWavefrontErrorVsField', 'SpotDiagram', 'RayFan', 'PupilAberration',
             'Distortion', 'FieldCurvature']
        viol, st = c13.request_decomposition(rng, spec, c13.build, classes=classes)
        v = spec['variant'].split(':')[0]
        h['lenses'][v] = h['lenses'].get(v, 0) + 1
        for k in ('pairs_compared', 'requests', 'raised', 'off_axis_pairs_not_first_in_request'):
            h[k] += st[k]
        for k, n in st['classes'].items():
            h['classes'][k] = h['classes'].get(k, 0) + n
        res['n'] += st['pairs_compared']
        res['nontrivial'] += st['off_axis_pairs_not_first_in_request']
        for x in viol:
            if x['cls'] in seen:
                continue
            seen.add(x['cls'])
            res['disagreements'].append(dict(x, history=[], violates_property=True))
    res['samples'].append({'lens': 'chromatic-singlet (N-SF5, 7 deg)', 'request': 'Wavefront(fields=[3 fields], '
                           'wavelengths=[0.4861, 0.5876, 0.6563])', 'compared': 'data[i][j] with '
                           'Wavefront(fields=[field i], wavelengths=[wavelength j]).data[0][0] on a fresh lens',
                           'expected': 'bit identical'})
    return res


def system_checks(ctx):
    yield check_request_decomposition(ctx)
    yield check_method_histories(ctx)
    yield check_state_machine(ctx)
    yield check_caller_arrays(ctx)
    yield check_newton_batch(ctx)
    yield check_interleavings(ctx)
    yield check_batch_independence(ctx)


# --------------------------------------------------------------------------------------------------
# 4. search: the property stated directly on the implementation
# --------------------------------------------------------------------------------------------------
def search(ctx, broken, disagreements):
    """repeatability / caller arrays / lens state / companion independence oracle, wider seeded sweep"""
    out = []
    r = check_interleavings(ctx, seed_mul=17, offset=9, nl=ctx.n(14, 80))
    out += [d for d in r['disagreements'] if d.get('violates_property')]
    r = check_batch_independence(ctx, offset=11, nl=ctx.n(40, 300))
    out += [d for d in r['disagreements'] if d.get('violates_property')]
    r = check_method_histories(ctx, offset=12, nl=ctx.n(5, 40))
    out += [d for d in r['disagreements'] if d.get('violates_property')]
    r = check_request_decomposition(ctx, offset=14, nl=ctx.n(3, 40), corpus=False)
    out += [d for d in r['disagreements'] if d.get('violates_property')]
    return out or None


# --------------------------------------------------------------------------------------------------
# 5. known findings
# --------------------------------------------------------------------------------------------------
D12 = 'trace-generic-mutates-caller-arrays'
D12_SPEC = {
    'object_thickness': float('inf'),
    'surfaces': [{'type': 'standard', 'radius': 50.0, 'thickness': 5.0, 'is_stop': True,
                  'material': ['ideal', 1.5168, 0.0]},
                 {'type': 'standard', 'radius': -50.0, 'thickness': 45.0, 'material': 'air'}],
    'aperture': ['EPD', 10.0], 'field_type': 'angle',
    'fields': [[0.0, 0.0, 0.0, 0.0], [5.0, 0.0, 0.2, 0.1]],
    'wavelengths': [[0.55, True]], 'telecentric': False}


VIEW_MASKS = {'rayfan-view-masks-stored-data': 'RayFan', 'opdfan-view-masks-stored-data': 'OPDFan'}
CLIP_SPEC = {
    'object_thickness': float('inf'),
    'surfaces': [{'type': 'standard', 'radius': 50.0, 'thickness': 5.0, 'is_stop': True,
                  'material': ['ideal', 1.5168, 0.0], 'aperture': [3.0, 0.0]},
                 {'type': 'standard', 'radius': -50.0, 'thickness': 45.0, 'material': 'air'}],
    'aperture': ['EPD', 10.0], 'field_type': 'angle',
    'fields': [[0.0, 0.0, 0.0, 0.0], [5.0, 0.0, 0.0, 0.0]],
    'wavelengths': [[0.55, True]], 'telecentric': False}
VIEW_CTOR = {'RayFan': {'op': 'analysis', 'cls': 'RayFan', 'num_points': 8},
             'OPDFan': {'op': 'wavefront', 'cls': 'OPDFan', 'num_rays': 7}}


def _matches_view_mask(w, f):
    """<cls>.view() overwrites the stored values of FAILED rays (intensity 0) with NaN in self.data: exactly that
    class, that method, that kind of change (finite -> NaN only).  A view() that changes the data in any other way,
    another method, another class, or a changed RESULT does not match."""
    cls = VIEW_MASKS.get(f['id'])
    if cls is None or w.get('kind') != 'analysis-object-state-changed':
        return False
    if w.get('cls') != cls or w.get('method') != 'view':
        return False
    ch = w.get('change') or {}
    return bool(ch.get('only_nan_written')) and all('.data' in a for a in ch.get('arrays', ['x']))


FNO_ID = 'working-fno-scales-aperture-in-place'
FNO_SPEC = {
    'object_thickness': 200.0,
    'surfaces': [{'type': 'standard', 'radius': 50.0, 'thickness': 5.0, 'is_stop': True,
                  'material': ['ideal', 1.5168, 0.0]},
                 {'type': 'standard', 'radius': -50.0, 'thickness': 60.0, 'material': 'air'}],
    'aperture': ['imageFNO', 8.0], 'field_type': 'object_height',
    'fields': [[0.0, 0.0, 0.0, 0.0], [5.0, 0.0, 0.0, 0.0]],
    'wavelengths': [[0.55, True]], 'telecentric': False, 'c13': {'aperture_array': True}}
FNO_CLASSES = {'GeometricMTF', 'FFTMTF', 'FFTPSF'}


def _matches_fno(w, f):
    """GeometricMTF.__init__ / FFTMTF._get_fno / FFTPSF._get_psf_units do `FNO *= (1 + |m|/p)` on what
    Paraxial.FNO() returned: for an imageFNO aperture whose value is an ndarray and a finite object that IS the
    lens' aperture value.  Only: those classes, the aperture value (and nothing else of the lens) changed, such a
    lens."""
    if w.get('kind') not in ('lens-state-changed', 'to_dict-changed'):
        return False
    spec = w.get('spec') or {}
    if not (spec.get('c13') or {}).get('aperture_array') or spec.get('aperture', [None])[0] != 'imageFNO' \
            or spec.get('object_thickness') == float('inf'):
        return False
    op = w.get('op') or {}
    cls = w.get('cls') or op.get('cls') or ('FFTPSF' if op.get('op') == 'psf' else None)
    if cls not in FNO_CLASSES:
        return False
    return 'aperture.value' in (w.get('diff') or '').split(':')[0]


def matches_finding(w, f):
    if f['id'] in VIEW_MASKS:
        return _matches_view_mask(w, f)
    if f['id'] == FNO_ID:
        return _matches_fno(w, f)
    return _matches_d12(w, f)


def _matches_d12(w, f):
    """the listed finding is: Optic.trace_generic scales the caller's Px / Py ndarray in place.  Nothing else
    (another call, another argument, a changed result, a changed lens) matches."""
    if f['id'] != D12:
        return False
    if w.get('kind') != 'caller-array-modified':
        return False
    op = w.get('op') or {}
    if op.get('op') != 'trace_generic':
        return False
    args = set(w.get('args') or [])
    return bool(args) and args <= {'Px', 'Py'}


def replay_finding(ctx, f):
    if f['id'] in VIEW_MASKS:
        c13 = _lib()
        cls = VIEW_MASKS[f['id']]
        r = c13.replay_method_history(CLIP_SPEC, c13.build, VIEW_CTOR[cls], [], 'view', {})
        return 'analysis-object-state-changed' in r and any(isinstance(x, dict) and x.get('only_nan_written') for x in r)
    if f['id'] == FNO_ID:
        return _fno_reproduces()
    if f['id'] != D12:
        return None
    return _d12_reproduces()


def _fno_reproduces():
    c13 = _lib()
    o = c13.build(FNO_SPEC)
    before = float(o.aperture.value)
    c13.run_op(o, {'op': 'mtf', 'cls': 'GeometricMTF', 'num_rays': 9, 'num_points': 8})
    return float(o.aperture.value) != before


def _d12_reproduces():
    import numpy as np
    c13 = _lib()
    o = c13.build(D12_SPEC)
    Px = np.array([0.1, 0.5, 1.0])
    Py = np.array([0.0, 0.2, -1.0])
    keep = (Px.copy(), Py.copy())
    o.trace_generic(0.0, 1.0, Px, Py, 0.55)
    return bool(Px.tobytes() != keep[0].tobytes() or Py.tobytes() != keep[1].tobytes())


def broken_explained(b, known, witnesses):
    return False

"""C03 - rays start at the requested field point and aim at the requested pupil point."""
import math
from props.common import BASE_TRUSTED

PROP = 'C03'
KERNELS = ['fld_max_field', 'fld_max_y_field', 'fld_max_x_field', 'rg_z_offset', 'rg_origins', 'rg_generate', 'dist_line_x', 'dist_line_y', 'dist_random', 'dist_uniform',
           'dist_hexapolar', 'dist_cross', 'dist_gq_radius', 'dist_gq', 'dist_ring', 'std_sag']
THEOREMS = None     # filled below from coq/Props/C03.v once written
COQ_TARGETS = ['Model/M_C03.vo', 'Lemmas/L_C03_examples.vo']
TRUSTED_BASE = BASE_TRUSTED + [
    'translator extension tools/py2coq_c03.py (1-D NumPy arrays as lists, np.linspace/meshgrid/mask/outer, int-keyed dict '
    'literals, an if/elif chain without else whose targets are read later raises) + coq/Num/OpsC03.v; validated by the kernel '
    'correspondence of every distribution and of the three RayGenerator methods',
    'hand model coq/Model/M_C03.v (FieldGroup.get_vig_factor; max_field / max_y_field are regenerated kernels; wiring of the generator to Model/Paraxial.v EPL/EPD, '
    'create_distribution, pupil scaling of Optic.trace / trace_generic): tied by correspondence only',
    'the object surface is a plane or a conic (its sag is the regenerated StandardGeometry.sag)',
    'positions[1] = 0 (first surface at the origin) is a hypothesis of the infinite-object angle theorem; every lens built '
    'through Optic.add_surface / set_thickness satisfies it (surface_factory._configure_cs, C01)',
    'implementation-level oracle tools/c03lib.py::check_launch with independent matrix-optics EPL/EPD (tools/oracles.py)',
]
RULE = ('kernel cases: seeded inputs cycling through the 24 cells (object finite/infinite x field type x telecentric x aperture '
        'type) x polarization, Hy in [-1,1], pupil points in the unit disk, vignetting in [0,0.5], EPL of both signs; every '
        'named distribution for counts 0..40 (rings 0..8). system: seeded lenses of 1-12 surfaces forced into each cell '
        '(valid or not; six rejection rules), each reached through one of four routes (fresh Optic / ready-made Surface objects / an '
        'Optic reused after reset() of a different lens / to_dict -> from_dict), with the configuration taken from the entered '
        'prescription and never read back; a fixed corpus of 30 prescription x route entries (incl. mirror-first systems with vertices left of surface 1) replayed whatever the seed; three classes of field lists (0..+max on y; largest magnitude negative; x and y '
        'extremes on different field points), off-axis Hx, fields with vx != vy, shuffled field lists with vignetting, curved object surfaces, object-space index != 1; '
        'the prescriptions of the three repaired findings replayed on every run; '
        'round 6 (own random stream + 13 fixed corpus entries, implementation-level oracle with the object distance and object-space '
        'index taken from the entered prescription): edit histories - a different lens/configuration is built and queried (EPL, EPD, '
        'f2, generate_rays, trace_generic), then brought to the prescription with set_index (incl. surface 0 = object space), '
        'set_thickness (incl. the object distance, finite <-> infinite), set_radius, set_aperture, set_field_type and the telecentric '
        'flag, in shuffled order; finite object distances log-uniform 1e0..1e14 with the exact decades 1e10, 1e12 and 3.844e11, object '
        'heights as generated or scaled with the distance, object NA scaled to a lens-sized pupil, through every route; both combined; '
        'non-trivial = a launched ray with finite record in a distinct (lens, ray)')
PARTIAL = [
    'uniform sampling: the count is proved equal to the number of grid nodes with x^2+y^2 <= 1 (no closed form is claimed)',
    'random sampling: proved inside the unit disk for draws r in [0,1]; that NumPy draws r in [0,1) is assumed',
    'the full optic-level composition (vignetting interpolation + Paraxial EPL/EPD + generator) is a hand model checked by '
    'correspondence; the theorems are about the regenerated kernels for arbitrary EPL, EPD and vignetting factors',
    'binary64 rounding is not covered (theorems over exact reals)',
]

DIST_NAMES = ['line_x', 'line_y', 'positive_line_x', 'positive_line_y', 'uniform', 'hexapolar', 'cross', 'ring']


def _theorems():
    import os, re
    p = os.path.join(os.path.dirname(os.path.dirname(os.path.dirname(os.path.abspath(__file__)))), 'coq', 'Props', 'C03.v')
    try:
        return re.findall(r'^Theorem\s+(C03_[A-Za-z0-9_]+)', open(p).read(), re.M)
    except OSError:
        return []


# ---------------------------------------------------------------------------------------------
# 3a. kernels
# ---------------------------------------------------------------------------------------------
def _by_manifest(man, d):
    return [d[inp['path']] for inp in man['inputs']]


def kernel_cases(ctx):
    import c03lib
    g = ctx.gen
    mans = ctx.manifests
    n = ctx.n(360, 4800)
    for k in ('rg_z_offset', 'rg_origins', 'rg_generate'):
        if k not in mans:
            continue
        cases = c03lib.rg_cases(g, mans[k], n if k != 'rg_z_offset' else n // 4)
        yield k, cases, {'tol': 1e-12, 'pyres': c03lib.rg_pyres(mans[k], cases)}
    # FieldGroup.max_field / max_x_field / max_y_field on real Field lists: negative entries, mixed x/y points
    if 'fld_max_field' in mans:
        from optiland.fields import Field, FieldGroup
        fl_cases, res_mf, res_my, res_mx = [], [], [], []
        for i in range(ctx.n(120, 1200)):
            m = g.r.choice([1, 1, 2, 3, 4, 6])
            mode = i % 4
            xs = [0.0] * m if mode < 2 else [g.r.choice([0.0, g.uni(-20, 20)]) for _ in range(m)]
            ys = [g.uni(0, 20) for _ in range(m)] if mode == 0 else [g.r.choice([0.0, g.uni(-20, 20), -g.uni(0, 20)]) for _ in range(m)]
            fg = FieldGroup()
            for x, y in zip(xs, ys):
                fg.add_field(Field('angle', x, y))
            fl_cases.append((xs, ys))
            for acc, nm in ((res_mf, 'max_field'), (res_my, 'max_y_field'), (res_mx, 'max_x_field')):
                try:
                    acc.append({'ok': [float(getattr(fg, nm)).hex()]})
                except Exception as e:      # noqa
                    acc.append({'err': type(e).__name__})
        def fdict(xs, ys):
            # every attribute a (possibly edited) property body may read
            return {'self.x_fields': xs, 'self.y_fields': ys, 'self.max_x_field': max(xs), 'self.max_y_field': max(ys),
                    'self.num_fields': len(xs)}
        for kname, pr, opts in (('fld_max_field', res_mf, {'tol': 1e-15}), ('fld_max_y_field', res_my, {}),
                                ('fld_max_x_field', res_mx, {})):
            if kname in mans and all(i['path'] in fdict([0.0], [0.0]) for i in mans[kname]['inputs']):
                yield kname, [_by_manifest(mans[kname], fdict(xs, ys)) for xs, ys in fl_cases], dict(opts, pyres=pr)
    counts = list(range(0, ctx.n(41, 81)))
    vv = lambda: g.r.choice([0.0, g.uni(0, 0.6)])
    for k in ('dist_line_x', 'dist_line_y'):
        if k in mans:
            cases = [_by_manifest(mans[k], {'num_points': c, 'vx': vv(), 'vy': vv(), 'self.positive_only': po})
                     for c in counts for po in (False, True)]
            yield k, cases, {'tol': 1e-13, 'scalars': ['vx', 'vy']}
    for k, key, cs in (('dist_uniform', 'num_points', counts), ('dist_cross', 'num_points', counts),
                       ('dist_ring', 'num_points', counts), ('dist_hexapolar', 'num_rings', list(range(0, ctx.n(9, 16))))):
        if k in mans:
            cases = [_by_manifest(mans[k], {key: c, 'vx': vv(), 'vy': vv()}) for c in cs for _ in range(2)]
            yield k, cases, {'tol': 1e-13, 'scalars': ['vx', 'vy']}
    if 'dist_gq_radius' in mans:
        yield 'dist_gq_radius', [[c] for c in range(-2, 10)], {'tol': 1e-15}
    if 'dist_gq' in mans:
        cases = [_by_manifest(mans['dist_gq'], {'num_rings': c, 'vx': vv(), 'vy': vv(), 'self.is_symmetric': s})
                 for c in range(-1, 9) for s in (False, True)]
        yield 'dist_gq', cases, {'tol': 1e-13, 'scalars': ['vx', 'vy']}
    if 'dist_random' in mans:
        import numpy as np
        import vlib
        man = mans['dist_random']
        cases, job = [], []
        for i in range(ctx.n(40, 300)):
            m = g.r.choice([0, 1, 2, 5, 17, 40])
            rng = np.random.default_rng(ctx.seed + i)
            r = [float(v) for v in rng.uniform(size=m)]
            th = [float(v) for v in rng.uniform(0, 2 * np.pi, size=m)]
            vx, vy = vv(), vv()
            cases.append(_by_manifest(man, {'vx': vx, 'vy': vy, 'self.rng.uniform()#0': r, 'self.rng.uniform()#1': th}))
            job.append([float(vx).hex(), float(vy).hex(), [v.hex() for v in r], [v.hex() for v in th]])
        pyres = vlib.run_python(c03lib.RANDOM_RUNNER, {'cases': job})
        yield 'dist_random', cases, {'tol': 1e-13, 'pyres': pyres}
    if 'std_sag' in mans:
        sag = []
        for i in range(ctx.n(60, 600)):
            R = g.r.choice([float('inf'), g.uni(50, 500) * g.r.choice([-1, 1])])
            sag.append([g.uni(-10, 10), g.uni(-10, 10), R, g.r.choice([0.0, g.uni(-1.5, 0.5)])])
        yield 'std_sag', sag, {'scalars': ['self.k', 'self.radius']}


# ---------------------------------------------------------------------------------------------
# 3b. system level
# ---------------------------------------------------------------------------------------------
ALL_CELLS = [(inf, ft, tele, ap) for inf in (False, True) for ft in ('angle', 'object_height')
             for tele in (False, True) for ap in ('EPD', 'imageFNO', 'objectNA')]


def _rays(rng, k):
    out = []
    for i in range(k):
        Hy = rng.choice([0.0, 1.0, -1.0, rng.uniform(-1, 1)])
        Hx = rng.choice([0.0, 0.0, 0.0, rng.uniform(-0.7, 0.7)])
        rr, th = rng.choice([0.0, 1.0, 0.5, rng.uniform(0, 1)]), rng.uniform(0, 6.283)
        if i == 0:
            rr = 0.0
        if i == 1:
            rr, th = 1.0, math.pi / 2
        out.append((Hx, Hy, rr * math.cos(th), rr * math.sin(th)))
    return out


def _lenses(ctx, per_cell, rays_per, salt=0):
    """[(spec, optic, [(ray, via, impl result)])] over every configuration cell"""
    import random, warnings
    import c03lib
    warnings.simplefilter('ignore')
    rng = random.Random(ctx.seed * 31 + 3 + salt)
    out = []
    hist = {'lenses': 0, 'build_errors': {}, 'cells': {}, 'launched': 0, 'raised': {}, 'vignetted_fields': 0,
            'curved_object': 0, 'object_index': 0, 'polarized': 0,
            'field_class': {'positive': 0, 'negative-largest': 0, 'mixed-xy': 0}, 'fields_with_vx_ne_vy': 0, 'off_axis_Hx_rays': 0,
            'route': {r: 0 for r in c03lib.ROUTES}, 'prescription_problems': 0}
    for cell in ALL_CELLS:
        for j in range(per_cell):
            spec = c03lib.cell_spec(rng, cell)
            if (len(out) + j) % 5 == 4:
                spec['polarization'] = True
            route = c03lib.ROUTES[(len(out) + j) % len(c03lib.ROUTES)]
            spec['route'] = route
            try:
                o = c03lib.build(spec, route, rng)
                o.paraxial.EPL()
            except Exception as e:     # noqa
                hist['build_errors'][type(e).__name__] = hist['build_errors'].get(type(e).__name__, 0) + 1
                continue
            hist['lenses'] += 1
            hist['route'][route] += 1
            hist['cells']['/'.join(str(c) for c in cell)] = hist['cells'].get('/'.join(str(c) for c in cell), 0) + 1
            hist['vignetted_fields'] += int(any(f[2] or f[3] for f in spec['fields']))
            hist['field_class'][spec['field_class']] += 1
            hist['fields_with_vx_ne_vy'] += int(any(f[2] != f[3] for f in spec['fields']))
            hist['curved_object'] += int(bool(spec.get('object_radius')) and not cell[0])
            hist['object_index'] += int(bool(spec.get('object_index')))
            hist['polarized'] += int(bool(spec.get('polarization')))
            w = spec['wavelengths'][0][0]
            rs = []
            for ri, (Hx, Hy, Px, Py) in enumerate(_rays(rng, rays_per)):
                via = 'generate' if ri % 3 else 'generic'
                hist['off_axis_Hx_rays'] += int(Hx != 0)
                r = c03lib.impl_launch(o, Hx, Hy, Px, Py, w, via)
                if r[0] == 'ok':
                    hist['launched'] += 1
                else:
                    hist['raised'][r[1]] = hist['raised'].get(r[1], 0) + 1
                rs.append(((Hx, Hy, Px, Py, w), via, r))
            out.append((spec, o, rs))
    return out, hist


def _cmp_launch(call, res, tol):
    import vlib
    fh = vlib.fhex
    if res[0] != 'ok':
        return f'match {call} with None => true | Some _ => false end'
    v = res[1]
    names = ['x', 'y', 'z', 'L', 'M', 'N', 'i', 'w']
    body = ' && '.join(f'close {fh(tol)} {n}_ {fh(val)}' for n, val in zip(names, v[:8]))
    return (f'match {call} with None => false | Some ({", ".join(n + "_" for n in names)}) => {body} end')


def _generic_pupil(spec, ray):
    """what trace_generic hands to generate_rays: pupil coordinates scaled by (1 - v) of the ENTERED field list"""
    import c03lib
    Hx, Hy, Px, Py, w = ray
    v = c03lib.entered_vig(spec, Hx, Hy)
    if v is None:
        return ray
    return (Hx, Hy, Px * (1 - v[0]), Py * (1 - v[1]), w)


def system_checks(ctx):
    import vlib, c03lib
    fh = vlib.fhex
    lenses, hist = _lenses(ctx, ctx.n(3, 30), ctx.n(6, 10))
    # (a) launch model vs implementation, (b) oracle on the implementation
    res = {'name': 'launch-model-vs-implementation', 'n': 0, 'nontrivial': 0, 'histogram': hist, 'samples': [],
           'disagreements': []}
    chunk = 12
    bodies, index = [], []
    for start in range(0, len(lenses), chunk):
        defs, lines, keys = [], [], []
        for li in range(start, min(start + chunk, len(lenses))):
            spec, o, rs = lenses[li]
            defs.append(c03lib.coq_optic(f'o{li}', o, spec))
            for ri, (ray, via, r) in enumerate(rs):
                fn = 'launch' if via == 'generate' else 'launch_generic'
                call = f'{fn} o{li} ' + ' '.join(fh(v) for v in ray)
                lines.append(_cmp_launch(call, r, 1e-9))
                keys.append((li, ri))
        bodies.append('\n'.join(defs) + '\nEval vm_compute in (report [\n' + ';\n'.join(lines) + '\n]).\n')
        index.append(keys)
    try:
        out = vlib.run_cases('C03launch', 'From OV Require Import OpsC03 Model.Paraxial Model.M_C03.', bodies)
    except RuntimeError as e:
        res['error'] = str(e)
        yield res
        return
    failed = set()
    for keys, r in zip(index, out):
        if r[0] == 'error':
            res['error'] = r[1]
            yield res
            return
        res['n'] += r[0]
        for i in r[2]:
            failed.add(keys[i])
        if r[1] > len(r[2]):
            res['disagreements'].append({'note': f'{r[1] - len(r[2])} further mismatches in one shard', 'violates_property': False})
    seen = set()
    for li, (spec, o, rs) in enumerate(lenses):
        pp = c03lib.entered_problems(o, spec)
        if pp:
            hist['prescription_problems'] += 1
            res['disagreements'].append({'spec': spec, 'route': spec.get('route'), 'oracle': pp, 'violates_property': True})
        for ri, (ray, via, r) in enumerate(rs):
            if r[0] == 'ok' and all(math.isfinite(v) for v in r[1][:6]) and (li, ray) not in seen:
                seen.add((li, ray))
                res['nontrivial'] += 1
            eff = ray if via == 'generate' else (_generic_pupil(spec, ray) if r[0] == 'ok' else ray)
            bad = c03lib.check_launch(o, spec, eff, r)
            if (li, ri) in failed or bad:
                res['disagreements'].append({'spec': spec, 'ray': list(ray), 'via': via, 'implementation': list(r),
                                             'model_agrees': (li, ri) not in failed, 'oracle': bad[:4],
                                             'violates_property': bool(bad)})
    for spec, o, rs in lenses[:2]:
        ray, via, r = rs[0]
        res['samples'].append({'cell': [math.isinf(spec['object_thickness']), spec['field_type'], spec['telecentric'],
                                        spec['aperture'][0]], 'ray(Hx,Hy,Px,Py,w)': list(ray), 'launch': list(r)})
    yield res

    # (c) Optic.trace with every named sampling: object-surface records vs launch_trace
    yield _trace_check(ctx)

    # (d) create_distribution: unknown names rejected, counts as documented (on the implementation itself)
    yield _count_check(ctx)

    # (e) the three repaired defects must stay repaired
    yield _regression_check(ctx)

    # (f) _get_ray_origins and max_field on general field lists (negative largest field, x/y extremes on different
    #     points, off-axis Hx), where generate_rays itself refuses x fields
    yield _origins_check(ctx)

    # (g) round 6: edit histories through the public setters and finite object distances up to 1e14
    yield _history_check(ctx)


def _trace_check(ctx):
    import random, warnings
    import numpy as np
    import vlib, c03lib
    warnings.simplefilter('ignore')
    fh = vlib.fhex
    rng = random.Random(ctx.seed * 17 + 5)
    res = {'name': 'named-sampling-trace-vs-model', 'n': 0, 'nontrivial': 0, 'histogram': {'by_name': {}, 'raised': {}},
           'samples': [], 'disagreements': []}
    cases = []
    valid = [c for c in ALL_CELLS if not c03lib.must_reject(*c)]
    for i in range(ctx.n(20, 160)):
        spec = c03lib.cell_spec(rng, rng.choice(valid), nsurf=rng.choice([1, 2, 3, 4]),
                                field_class=rng.choice(['positive', 'positive', 'negative-largest']))
        route = c03lib.ROUTES[i % len(c03lib.ROUTES)]
        spec['route'] = route
        try:
            o = c03lib.build(spec, route, rng)
            o.paraxial.EPL()
        except Exception:     # noqa
            continue
        res['histogram'].setdefault('route', {})
        res['histogram']['route'][route] = res['histogram']['route'].get(route, 0) + 1
        name = (DIST_NAMES + ['bogus'])[i % (len(DIST_NAMES) + 1)]
        n = rng.choice([1, 2, 3, 4, 6]) if name in ('hexapolar', 'uniform') else rng.choice([1, 2, 3, 5, 8, 13])
        Hy = rng.choice([0.0, 1.0, rng.uniform(-1, 1)])
        w = spec['wavelengths'][0][0]
        try:
            o.trace(0.0, Hy, w, n, name)
            sg = o.surface_group
            recs = [[float(c[0, k]) for c in (sg.x, sg.y, sg.z, sg.L, sg.M, sg.N)] for k in range(sg.x.shape[1])]
            r = ('ok', recs)
        except Exception as e:   # noqa
            r = ('err', type(e).__name__)
            if name != 'bogus':
                from optiland.distribution import create_distribution
                d = create_distribution(name)
                d.generate_points(n, 0.0, 0.0)
                if len(d.x) == 0:
                    # uniform with 1 or 2 nodes per axis keeps no node (all outside the unit circle): Optic.trace
                    # fails on the empty bundle AFTER the launch (record bookkeeping), which is outside this property
                    res['histogram']['empty_sampling'] = res['histogram'].get('empty_sampling', 0) + 1
                    continue
            res['histogram']['raised'][type(e).__name__] = res['histogram']['raised'].get(type(e).__name__, 0) + 1
        res['histogram']['by_name'][name] = res['histogram']['by_name'].get(name, 0) + 1
        cases.append((spec, o, name, n, Hy, w, r))
        if r[0] == 'ok' and name != 'bogus':
            bad = c03lib.check_trace_launch(o, spec, name, n, Hy, w, r[1])
            if bad:
                res['disagreements'].append({'spec': spec, 'distribution': name, 'num_rays': n, 'Hy': Hy, 'oracle': bad,
                                             'violates_property': True})
    bodies, index = [], []
    chunk = 10
    for start in range(0, len(cases), chunk):
        defs, lines = [], []
        for ci in range(start, min(start + chunk, len(cases))):
            spec, o, name, n, Hy, w, r = cases[ci]
            defs.append(c03lib.coq_optic(f'o{ci}', o, spec))
            call = f'launch_trace o{ci} {fh(0.0)} {fh(Hy)} {fh(w)} {n}%Z "{name}"%string'
            if r[0] != 'ok':
                lines.append(f'match {call} with None => true | Some _ => false end')
            else:
                flat = [v for rec in r[1] for v in rec]
                lines.append(f'match {call} with None => false | Some l => close_list {fh(1e-9)} '
                             f'(flat_map (fun t => match t with (x_, y_, z_, L_, M_, N_, _, _) => [x_; y_; z_; L_; M_; N_] end) l) '
                             f'{vlib.flist(flat)} end')
        bodies.append('\n'.join(defs) + '\nEval vm_compute in (report [\n' + ';\n'.join(lines) + '\n]).\n')
        index.append(start)
    out = vlib.run_cases('C03trace', 'From OV Require Import OpsC03 Model.Paraxial Model.M_C03.', bodies)
    for start, r in zip(index, out):
        if r[0] == 'error':
            res['error'] = r[1]
            return res
        res['n'] += r[0]
        for i in r[2]:
            spec, o, name, n, Hy, w, rr = cases[start + i]
            res['disagreements'].append({'spec': spec, 'distribution': name, 'num_rays': n, 'Hy': Hy,
                                         'implementation': rr[0] if rr[0] != 'ok' else f'{len(rr[1])} rays',
                                         'violates_property': False})
    res['nontrivial'] = sum(1 for c in cases if c[6][0] == 'ok')
    if cases:
        spec, o, name, n, Hy, w, r = cases[0]
        res['samples'].append({'distribution': name, 'num_rays': n, 'Hy': Hy,
                               'rays_launched': len(r[1]) if r[0] == 'ok' else r[1]})
    return res


def uniform_nodes(n):
    """(nodes strictly inside the unit circle, nodes exactly on it) of the n x n grid on [-1, 1]^2, in integers:
    node (i, j) has (n-1)(x, y) = (2i-(n-1), 2j-(n-1))"""
    import numpy as np
    if n == 1:
        return 0, 0          # the single node is (-1, -1)
    a = (2 * np.arange(n, dtype=np.int64) - (n - 1)) ** 2
    r2 = a[:, None] + a[None, :]
    return int(np.count_nonzero(r2 < (n - 1) ** 2)), int(np.count_nonzero(r2 == (n - 1) ** 2))


def expected_count(name, n):
    """documented number of points of each named sampling (uniform: grid nodes inside or on the unit circle)"""
    if name in ('line_x', 'line_y', 'positive_line_x', 'positive_line_y', 'ring', 'random'):
        return n
    if name == 'cross':
        return 2 * n
    if name == 'hexapolar':
        return 1 + 3 * n * (n + 1)
    if name == 'uniform':
        return sum(uniform_nodes(n))
    raise ValueError(name)


def dist_oracle(name, n, vx, vy, seed=None):
    """violations of the sampling clauses on the implementation: documented count, inside the unit disk, no repeated
    point, vignetting shrinks"""
    import numpy as np
    from optiland.distribution import create_distribution, GaussianQuadrature
    bad = []
    if name.startswith('gq'):
        d = GaussianQuadrature(is_symmetric=name.endswith('sym'))
        d0 = GaussianQuadrature(is_symmetric=name.endswith('sym'))
        if not 1 <= n <= 6:
            try:
                d.generate_points(n, vx, vy)
                bad.append({'kind': 'gq-rings-not-rejected', 'rings': n})
            except ValueError:
                pass
            return bad
        exp = n if name.endswith('sym') else 3 * n
    else:
        d = create_distribution(name)
        d0 = create_distribution(name)
        exp = expected_count(name, n)
    d.generate_points(n, vx, vy)
    d0.generate_points(n, 0.0, 0.0)
    x, y, x0, y0 = (np.asarray(v, dtype=float) for v in (d.x, d.y, d0.x, d0.y))
    rim = uniform_nodes(n)[1] if name == 'uniform' else 0      # nodes exactly on the rim: binary64 rounding decides
    if len(x) != len(y) or not exp - rim <= len(x) <= exp:
        bad.append({'kind': 'count', 'got': [len(x), len(y)], 'expected': exp if not rim else [exp - rim, exp]})
    if name != 'random' and len(x0) == len(y0) and len(x0) > 1:
        z = np.round(x0, 12) + 1j * np.round(y0, 12)
        uniq, cnt = np.unique(z, return_counts=True)
        rep = uniq[cnt > 1]
        # the two arms of the cross share the centre when n is odd (documented 2 n points)
        if name == 'cross':
            rep = rep[rep != 0]
        if len(rep):
            bad.append({'kind': 'repeated-point', 'point': [float(rep[0].real), float(rep[0].imag)],
                        'times': int(cnt[cnt > 1][0]), 'repeated_points': int(len(rep))})
    if np.any(x * x + y * y > 1 + 1e-12) or np.any(x0 * x0 + y0 * y0 > 1 + 1e-12):
        bad.append({'kind': 'outside-unit-disk', 'max_r2': float(max(np.max(x * x + y * y), np.max(x0 * x0 + y0 * y0)))})
    if name != 'random' and len(x) == len(x0):
        if np.any(np.abs(x) > np.abs(x0) + 1e-15) or np.any(np.abs(y) > np.abs(y0) + 1e-15):
            bad.append({'kind': 'vignetting-enlarges-pupil'})
    return bad


def _origin_cases(ctx, per_class, salt=0):
    import random, warnings
    import c03lib
    warnings.simplefilter('ignore')
    rng = random.Random(ctx.seed * 41 + 9 + salt)
    hist = {'field_class': {'positive': 0, 'negative-largest': 0, 'mixed-xy': 0}, 'off_axis_Hx': 0, 'vx_ne_vy': 0,
            'raised': {}, 'cells': {}}
    out = []
    cells = [c for c in ALL_CELLS if not c[2]]          # _get_ray_origins ignores the aperture / telecentric rules
    for fc in ('positive', 'negative-largest', 'mixed-xy'):
        for j in range(per_class):
            cell = cells[(j * 5 + len(out) * 7 + (j // 2)) % len(cells)]
            spec = c03lib.cell_spec(rng, cell, nsurf=rng.choice([1, 2, 3, 5]), field_class=fc)
            route = c03lib.ROUTES[(j + len(out)) % len(c03lib.ROUTES)]
            spec['route'] = route
            try:
                o = c03lib.build(spec, route, rng)
                o.paraxial.EPL()
            except Exception:    # noqa
                continue
            hist['field_class'][fc] += 1
            hist.setdefault('route', {})
            hist['route'][route] = hist['route'].get(route, 0) + 1
            hist['cells']['/'.join(str(c) for c in cell)] = hist['cells'].get('/'.join(str(c) for c in cell), 0) + 1
            rs = []
            for k in range(4):
                Hx = rng.choice([0.0, rng.uniform(-1, 1), rng.uniform(-1, 1)])
                Hy = rng.choice([1.0, -1.0, rng.uniform(-1, 1)])
                rr, th = rng.choice([0.0, 1.0, rng.uniform(0, 1)]), rng.uniform(0, 6.283)
                vx, vy = 1 - rng.choice([0.0, rng.uniform(0, 0.5)]), 1 - rng.choice([0.0, rng.uniform(0, 0.5)])
                args = (Hx, Hy, rr * math.cos(th), rr * math.sin(th), vx, vy)
                hist['off_axis_Hx'] += int(Hx != 0)
                hist['vx_ne_vy'] += int(vx != vy)
                r = c03lib.impl_origins(o, *args)
                if r[0] != 'ok':
                    hist['raised'][r[1]] = hist['raised'].get(r[1], 0) + 1
                rs.append((args, r))
            out.append((spec, o, rs))
    return out, hist


def _origins_check(ctx):
    import vlib, c03lib
    fh = vlib.fhex
    cases, hist = _origin_cases(ctx, ctx.n(10, 80))
    res = {'name': 'origins-and-max-field-on-general-field-lists', 'n': 0, 'nontrivial': 0, 'histogram': hist, 'samples': [],
           'disagreements': []}
    defs, lines, keys = [], [], []
    for li, (spec, o, rs) in enumerate(cases):
        defs.append(c03lib.coq_optic(f'o{li}', o, spec))
        try:
            mfv = float(o.fields.max_field)
            lines.append(f'close {fh(1e-13)} (max_field (o_fields o{li})) {fh(mfv)}')
            keys.append((li, 'max_field'))
        except Exception:     # noqa
            pass
        for ri, (args, r) in enumerate(rs):
            call = f'origins o{li} ' + ' '.join(fh(v) for v in args)
            if r[0] != 'ok':
                lines.append(f'match {call} with None => true | Some _ => false end')
            else:
                lines.append(f'match {call} with None => false | Some (x_, y_, z_) => close {fh(1e-9)} x_ {fh(r[1][0])} && '
                             f'close {fh(1e-9)} y_ {fh(r[1][1])} && close {fh(1e-9)} z_ {fh(r[1][2])} end')
            keys.append((li, ri))
    body = '\n'.join(defs) + '\nEval vm_compute in (report [\n' + ';\n'.join(lines) + '\n]).\n'
    out = vlib.run_cases('C03origins', 'From OV Require Import OpsC03 Model.Paraxial Model.M_C03.', [body])
    r0 = out[0]
    if r0[0] == 'error':
        res['error'] = r0[1]
        return res
    res['n'] = r0[0]
    failed = {keys[i] for i in r0[2]}
    if r0[1] > len(r0[2]):
        res['disagreements'].append({'note': f'{r0[1] - len(r0[2])} further mismatches', 'violates_property': False})
    for li, (spec, o, rs) in enumerate(cases):
        for ri, (args, r) in enumerate(rs):
            res['nontrivial'] += int(r[0] == 'ok')
            bad = c03lib.check_origins(o, spec, args, r)
            if (li, ri) in failed or bad or ((li, 'max_field') in failed and ri == 0):
                res['disagreements'].append({'spec': spec, 'origins_args(Hx,Hy,Px,Py,vx,vy)': list(args), 'implementation': list(r),
                                             'model_agrees': (li, ri) not in failed and (li, 'max_field') not in failed,
                                             'oracle': bad[:3], 'violates_property': bool(bad)})
    if cases:
        spec, o, rs = cases[-1]
        res['samples'].append({'fields(y,x,vx,vy)': spec['fields'], 'max_field': float(o.fields.max_field), 'origins': list(rs[0][1])})
    return res


def _history_cases(ctx, n, salt=0):
    """round 6: (a) edit histories - a different lens / configuration is built and queried, then brought to the prescription
    with the public setters (set_index incl. the object space, set_thickness incl. the object distance, set_radius,
    set_aperture, set_field_type, the telecentric flag); (b) finite object distances over the whole finite range
    (log-uniform 1e0 .. 1e14, exact decades), heights as generated or scaled with the distance; (c) both.
    Own random stream (the streams of the older checks are unchanged)."""
    import random, warnings
    import c03lib
    warnings.simplefilter('ignore')
    rng = random.Random(ctx.seed * 59 + 13 + salt)
    hist = {'class': {'edited': 0, 'far-object': 0, 'edited+far-object': 0}, 'edit_kinds': {}, 'route': {}, 'cells': {},
            'log10_object_distance': {}, 'heights_scaled_with_distance': 0, 'object_index_edited': 0, 'build_errors': {},
            'launched': 0, 'raised': {}, 'pupil_not_in_front_of_object': 0, 'prescription_problems': 0}
    finite_valid = [c for c in ALL_CELLS if not c[0] and not c03lib.must_reject(*c)]
    out = []
    for i in range(n):
        klass = ('edited', 'far-object', 'edited+far-object')[i % 3]
        if klass == 'edited':
            cell = rng.choice(finite_valid) if rng.random() < 0.7 else rng.choice(ALL_CELLS)
        else:
            cell = rng.choice(finite_valid) if rng.random() < 0.85 else rng.choice([c for c in ALL_CELLS if not c[0]])
        spec = c03lib.cell_spec(rng, cell, nsurf=rng.choice([1, 2, 3, 4, 6]))
        if 'far' in klass:
            c03lib.far_object(spec, rng)
        spec['strict_oracle'] = True
        if 'edited' in klass:
            route = 'edited'
            kinds = [k for k in c03lib.EDIT_KINDS if rng.random() < 0.4]
            if i % 2 == 0 and 'object_index' not in kinds:
                kinds.append('object_index')
            if klass == 'edited+far-object' and rng.random() < 0.6 and 'object_distance' not in kinds:
                kinds.append('object_distance')
            spec['edit_kinds'] = kinds or [rng.choice(c03lib.EDIT_KINDS)]
        else:
            route = c03lib.ROUTES[(i // 3) % len(c03lib.ROUTES)]
        spec['route'] = route
        spec['history_class'] = klass
        try:
            o = c03lib.build(spec, route, rng)
        except Exception as e:     # noqa
            hist['build_errors'][type(e).__name__] = hist['build_errors'].get(type(e).__name__, 0) + 1
            continue
        if not math.isinf(spec['object_thickness']) and not spec.get('telecentric'):
            # a pupil at or behind the object cannot be aimed at by a forward ray: outside the property
            import oracles, paraxcorr
            try:
                epl = oracles.abcd_quantities(paraxcorr.psurfs(o), 'EPD', 1.0, 'angle', 1.0).get('EPL')
            except Exception:    # noqa
                epl = None
            if epl is None or not math.isfinite(epl) or epl + spec['object_thickness'] <= 1e-3 * (1 + abs(epl)):
                hist['pupil_not_in_front_of_object'] += 1
                continue
        hist['class'][klass] += 1
        hist['route'][route] = hist['route'].get(route, 0) + 1
        ck = '/'.join(str(c) for c in cell)
        hist['cells'][ck] = hist['cells'].get(ck, 0) + 1
        for e in spec.get('edits', []):
            key = e[0] + ('(object)' if e[0] in ('index', 'thickness') and e[1] == 0 else '')
            hist['edit_kinds'][key] = hist['edit_kinds'].get(key, 0) + 1
            hist['object_index_edited'] += int(e[0] == 'index' and e[1] == 0)
        if 'far' in klass:
            dk = str(int(math.floor(math.log10(spec['object_thickness']))))
            hist['log10_object_distance'][dk] = hist['log10_object_distance'].get(dk, 0) + 1
            hist['heights_scaled_with_distance'] += int(max(abs(f[0]) for f in spec['fields']) > 100)
        w = spec['wavelengths'][0][0]
        rs = []
        for ri, (Hx, Hy, Px, Py) in enumerate(_rays(rng, 5)):
            via = 'generate' if ri % 2 == 0 else 'generic'
            r = c03lib.impl_launch(o, Hx, Hy, Px, Py, w, via)
            if r[0] == 'ok':
                hist['launched'] += 1
            else:
                hist['raised'][r[1]] = hist['raised'].get(r[1], 0) + 1
            rs.append(((Hx, Hy, Px, Py, w), via, r))
        out.append((spec, o, rs))
    return out, hist


def _history_witnesses(ctx, n, salt=0):
    import c03lib
    cases, hist = _history_cases(ctx, n, salt)
    wit, n_eval, nontrivial = [], 0, 0
    for spec, o, rs in cases:
        pp = c03lib.entered_problems(o, spec)
        if pp:
            hist['prescription_problems'] += 1
            wit.append({'history_class': spec['history_class'], 'spec': spec, 'route': spec['route'], 'oracle': pp,
                        'violates_property': True})
            continue
        for ray, via, r in rs:
            n_eval += 1
            nontrivial += int(r[0] == 'ok' and all(math.isfinite(v) for v in r[1][:6]))
            eff = ray if via == 'generate' or r[0] != 'ok' else _generic_pupil(spec, ray)
            bad = c03lib.check_launch(o, spec, eff, r)
            if bad:
                wit.append({'history_class': spec['history_class'], 'spec': spec, 'route': spec['route'], 'ray': list(ray), 'via': via,
                            'implementation': list(r), 'oracle': bad[:4], 'violates_property': True})
                break
    return n_eval, nontrivial, wit, hist


def _history_check(ctx):
    res = {'name': 'edit-histories-and-far-finite-objects', 'n': 0, 'nontrivial': 0, 'histogram': {}, 'samples': [], 'disagreements': []}
    n, nt, wit, hist = _history_witnesses(ctx, ctx.n(150, 900))
    res['n'], res['nontrivial'], res['histogram'], res['disagreements'] = n, nt, hist, wit
    return res


SWEEP_FULL = {'hexapolar': 150, 'uniform': 400}      # every count 1..400 unless listed (hexapolar: RINGS; the
SWEEP_QUICK = {'hexapolar': 60, 'uniform': 200}       # cost is cubic in the ring count, 150 rings = 67951 points)


def sampling_sweep(limits, vig=(0.15, 0.3), default=400):
    """every named sampling at EVERY count 1..limit on the implementation itself (no lens, no Coq): documented count,
    inside the unit disk, no repeated point, vignetting only shrinks.  Returns (number of evaluations, witnesses)"""
    out, n_eval = [], 0
    for name in DIST_NAMES + ['random', 'gq', 'gqsym']:
        counts = range(-1, 9) if name.startswith('gq') else range(1, limits.get(name, default) + 1)
        failing, first = [], None
        for n in counts:
            n_eval += 1
            try:
                bad = dist_oracle(name, n, *vig)
            except Exception as e:    # noqa
                bad = [{'kind': 'raised', 'error': type(e).__name__, 'msg': str(e)[:80]}]
            if bad:
                failing.append(n)
                first = first or (n, bad)
        if first:
            out.append({'distribution': name, 'n': first[0], 'vx': vig[0], 'vy': vig[1], 'oracle': first[1],
                        'failing_counts': failing[:12], 'number_of_failing_counts': len(failing),
                        'counts_swept': [counts[0], counts[-1]], 'violates_property': True})
    return n_eval, out


def _count_check(ctx):
    from optiland.distribution import create_distribution
    res = {'name': 'sampling-counts-on-implementation', 'n': 0, 'nontrivial': 0,
           'histogram': {'counts_swept_per_sampling': '1..400 (hexapolar rings 1..%d, uniform 1..%d in this tier)' %
                         ((SWEEP_QUICK if ctx.quick() else SWEEP_FULL)['hexapolar'], (SWEEP_QUICK if ctx.quick() else SWEEP_FULL)['uniform'])},
           'samples': [], 'disagreements': []}
    n_eval, wit = sampling_sweep(SWEEP_QUICK if ctx.quick() else SWEEP_FULL)
    res['n'] = res['nontrivial'] = n_eval
    res['disagreements'].extend(wit)
    for bogus in ('hexpolar', '', 'gaussian', 'Uniform'):
        res['n'] += 1
        try:
            create_distribution(bogus)
            res['disagreements'].append({'distribution': bogus, 'oracle': [{'kind': 'unknown-name-accepted'}],
                                         'violates_property': True})
        except ValueError:
            pass
    res['samples'].append({'hexapolar rings': 6, 'expected points': expected_count('hexapolar', 6)})
    return res


# ---------------------------------------------------------------------------------------------
# 4. search: the property as an oracle on the implementation
# ---------------------------------------------------------------------------------------------
def search(ctx, broken, disagreements):
    """implementation-level oracles only (nothing here needs the Coq side, so a verdict is reached even when a
    translation or a proof failed).  Returns a LIST of witnesses, unlisted ones first."""
    import c03lib
    found = []
    # fixed corpus through every route, then every named sampling at every count (cheap)
    found.extend(_corpus_witnesses()[1])
    found.extend(sampling_sweep(SWEEP_FULL)[1])
    found.extend(_history_witnesses(ctx, ctx.n(150, 900), salt=211)[2])
    lenses, hist = _lenses(ctx, ctx.n(6, 40), 8, salt=101)
    for spec, o, rs in lenses:
        for ray, via, r in rs:
            eff = ray if via == 'generate' else (_generic_pupil(spec, ray) if r[0] == 'ok' else ray)
            bad = c03lib.check_launch(o, spec, eff, r)
            if bad:
                found.append({'spec': spec, 'ray': list(ray), 'via': via, 'implementation': list(r), 'oracle': bad[:4],
                              'violates_property': True})
                break
    tr = _trace_check(ctx)
    found.extend(d for d in tr.get('disagreements', []) if d.get('violates_property'))
    ocases, _ = _origin_cases(ctx, ctx.n(15, 80), salt=77)
    for spec, o, rs in ocases:
        for args, r in rs:
            bad = c03lib.check_origins(o, spec, args, r)
            if bad:
                found.append({'spec': spec, 'origins_args(Hx,Hy,Px,Py,vx,vy)': list(args), 'implementation': list(r),
                              'oracle': bad[:3], 'violates_property': True})
                break
    # unlisted witnesses first, so that a new defect is not hidden behind a listed one
    import vlib
    known = vlib.load_known_findings(PROP)
    found.sort(key=lambda w: any(matches_finding(w, f) for f in known))
    return found[:8] or None


# ---------------------------------------------------------------------------------------------
# 5. known findings
# ---------------------------------------------------------------------------------------------
EPS64 = 2.220446049250313e-16


def matches_finding(w, f):
    """the three findings of 2026-09-30 are repaired in /repo (45f857e, 70bd414, 105641c).  One open finding (round 6):
    telecentric object space with a far finite object - the cone direction is built as (dz + z0) - z0, so the launched
    NA carries a relative error of up to ulp(z0) / dz.  A witness matches ONLY when every oracle entry is the
    telecentric NA clause, the object is far and the error is within that rounding bound (an NA that is wrong for any
    other reason - index ignored, wrong value - is far outside it and alarms)."""
    m = f.get('match', {})
    if m.get('kind') != 'telecentric-cone-cancellation-far-object':
        return False
    spec, orc = w.get('spec') or {}, w.get('oracle') or []
    if not (spec.get('telecentric') and orc and all(b.get('kind') == 'telecentric-numerical-aperture' for b in orc)):
        return False
    d = float(spec.get('object_thickness', 0.0))
    if not (math.isfinite(d) and d >= float(m.get('min_object_distance', 1e6))):
        return False
    hmax = max(math.hypot(float(r[0]), float(r[1])) for r in spec['fields'])
    for b in orc:
        s_ = b['NA'] / b['object_index']
        dz = math.sqrt(1 - s_ * s_) / s_
        if not b['expected'] > 0:
            return False
        pr = b['expected'] * dz            # lateral offset Px vx, Py vy that is added to (and subtracted from) the origin
        if not abs(b['tan_theta'] - b['expected']) / b['expected'] <= 4 * EPS64 * (d / dz + hmax / pr):
            return False
    return True


BACKWARDS_REPLAY = {
    'object_thickness': float('inf'),
    'surfaces': [{'type': 'standard', 'radius': 50.0, 'thickness': 5.0, 'material': ['ideal', 1.5168, 0.0]},
                 {'type': 'standard', 'radius': -50.0, 'thickness': 95.0, 'material': 'air'},
                 {'type': 'standard', 'radius': float('inf'), 'thickness': 20.0, 'material': 'air', 'is_stop': True}],
    'aperture': ['EPD', 10.0], 'field_type': 'angle', 'fields': [[0.0, 0.0, 0.0, 0.0], [5.0, 0.0, 0.0, 0.0]],
    'wavelengths': [[0.55, True]], 'telecentric': False}

TELE_NA_REPLAY = {
    'object_thickness': 100.0, 'object_index': 1.33,
    'surfaces': [{'type': 'standard', 'radius': 60.0, 'thickness': 6.0, 'material': ['ideal', 1.6, 0.0], 'is_stop': True},
                 {'type': 'standard', 'radius': -60.0, 'thickness': 80.0, 'material': 'air'}],
    'aperture': ['objectNA', 0.1], 'field_type': 'object_height', 'fields': [[0.0, 0.0, 0.0, 0.0], [4.0, 0.0, 0.0, 0.0]],
    'wavelengths': [[0.55, True]], 'telecentric': True}


NA_INF_REPLAY = {
    'object_thickness': float('inf'),
    'surfaces': [{'type': 'standard', 'radius': 50.0, 'thickness': 5.0, 'material': ['ideal', 1.5168, 0.0], 'is_stop': True},
                 {'type': 'standard', 'radius': -50.0, 'thickness': 45.0, 'material': 'air'}],
    'aperture': ['objectNA', 0.1], 'field_type': 'angle', 'fields': [[0.0, 0.0, 0.0, 0.0], [5.0, 0.0, 0.0, 0.0]],
    'wavelengths': [[0.55, True]], 'telecentric': False}


_WATER = ['ideal', 1.33, 0.0]


def _with(spec, **kw):
    import copy
    d = copy.deepcopy(spec)
    d.update(kw)
    return d


FINITE_HEIGHT = {
    'object_thickness': 150.0,
    'surfaces': [{'type': 'standard', 'radius': 80.0, 'thickness': 6.0, 'material': ['ideal', 1.62, 0.0]},
                 {'type': 'standard', 'radius': -120.0, 'thickness': 12.0, 'material': 'air'},
                 {'type': 'standard', 'radius': float('inf'), 'thickness': 4.0, 'material': 'air', 'is_stop': True},
                 {'type': 'standard', 'radius': 60.0, 'thickness': 5.0, 'material': ['ideal', 1.5168, 0.0]},
                 {'type': 'standard', 'radius': -90.0, 'thickness': 70.0, 'material': 'air'}],
    'aperture': ['imageFNO', 5.0], 'field_type': 'object_height',
    'fields': [[0.0, 0.0, 0.0, 0.0], [4.0, 0.0, 0.1, 0.25], [8.0, 0.0, 0.3, 0.05]],
    'wavelengths': [[0.5876, True]], 'telecentric': False}

INFINITE_VIG = {
    'object_thickness': float('inf'),
    'surfaces': [{'type': 'standard', 'radius': 70.0, 'thickness': 5.0, 'material': ['ideal', 1.6, 0.0]},
                 {'type': 'standard', 'radius': -200.0, 'thickness': 9.0, 'material': 'air'},
                 {'type': 'standard', 'radius': float('inf'), 'thickness': 60.0, 'material': 'air', 'is_stop': True}],
    'aperture': ['EPD', 8.0], 'field_type': 'angle',
    'fields': [[0.0, 0.0, 0.0, 0.0], [7.0, 0.0, 0.05, 0.3], [14.0, 0.0, 0.35, 0.1]],
    'wavelengths': [[0.55, True]], 'telecentric': False}

MIRROR_FIRST = {
    'object_thickness': float('inf'),
    'surfaces': [{'type': 'standard', 'radius': -400.0, 'conic': -1.0, 'thickness': -150.0, 'material': 'mirror', 'is_stop': True},
                 {'type': 'standard', 'radius': float('inf'), 'thickness': -45.0, 'material': 'air'}],
    'aperture': ['EPD', 40.0], 'field_type': 'angle', 'fields': [[0.0, 0.0, 0.0, 0.0], [0.5, 0.0, 0.0, 0.0], [1.0, 0.0, 0.0, 0.0]],
    'wavelengths': [[0.55, True]], 'telecentric': False}
CASSEGRAIN_LIKE = {
    'object_thickness': float('inf'),
    'surfaces': [{'type': 'standard', 'radius': -300.0, 'conic': -1.0, 'thickness': -100.0, 'material': 'mirror', 'is_stop': True},
                 {'type': 'standard', 'radius': -120.0, 'conic': -2.5, 'thickness': 130.0, 'material': 'mirror'}],
    'aperture': ['imageFNO', 8.0], 'field_type': 'angle', 'fields': [[0.0, 0.0, 0.0, 0.0], [0.4, 0.0, 0.0, 0.0]],
    'wavelengths': [[0.6563, True]], 'telecentric': False}

# fixed corpus: (label, prescription, route); the same rays are launched through every entry on every run, whatever the
# seed.  Classes: the three repaired findings; telecentric lenses (valid and to-be-rejected) through every route; an
# interior-stop finite lens and a rear-stop infinite lens with fields of vx != vy through every route (state that
# survives reset(), alternative constructor, ready-made surfaces); largest field negative; mirror systems whose first
# surface is the mirror (surface vertices to the LEFT of surface 1).
REGRESSION_CASES = [
    ('infinite-object-launched-backwards', BACKWARDS_REPLAY, 'direct'),
    ('telecentric-na-ignores-object-index', _with(TELE_NA_REPLAY, object_material=['ideal', 1.33, 0.0]), 'direct'),
    ('objectNA-infinite-object-not-rejected', NA_INF_REPLAY, 'direct'),
]
CORPUS = REGRESSION_CASES + (
    [('telecentric/' + r, _with(TELE_NA_REPLAY, object_material=['ideal', 1.33, 0.0]), r) for r in ('handbuilt', 'reuse', 'roundtrip')] +
    [('telecentric-EPD-must-reject/' + r, _with(TELE_NA_REPLAY, object_material=['ideal', 1.33, 0.0], aperture=['EPD', 6.0]), r)
     for r in ('direct', 'reuse', 'roundtrip')] +
    [('pupil-left-of-lens/' + r, BACKWARDS_REPLAY, r) for r in ('handbuilt', 'reuse', 'roundtrip')] +
    [('finite-interior-stop/' + r, FINITE_HEIGHT, r) for r in ('direct', 'handbuilt', 'reuse', 'roundtrip')] +
    [('finite-angle-fields/' + r, _with(FINITE_HEIGHT, field_type='angle', aperture=['objectNA', 0.05]), r) for r in ('direct', 'reuse')] +
    [('infinite-vx-ne-vy/' + r, INFINITE_VIG, r) for r in ('direct', 'handbuilt', 'reuse', 'roundtrip')] +
    [('largest-field-negative/' + r, _with(INFINITE_VIG, fields=[[0.0, 0.0, 0.0, 0.0], [-14.0, 0.0, 0.0, 0.0], [-20.0, 0.0, 0.0, 0.0]]), r)
     for r in ('direct', 'roundtrip')] +
    [('mirror-is-first-surface/' + r, MIRROR_FIRST, r) for r in ('direct', 'reuse', 'roundtrip')] +
    [('two-mirrors-vertex-left-of-first-surface/' + r, CASSEGRAIN_LIKE, r) for r in ('direct', 'handbuilt')] +
    [('largest-height-negative/reuse', _with(FINITE_HEIGHT, aperture=['EPD', 9.0],
                                              fields=[[-6.0, 0.0, 0.0, 0.0], [0.0, 0.0, 0.0, 0.0], [3.0, 0.0, 0.0, 0.0]]), 'reuse')] +
    # round 6: edit histories (the configuration / object space is reached with public setters on a lens created
    # different and already queried) and finite object distances up to 1e13 lens units
    [('immersion-set-after-construction/edited', _with(FINITE_HEIGHT, aperture=['objectNA', 0.1], object_material=_WATER,
                                                        edit_kinds=['object_index'], strict_oracle=True), 'edited'),
     ('immersion-set-after-construction-angle-fields/edited', _with(FINITE_HEIGHT, aperture=['objectNA', 0.07], field_type='angle',
                                                                     object_material=['ideal', 1.47, 0.0],
                                                                     edit_kinds=['object_index', 'aperture'], strict_oracle=True), 'edited'),
     ('telecentric-immersion-set-after-construction/edited', _with(TELE_NA_REPLAY, object_material=_WATER,
                                                                    edit_kinds=['object_index', 'telecentric'], strict_oracle=True), 'edited'),
     ('immersion-removed-after-construction/edited', _with(FINITE_HEIGHT, aperture=['objectNA', 0.08],
                                                            edit_kinds=['object_index', 'object_distance'], strict_oracle=True), 'edited'),
     ('every-setter/edited', _with(FINITE_HEIGHT, edit_kinds=['object_index', 'object_distance', 'thickness', 'radius', 'index',
                                                              'aperture', 'field_type', 'telecentric'], strict_oracle=True), 'edited'),
     ('infinite-object-reached-by-set_thickness/edited', _with(INFINITE_VIG, edit_kinds=['object_distance', 'aperture']), 'edited'),
     ('far-object-1e10-heights/direct', _with(FINITE_HEIGHT, object_thickness=1e10, strict_oracle=True), 'direct'),
     ('far-object-moon-heights/roundtrip', _with(FINITE_HEIGHT, object_thickness=3.844e11, strict_oracle=True,
                                                 fields=[[0.0, 0.0, 0.0, 0.0], [1.7374e9, 0.0, 0.0, 0.0]]), 'roundtrip'),
     ('far-object-2.5e13-heights/reuse', _with(FINITE_HEIGHT, object_thickness=2.5e13, strict_oracle=True, aperture=['EPD', 7.0],
                                               fields=[[0.0, 0.0, 0.0, 0.0], [-3.0e11, 0.0, 0.0, 0.0], [1.0e11, 0.0, 0.0, 0.0]]), 'reuse'),
     ('far-object-1e12-angle-objectNA/direct', _with(FINITE_HEIGHT, object_thickness=1e12, strict_oracle=True, field_type='angle',
                                                      aperture=['objectNA', 4e-12]), 'direct'),
     ('far-object-1e10-angle-EPD/handbuilt', _with(FINITE_HEIGHT, object_thickness=1e10, strict_oracle=True, field_type='angle',
                                                    aperture=['EPD', 8.0]), 'handbuilt'),
     ('far-object-below-1e10/direct', _with(FINITE_HEIGHT, object_thickness=9.0e9, strict_oracle=True), 'direct'),
     ('far-object-telecentric/edited', _with(TELE_NA_REPLAY, object_material=_WATER, object_thickness=1e6, strict_oracle=True,
                                             edit_kinds=['object_distance']), 'edited')]
)
CORPUS_RAYS = [(0.0, 1.0, 0.0, 0.0), (0.0, 1.0, 0.0, 1.0), (0.0, -0.6, 0.5, -0.7), (0.0, 0.5, -1.0, 0.0), (0.0, 0.0, 0.6, 0.8)]


def _corpus_cases():
    import random, warnings
    import c03lib
    warnings.simplefilter('ignore')
    out = []
    for k, (label, spec, route) in enumerate(CORPUS):
        spec = _with(spec, route=route)
        if spec.get('object_material'):
            spec['object_index'] = spec['object_material'][1]
        try:
            o = c03lib.build(spec, route, random.Random(1000 + k))
        except Exception as e:     # noqa
            out.append((label, spec, None, [('build', None, ('err', type(e).__name__, str(e)[:100]))]))
            continue
        w = spec['wavelengths'][0][0]
        rs = []
        for ri, (Hx, Hy, Px, Py) in enumerate(CORPUS_RAYS):
            via = 'generate' if ri % 2 == 0 else 'generic'
            ray = (Hx, Hy, Px, Py, w)
            rs.append((ray, via, c03lib.impl_launch(o, *ray, via)))
        out.append((label, spec, o, rs))
    return out


def _corpus_witnesses():
    """implementation-level verdict on the fixed corpus (no Coq)"""
    import c03lib
    wit, n, hist = [], 0, {'routes': {}, 'entries': len(CORPUS)}
    for label, spec, o, rs in _corpus_cases():
        hist['routes'][spec['route']] = hist['routes'].get(spec['route'], 0) + 1
        if o is None:
            wit.append({'corpus': label, 'spec': spec, 'oracle': [{'kind': 'route-cannot-build-the-lens', 'error': list(rs[0][2][1:])}],
                        'violates_property': True})
            continue
        pp = c03lib.entered_problems(o, spec)
        if pp:
            wit.append({'corpus': label, 'spec': spec, 'route': spec['route'], 'oracle': pp, 'violates_property': True})
        for ray, via, r in rs:
            n += 1
            eff = ray if via == 'generate' or r[0] != 'ok' else _generic_pupil(spec, ray)
            bad = c03lib.check_launch(o, spec, eff, r)
            if bad:
                wit.append({'corpus': label, 'spec': spec, 'route': spec['route'], 'ray': list(ray), 'via': via,
                            'implementation': list(r), 'oracle': bad[:4], 'violates_property': True})
                break
    return n, wit, hist


def _regression_check(ctx):
    """fixed corpus (repaired findings, telecentric lenses, stale-state and alternative-constructor routes, fields with
    vx != vy, largest field negative), replayed on the implementation on every run whatever the seed"""
    res = {'name': 'fixed-corpus-all-routes', 'n': 0, 'nontrivial': 0, 'histogram': {}, 'samples': [], 'disagreements': []}
    n, wit, hist = _corpus_witnesses()
    res['n'] = res['nontrivial'] = n
    res['histogram'] = hist
    res['disagreements'] = wit
    res['samples'].append({'corpus_labels': [c[0] for c in CORPUS][:6]})
    return res


def replay_finding(ctx, f):
    """telecentric-cone-cancellation-far-object: the telecentric immersion lens of the corpus with its object 1e13 lens
    units away; the marginal ray of the axial field must leave with n0 sin(theta) = NA"""
    if f.get('match', {}).get('kind') != 'telecentric-cone-cancellation-far-object':
        return None
    import c03lib
    spec = _with(TELE_NA_REPLAY, object_material=_WATER, object_index=1.33, object_thickness=1e13, route='direct')
    o = c03lib.build(spec, 'direct')
    r = c03lib.impl_launch(o, 0.0, 0.0, 0.0, 1.0, 0.55, 'generate')
    if r[0] != 'ok':
        return True
    L, M, N = r[1][3:6]
    na = 1.33 * math.hypot(L, M) / math.sqrt(L * L + M * M + N * N) if all(map(math.isfinite, (L, M, N))) else float('nan')
    return not abs(na - spec['aperture'][1]) <= 1e-9 * spec['aperture'][1]


def broken_explained(b, known, witnesses):
    return False


THEOREMS = _theorems() or None

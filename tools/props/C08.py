"""C08 - Seidel and first-order chromatic terms equal the classical surface formulas."""
import math
from props.common import BASE_TRUSTED

PROP = 'C08'
KERNELS = ['TAchC_term', 'TchC_term', 'TSC_term', 'CC_term', 'TAC_term', 'TPC_term', 'DC_term']
THEOREMS = ['C08_TSC_is_classical', 'C08_CC_is_classical', 'C08_TAC_is_classical', 'C08_TPC_is_classical',
            'C08_DC_is_classical', 'C08_TAchC_is_classical', 'C08_TchC_is_classical', 'C08_TSC_stop_independent',
            'C08_TPC_depends_on_invariant_only', 'C08_seidel_sum_classical', 'C08_third_order_identities',
            'C08_TSC_scaling', 'C08_CC_scaling', 'C08_TAC_scaling', 'C08_TPC_scaling', 'C08_DC_scaling', 'C08_TAchC_scaling', 'C08_TchC_scaling',
            'C08_no_index_step_contributes_nothing', 'C08_spherical_family_stop_independent', 'C08_spherical_sum_stop_independent',
            'C08_same_marginal_def', 'C08_petzval_family_ray_independent', 'C08_plane_has_no_petzval']
COQ_TARGETS = ['Model/Seidel.vo']
TRUSTED_BASE = BASE_TRUSTED + [
    'hand model coq/Model/Seidel.v (precalculated i, i\', B, B\', the loop over surfaces, sums, accessor structure): tied by correspondence with Aberrations.third_order()/accessors',
    'specification coq/Spec/S_Seidel.v (Welford surface contributions; Smith sign convention X = S/(2 n\'u\'))',
    'the paraxial marginal/chief data fed to the terms is the implementation\'s own (C04 covers it)',
]
RULE = ('seeded axially symmetric lenses of planes/spheres (mirrors 25%), catalogue glasses for colour, any stop position; '
        'third_order() and every accessor compared with the Coq model and a Welford-form NumPy oracle; non-trivial = distinct lens with non-zero invariant')
PARTIAL = ['small-aperture limit (third-order TSC predicts the real marginal-ray error): numerical validation in the thorough tier only',
           'mirrors: the theorems cover refracting surfaces; reflecting surfaces are a known finding (seidel-mirrors)']


def kernel_cases(ctx):
    g = ctx.gen
    n = ctx.n(200, 2000)

    def L(k):
        return [g.uni(-2, 2) for _ in range(k)]
    for name, mk in (
        ('TSC_term', lambda: [1, L(1), L(1), g.uni(-3, 3)]),
        ('CC_term', lambda: [1, L(1), L(1), L(1), g.uni(-3, 3)]),
        ('TAC_term', lambda: [1, L(1), L(1), g.uni(-3, 3)]),
        ('TPC_term', lambda: [1, [g.uni(1, 2) for _ in range(3)], L(2), g.uni(-3, 3), g.uni(-1, 1)]),
        ('DC_term', lambda: [1, g.uni(-3, 3), L(1), L(1), L(1), L(2)]),
        ('TAchC_term', lambda: [1, L(2), L(1), [g.uni(1, 2) for _ in range(3)], L(3), L(2)]),
        ('TchC_term', lambda: [1, L(2), L(1), [g.uni(1, 2) for _ in range(3)], L(3), L(2)]),
    ):
        cases = []
        for i in range(n):
            c = mk()
            # vary k and list lengths too
            if i % 3 == 0:
                k = g.r.choice([1, 2, 3])
                c = [k] + [(x + L(k + 1)) if isinstance(x, list) else x for x in c[1:]]
            cases.append(c)
        yield name, cases, {'scalars': ['self._hp', 'self._inv'], 'arrays': ['self._ya', 'self._i', 'self._ip', 'self._n',
                                                                           'self._ua', 'self._dn', 'self._B', 'self._Bp',
                                                                           'self._C', 'self._ub'], 'tol': 1e-13}


def _cases(ctx, nl):
    import random, warnings
    import lensgen, seidelcorr, oracles, paraxcorr
    warnings.simplefilter('ignore')
    rng = random.Random(ctx.seed * 17 + 5)
    cases = []
    hist = {'lenses': 0, 'with_mirror': 0, 'catalogue_glass': 0, 'errors': {}}
    corp = [c for c in lensgen.corpus() if c['name'] in ('mangin', 'image-in-glass', 'tir-planoconvex', 'window-before-stop', 'cemented', 'rear-stop-finite-object')]
    for li in range(nl + len(corp)):
        spec = dict(corp[li]) if li < len(corp) else lensgen.gen_spec(rng, allow=['plane', 'standard'], decenter=False, mirrors=(li % 4 == 0))
        if max(f[0] for f in spec['fields']) == 0:
            spec['fields'].append([rng.uniform(1, 6), 0.0, 0.0, 0.0])
        if li >= len(corp) and li % 6 == 5:
            # small aperture AND small field: a tiny but regular Lagrange invariant (contributions far below 1)
            spec['aperture'] = ['EPD', 10 ** rng.uniform(-2.5, -1.0)]
            spec['field_type'] = 'angle'
            spec['fields'] = [[0.0, 0.0, 0.0, 0.0], [10 ** rng.uniform(-6.5, -4.0), 0.0, 0.0, 0.0]]
            hist['small_invariant'] = hist.get('small_invariant', 0) + 1
        elif li >= len(corp) and li % 6 == 2 and not math.isinf(spec['object_thickness']):
            lensgen.immerse(spec, rng)       # object / image space not in air
            hist['immersed'] = hist.get('immersed', 0) + 1
        if li >= len(corp) and li % 4 == 1:
            hist['cemented_interfaces'] = hist.get('cemented_interfaces', 0) + lensgen.cement(spec, rng)
        if li >= len(corp) and li % 5 == 4 and len(spec['fields']) > 1:
            lensgen.reorder_fields(spec, rng)      # the full-field chief ray does not depend on the order of the field list
            hist['fields_reordered'] = hist.get('fields_reordered', 0) + 1
        edits = []
        route = {1: 'handbuilt', 3: 'reuse', 5: 'roundtrip'}.get(li % 7, 'direct') if li >= len(corp) else 'direct'
        hist['route_' + route] = hist.get('route_' + route, 0) + 1
        try:
            o = lensgen.build_via(spec, route, rng)
            if li % 3 == 1 or route == 'roundtrip':
                seidelcorr.gather(o)            # query once, edit, query again (stale caches)
                edits = lensgen.random_edits(o, spec, rng, kinds=['index', 'index', 'radius', 'thickness'])
                hist['edited'] = hist.get('edited', 0) + 1
            rows, g, out = seidelcorr.gather(o)
            # the paraxial rays the formulas are evaluated with must be THE marginal ray and the full-field chief ray of
            # the prescription (independent matrix optics), otherwise "classical formulas" are satisfied by the wrong rays
            par = [dict(b, kind='seidel-input') for b in oracles.check_paraxial(paraxcorr.psurfs(o), spec, paraxcorr.impl_queries(o))
                   if b.get('quantity', '').startswith(('chief', 'marginal', 'Lagrange'))]
        except Exception as e:   # noqa
            hist['errors'][type(e).__name__] = hist['errors'].get(type(e).__name__, 0) + 1
            continue
        hist['lenses'] += 1
        hist['with_mirror'] += int(any(r['refl'] for r in rows))
        hist['catalogue_glass'] += int(any(isinstance(s['material'], list) and s['material'][0] == 'glass' for s in spec['surfaces']))
        cases.append(dict(rows=rows, g=g, out=out, spec=spec, edits=edits, route=route,
                          par=[dict(b, kind='seidel-input') for b in lensgen.prescription_problems(spec, o, None, edits)][:2] + par[:3]))
    return cases, hist


def system_checks(ctx):
    import seidelcorr
    cases, hist = _cases(ctx, ctx.n(80, 1200))
    res = {'name': 'seidel-model-vs-implementation', 'n': 0, 'nontrivial': 0, 'histogram': hist, 'samples': [],
           'disagreements': []}
    try:
        bad, n = seidelcorr.run(cases, tol=1e-9, tag='C08')
    except RuntimeError as e:
        res['error'] = str(e)
        yield res
        return
    res['n'] = n
    seen = set()
    for ci, c in enumerate(cases):
        key = tuple((r['c'], r['n1'], r['ya']) for r in c['rows'])
        if c['g']['inv'] != 0 and key not in seen:
            seen.add(key)
            res['nontrivial'] += 1
        orc = c['par'] + seidelcorr.check_seidel(c['rows'], c['g'], c['out'])
        if ci in bad or orc:
            res['disagreements'].append({'spec': c['spec'], 'edits_after_first_query': c['edits'], 'model_agrees': ci not in bad, 'oracle': orc[:6],
                                         'violates_property': bool(orc)})
    if cases:
        c = cases[0]
        res['samples'].append({'rows': c['rows'][:2], 'glob': c['g'], 'TSC': c['out']['third_order'][0] if not isinstance(c['out']['third_order'], tuple) else None})
    yield res


def search(ctx, broken, disagreements):
    import seidelcorr
    cases, hist = _cases(ctx, ctx.n(150, 1500))
    out = []
    for c in cases:
        orc = c['par'] + seidelcorr.check_seidel(c['rows'], c['g'], c['out'])
        if orc:
            out.append({'spec': c['spec'], 'edits_after_first_query': c['edits'], 'oracle': orc[:6], 'violates_property': True})
    # report unlisted-looking ones first
    out.sort(key=lambda w: all(o.get('first_mirror') for o in w['oracle']))
    return out[:20] or None


def matches_finding(w, f):
    """seidel-mirrors: every complaint is a per-surface term of a lens that contains a reflecting surface"""
    if f['id'] != 'seidel-mirrors':
        return False
    orc = w.get('oracle') or []
    if not orc:
        return False
    for o in orc:
        if o.get('kind') != 'seidel':
            return False
        if o.get('first_mirror') is None:      # only lenses that contain a reflecting surface
            return False
    return True


MIRROR_REPLAY = {
    'object_thickness': float('inf'),
    'surfaces': [{'type': 'standard', 'radius': -100.0, 'thickness': -45.0, 'material': 'mirror', 'is_stop': True}],
    'aperture': ['EPD', 10.0], 'field_type': 'angle', 'fields': [[0.0, 0.0, 0.0, 0.0], [2.0, 0.0, 0.0, 0.0]],
    'wavelengths': [[0.55, True]], 'telecentric': False}


def replay_finding(ctx, f):
    import lensgen, seidelcorr, warnings
    warnings.simplefilter('ignore')
    if f['id'] != 'seidel-mirrors':
        return None
    o = lensgen.build(MIRROR_REPLAY)
    rows, g, out = seidelcorr.gather(o)
    orc = seidelcorr.check_seidel(rows, g, out)
    return any(x.get('kind') == 'seidel' and x.get('first_mirror') for x in orc)


def broken_explained(b, known, witnesses):
    return False

"""C16 - ray intensity is never created and is removed exactly as specified."""
import math
from props.common import BASE_TRUSTED

PROP = 'C16'
KERNELS = ['rr_clip', 'radial_clip', 'propagate', 'coat_transmit', 'coat_reflect',
           'plumb_trace_real', 'plumb_interact', 'plumb_surface_trace', 'plumb_localize', 'plumb_globalize', 'plumb_coat_interact', 'plumb_group_trace', 'plumb_geom_localize', 'plumb_geom_globalize']
THEOREMS = ['C16_clip_zero_or_same', 'C16_radial_clip_spec', 'C16_absorb_factor', 'C16_absorb_factor_bounds',
            'C16_coating_factor', 'C16_surface_intensity', 'C16_surface_intensity_monotone',
            'C16_intensity_path_invariant', 'C16_clipped_stays_zero',
            'C16_surface_intensity_exact', 'C16_surf_factor_def', 'C16_lossless_surface_keeps_intensity',
            'C16_unclipped_transparent_surface', 'C16_outside_aperture_zero_onward', 'C16_inside_aperture_not_clipped',
            'C16_intensity_path_product', 'C16_final_intensity_is_product', 'C16_factors_one_per_surface',
            'C16_lossless_path_keeps_intensity', 'C16_factor_examples',
            'C16_trace_surface_is_regenerated_plumbing', 'C16_trace_is_regenerated_plumbing', 'C16_frame_change_is_regenerated_plumbing', 'C16_repo_lists_def']
COQ_TARGETS = ['Model/Trace.vo']
TRUSTED_BASE = BASE_TRUSTED + [
    'hand model coq/Model/Trace.v (order of propagate/absorb, clip, interact, coating inside Surface._trace_real): proved equal to the execution of the plumbing lists regenerated from the source (tools/py2coq_plumb.py, Gen/Plumbing.v, Lemmas/L_Plumb.v) and tied by per-surface correspondence of the recorded intensities', 'tools/py2coq_plumb.py: statement-pattern table (each statement of _trace_real / _interact / localize / globalize / coating interact / group trace must match one known form exactly; anything else is a translation failure) and the meaning given to each step in coq/Model/Plumb.v',
    'the polarized path (PolarizedRays.update_intensity) is outside the model: oracle only',
]
RULE = ('seeded lenses with radial apertures (with/without obscuration), absorbing ideal media (k>0) and catalogue glasses, simple coatings, mirrors; '
        'rays incl. ones that miss apertures; recorded per-surface intensities compared with the Coq model and with an independent recomputation; '
        'non-trivial = ray that loses intensity somewhere (clip, absorption or coating)')
PARTIAL = ['polarized rays: update_intensity overwrites the intensity (known finding polarized-intensity-overwrite); not modelled']


def kernel_cases(ctx):
    g = ctx.gen
    n = ctx.n(300, 3000)
    yield 'rr_clip', [[bool(i % 2), g.uni(0, 1)] for i in range(n)], {}
    rc = []
    for i in range(n):
        rmax = g.uni(1, 10)
        rc.append([g.uni(-12, 12), g.uni(-12, 12), rmax, g.r.choice([0.0, g.uni(0, 0.5) * rmax]), g.uni(0, 1)])
    yield 'radial_clip', rc, {'pyres': _clip_py(rc)}
    pr = []
    for i in range(n):
        d = g.unit3()
        pr.append([g.uni(-5, 60), g.uni(-10, 10), d[0], g.uni(-10, 10), d[1], g.uni(-10, 10), d[2],
                   g.r.choice([0.0, g.uni(0, 1e-5), g.uni(0, 1e-7)]), g.uni(0.4, 1.0), g.uni(0, 1)])
    yield 'propagate', pr, {'tol': 1e-12, 'pyres': _propagate_py(pr)}
    ct = [[g.uni(0, 1), g.uni(0, 1)] for _ in range(n)]
    yield 'coat_transmit', ct, {'scalars': ['self.transmittance']}
    yield 'coat_reflect', ct, {'scalars': ['self.reflectance']}


def _clip_py(cases):
    from optiland.rays import RealRays
    from optiland.physical_apertures import RadialAperture
    out = []
    for (x, y, rmax, rmin, i) in cases:
        try:
            r = RealRays(x, y, 0.0, 0.0, 0.0, 1.0, i, 0.55)
            RadialAperture(rmax, rmin).clip(r)
            out.append({'ok': [float(r.i[0]).hex()]})
        except Exception as e:   # noqa
            out.append({'err': type(e).__name__})
    return out


def _propagate_py(cases):
    import numpy as np
    from optiland.rays import RealRays
    from optiland.materials import IdealMaterial
    out = []
    for (t, x, L, y, M, z, N, k, w, i) in cases:
        try:
            r = RealRays(x, y, z, L, M, N, i, w)
            r.propagate(np.array([t]), IdealMaterial(1.5, k))
            out.append({'ok': [float(v[0]).hex() for v in (r.x, r.y, r.z, r.i)]})
        except Exception as e:   # noqa
            out.append({'err': type(e).__name__})
    return out


def _lens_cases(ctx, nl, rays_per):
    import random, warnings
    import lensgen, tracecorr
    warnings.simplefilter('ignore')
    rng = random.Random(ctx.seed * 19 + 6)
    cases = []
    hist = {'lenses': 0, 'apertures': 0, 'coatings': 0, 'absorbing': 0, 'mirrors': 0, 'errors': {}}
    for li in range(nl):
        spec = lensgen.gen_spec(rng, allow=['plane', 'standard', 'conic', 'even_asphere'], mirrors=(True if li % 4 == 1 else None))
        for s in spec['surfaces']:
            if s.get('material') == 'mirror' and rng.random() < 0.7:
                # coated mirrors, incl. a reflectance of exactly 0 or 1 with any transmittance
                s['coating'] = [rng.choice([0.0, 1.0, rng.uniform(0.0, 1.0)]), rng.choice([0.0, 0.0, 1.0, rng.uniform(0.0, 1.0)])]
                hist['coated_mirrors'] = hist.get('coated_mirrors', 0) + 1
                continue
            if rng.random() < 0.35:
                rmax = spec['aperture'][1] * rng.uniform(0.25, 0.9) if spec['aperture'][0] == 'EPD' else rng.uniform(1, 5)
                s['aperture'] = [rmax, rng.choice([0.0, rmax * rng.uniform(0.1, 0.4)])]
            if rng.random() < 0.3:
                # boundary values too: T or R exactly 0 / 1 (a reflectance of exactly 0 on a mirror removes everything)
                s['coating'] = [rng.choice([0.0, 1.0, rng.uniform(0.3, 1.0), rng.uniform(0.3, 1.0)]),
                                rng.choice([0.0, 0.0, 1.0, rng.uniform(0.0, 1.0), rng.uniform(0.0, 1.0)])]
            if isinstance(s['material'], list) and s['material'][0] == 'ideal' and rng.random() < 0.5:
                s['material'][2] = rng.uniform(0, 5e-6)
        if li % 5 == 3:
            # strong absorbers as thin films (metal / semiconductor / dye layers: k up to a few, nm to um thick) and
            # pure central obscurations (r_max = inf): regimes where an 'equivalent' rewrite under- or overflows
            for s in spec['surfaces'][:-1]:
                if isinstance(s['material'], list) and s['material'][0] == 'ideal' and rng.random() < 0.7:
                    s['material'][2] = 10 ** rng.uniform(-2.5, 0.6)
                    s['thickness'] = math.copysign(10 ** rng.uniform(-5.0, -2.5), s['thickness'])
                    hist['thin_strong_absorbers'] = hist.get('thin_strong_absorbers', 0) + 1
            for s in spec['surfaces']:
                if s.get('aperture') and s['aperture'][1] > 0 and rng.random() < 0.6:
                    s['aperture'] = [float('inf'), s['aperture'][1]]
                    hist['pure_obscurations'] = hist.get('pure_obscurations', 0) + 1
        if li % 3 == 2:
            # apertures on clearly decentred / tilted surfaces: the aperture belongs to the surface's own frame
            for s in spec['surfaces']:
                if s.get('aperture'):
                    s['dx'] = rng.uniform(-0.45, 0.45) * s['aperture'][0]
                    s['dy'] = rng.uniform(-0.45, 0.45) * s['aperture'][0]
                    s['rx'] = rng.uniform(-0.05, 0.05)
                    s['ry'] = rng.uniform(-0.05, 0.05)
                    hist['decentred_apertures'] = hist.get('decentred_apertures', 0) + 1
        if li % 5 == 2:
            # explicit ImageSurface object behind an absorbing image-space medium (immersed detector)
            last = spec['surfaces'][-1]
            if last.get('material') != 'mirror':
                last['material'] = ['ideal', rng.uniform(1.3, 1.6), 10 ** rng.uniform(-7.0, -5.5)]
                spec['image_object'] = True
                hist['image_surface_objects'] = hist.get('image_surface_objects', 0) + 1
        if li % 7 == 5:
            # absorbing medium whose refractive index is EXACTLY 1 (gas cell, absorbing object/image space): attenuation
            # depends on k and the path alone, not on n (own random stream: the main stream stays as it was)
            r2 = random.Random(ctx.seed * 19 + 7 + li)
            cand = [s for s in spec['surfaces'][:-1] if s.get('material') != 'mirror']
            for s in cand[:2]:
                s['material'] = ['ideal', 1.0, 10 ** r2.uniform(-7.0, -5.5)]
                hist['absorbing_index_exactly_one'] = hist.get('absorbing_index_exactly_one', 0) + 1
        route = {1: 'handbuilt', 3: 'roundtrip', 4: 'reuse'}.get(li % 6, 'direct')
        try:
            o = lensgen.build_via(spec, route, rng)
        except Exception as e:   # noqa
            hist['errors'][type(e).__name__] = hist['errors'].get(type(e).__name__, 0) + 1
            continue
        hist.setdefault('routes', {})[route] = hist.setdefault('routes', {}).get(route, 0) + 1
        wv = spec['wavelengths'][0][0]
        surfs = lensgen.model_surfaces(o, wv)
        # aperture radii and coating factors are taken from the PRESCRIPTION (what was asked for), not read back
        # from the objects the library built from it
        for ms, ss in zip(surfs, spec['surfaces']):
            if ss.get('coating'):
                ms['coat'] = (float(ss['coating'][0]), float(ss['coating'][1]))
                hist['coating_boundary'] = hist.get('coating_boundary', 0) + int(ss['coating'][0] in (0.0, 1.0) or ss['coating'][1] in (0.0, 1.0))
            if ss.get('aperture'):
                ms['aper'] = (float(ss['aperture'][0]), float(ss['aperture'][1]))
        hist['lenses'] += 1
        hist['apertures'] += sum(1 for s in surfs if s['aper'])
        hist['coatings'] += sum(1 for s in surfs if s['coat'])
        hist['absorbing'] += sum(1 for s in surfs if s['k1'] > 0)
        hist['mirrors'] += sum(1 for s in surfs if s['refl'])
        for ri in range(rays_per):
            rr, th = rng.choice([0.2, 0.6, 0.95, 1.0]), rng.uniform(0, 6.283)
            Hy = rng.choice([0.0, 1.0, rng.uniform(-1, 1)])
            if ri == 0:
                rr, Hy = 0.0, 0.0        # the axial ray lands exactly on every vertex (r = 0)
            r = tracecorr.impl_trace(o, 0.0, Hy, rr * math.cos(th), rr * math.sin(th), wv, records_check=True)
            if r[0] == 'records':
                hist.setdefault('record_shape_violations', []).append(
                    {'spec': spec, 'ray(Hy,Px,Py)': [Hy, rr * math.cos(th), rr * math.sin(th)],
                     'oracle': [{'kind': 'records-not-of-traced-rays',
                                 'detail': f'per-surface record arrays x y z L M N intensity opd have shapes {r[1]} for ONE ray through {r[2]} surfaces'}],
                     'violates_property': True})
                continue
            if r[0] == 'err':
                hist['errors'][r[1]] = hist['errors'].get(r[1], 0) + 1
                continue
            cases.append(dict(surfs=surfs, w=wv, launch=r[1][0], expect=r[1][1:], recs=r[1], spec=spec))
    return cases, hist


def _records_oracle(ctx, n):
    """'The per-surface intensities and those reported by analyses are those of the traced rays': bundles traced
    together (incl. bundles that a baffle blocks completely), the per-surface intensity matrix, and SpotDiagram's
    intensities, against the intensities carried by the rays object returned by an independent trace"""
    import random, warnings
    import numpy as np
    import lensgen
    from optiland.analysis import SpotDiagram
    warnings.simplefilter('ignore')
    rng = random.Random(ctx.seed * 29 + 11)
    out, nchk = [], 0
    for li in range(n):
        spec = lensgen.gen_spec(rng, nsurf=rng.choice([2, 3, 4]), allow=['plane', 'standard'], decenter=False, mirrors=False,
                                finite_object=False)
        epd = spec['aperture'][1] if spec['aperture'][0] == 'EPD' else 5.0
        spec['aperture'] = ['EPD', epd]
        spec['field_type'] = 'angle'
        spec['fields'] = [[0.0, 0.0, 0.0, 0.0], [rng.uniform(12.0, 25.0), 0.0, 0.0, 0.0]]
        # a baffle on the last surface: passes (part of) the axial bundle, blocks the oblique bundle wholly or partly
        spec['surfaces'][-1]['aperture'] = [epd * rng.uniform(0.2, 0.6), 0.0]
        if li % 3 == 0:
            spec['surfaces'][0]['coating'] = [rng.uniform(0.3, 0.9), 0.0]
        try:
            o = lensgen.build(spec)
            wv = spec['wavelengths'][0][0]
            nsurf = len(o.surface_group.surfaces)
            bad = []
            for (Hx, Hy) in ((0.0, 0.0), (0.0, 1.0)):
                rays = o.trace(Hx, Hy, wv, 3, 'hexapolar')
                final = np.array(rays.i, dtype=float)
                nr = final.size
                per = [np.array(sf.intensity, dtype=float) for sf in o.surface_group.surfaces]
                mat = np.array(o.surface_group.intensity)
                nchk += 1
                if mat.shape != (nsurf, nr):
                    bad.append({'kind': 'intensity-matrix-shape', 'detail': f'field Hy={Hy}: surface_group.intensity has shape {mat.shape}, '
                                f'{nsurf} surfaces x {nr} rays were traced ({int((final == 0).sum())} rays end with intensity 0)'})
                    continue
                if any(p.shape != (nr,) for p in per) or not np.array_equal(mat, np.array(per)):
                    bad.append({'kind': 'intensity-matrix-rows', 'detail': f'field Hy={Hy}: matrix rows differ from the surfaces\' own records'})
                if not np.array_equal(mat[-1], final):
                    bad.append({'kind': 'intensity-last-row', 'detail': f'field Hy={Hy}: last row sums to {float(mat[-1].sum())!r}, the rays carry {float(final.sum())!r}'})
                if np.any(np.diff(mat, axis=0) > 1e-15):
                    bad.append({'kind': 'intensity-increase', 'detail': f'field Hy={Hy}: a column of the matrix increases'})
            # analysis: SpotDiagram's intensities per field = intensities of an independent trace of that field
            sd = SpotDiagram(o, fields='all', wavelengths=[wv], num_rings=3)
            for fi, (Hx, Hy) in enumerate(o.fields.get_field_coords()):
                ref = np.array(o.trace(Hx, Hy, wv, 3, 'hexapolar').i, dtype=float)
                got = np.array(sd.data[fi][0][2], dtype=float)
                nchk += 1
                if got.shape != ref.shape or not np.allclose(got, ref, rtol=0, atol=1e-15):
                    bad.append({'kind': 'analysis-intensity', 'detail': f'SpotDiagram field {fi}: reports total intensity {float(np.sum(got))!r}, '
                                f'the traced rays carry {float(ref.sum())!r}'})
            # every other analysis that REPORTS intensities: RayFan (x fan and y fan separately) and EncircledEnergy;
            # the reference is an independent trace of exactly the rays the analysis documents
            from optiland.analysis import RayFan, EncircledEnergy
            npts = 9
            rf = RayFan(o, fields='all', wavelengths=[wv], num_points=npts)
            for (Hx, Hy) in o.fields.get_field_coords():
                d = rf.data[f'{(Hx, Hy)}'][f'{wv}']
                for axis, dist in (('x', 'line_x'), ('y', 'line_y')):
                    ref = np.array(o.trace(Hx, Hy, wv, npts, dist).i, dtype=float)
                    got = np.array(d['intensity_' + axis], dtype=float)
                    nchk += 1
                    if got.shape != ref.shape or not np.allclose(got, ref, rtol=0, atol=1e-15):
                        bad.append({'kind': 'analysis-intensity', 'detail': f'RayFan field ({Hx}, {Hy}) intensity_{axis}: reports {got.tolist()!r}, '
                                    f'the traced {dist} fan carries {ref.tolist()!r}'})
            ee = EncircledEnergy(o, fields='all', wavelength=wv, num_rays=3, distribution='hexapolar', num_points=8)
            for fi, (Hx, Hy) in enumerate(o.fields.get_field_coords()):
                ref = np.array(o.trace(Hx, Hy, wv, 3, 'hexapolar').i, dtype=float)
                got = np.array(ee.data[fi][0][2], dtype=float)
                nchk += 1
                if got.shape != ref.shape or not np.allclose(got, ref, rtol=0, atol=1e-15):
                    bad.append({'kind': 'analysis-intensity', 'detail': f'EncircledEnergy field {fi}: reports total intensity {float(np.sum(got))!r}, '
                                f'the traced rays carry {float(ref.sum())!r}'})
        except Exception as e:   # noqa
            bad = [{'kind': 'records-oracle-exception', 'detail': repr(e)[:200]}]
        if bad:
            out.append({'spec': spec, 'oracle': bad[:4], 'violates_property': True})
    return out, nchk


def _polarized_oracle(ctx, n):
    """intensity must not be created on the polarized path either (implementation-level only)"""
    import random, warnings
    import numpy as np
    import lensgen
    from optiland.rays import PolarizationState
    warnings.simplefilter('ignore')
    rng = random.Random(ctx.seed * 23 + 7)
    out = []
    for li in range(n):
        spec = lensgen.gen_spec(rng, nsurf=rng.choice([2, 3, 4]), allow=['plane', 'standard'], decenter=False, mirrors=False)
        rmax = (spec['aperture'][1] if spec['aperture'][0] == 'EPD' else 4.0) * 0.3
        spec['surfaces'][-1]['aperture'] = [rmax, 0.0]
        try:
            o = lensgen.build(spec)
            o.set_polarization(PolarizationState(is_polarized=False))
            wv = spec['wavelengths'][0][0]
            rays = o.trace(0.0, 0.0, wv, num_rays=4, distribution='hexapolar')
            inten = o.surface_group.intensity
        except Exception as e:   # noqa
            continue
        per_surf = np.array(inten)
        # a ray that had zero intensity at some surface must end with zero; nothing may exceed 1
        zero_somewhere = (per_surf[:-1] == 0).any(axis=0)
        final = np.array(rays.i)
        if np.any(final[zero_somewhere] > 1e-12) or np.any(final > 1 + 1e-9):
            out.append({'spec': spec, 'oracle': [{'kind': 'polarized-intensity-resurrected',
                                                 'detail': f'{int(np.sum(final[zero_somewhere] > 1e-12))} clipped rays end with intensity > 0 (max {float(np.max(final)):.3g})'}],
                        'polarization': 'unpolarized', 'violates_property': True})
    return out


def _plumbing_result(ctx):
    """what tools/py2coq_plumb.py regenerated on this run (the theorems *_is_regenerated_plumbing are about these lists)"""
    pl = {k: m for k, m in (getattr(ctx, 'manifests', None) or {}).items() if isinstance(m, dict) and m.get('plumbing')}
    return {'name': 'plumbing-lists-regenerated-from-source (order and identity of the statements of _trace_real, _interact, '
                    'localize, globalize, coating interact, group trace)',
            'n': sum(len(m['steps']) for m in pl.values()), 'nontrivial': len(pl), 'samples': [],
            'histogram': {k: ' ; '.join(m['steps']) for k, m in sorted(pl.items())}, 'disagreements': []}


def system_checks(ctx):
    yield _plumbing_result(ctx)
    import tracecorr, oracles
    cases, hist = _lens_cases(ctx, ctx.n(40, 500), ctx.n(4, 8))
    res = {'name': 'intensity-model-vs-implementation', 'n': len(cases), 'histogram': hist, 'nontrivial': 0,
           'samples': [], 'disagreements': []}
    try:
        ok, raw = tracecorr.run(cases, tol=1e-9, tag='C16trace')
    except RuntimeError as e:
        res['error'] = str(e)
        yield res
        return
    seen = set()
    for c, good in zip(cases, ok):
        ints = [r[6] for r in c['recs']]
        if any(b < a for a, b in zip(ints, ints[1:])) and tuple(ints) not in seen:
            seen.add(tuple(ints))
            res['nontrivial'] += 1
        bad = oracles.check_intensity(c['surfs'], c['recs'], c['w'])
        if not good or bad:
            res['disagreements'].append({'spec': c['spec'], 'launch': c['launch'], 'model_agrees': bool(good),
                                         'oracle': bad[:4], 'violates_property': bool(bad)})
    if cases:
        res['samples'].append({'intensities_per_surface': [r[6] for r in cases[0]['recs']]})
    res['disagreements'] += hist.pop('record_shape_violations', [])[:3]
    yield res
    rec, nrec = _records_oracle(ctx, ctx.n(12, 150))
    yield {'name': 'records-and-analyses-are-those-of-the-traced-rays (bundles, fully blocked bundles, SpotDiagram, RayFan x/y, EncircledEnergy)', 'n': nrec,
           'nontrivial': nrec, 'samples': [], 'disagreements': rec[:3]}
    pol = _polarized_oracle(ctx, ctx.n(6, 60))
    yield {'name': 'polarized-path-oracle', 'n': ctx.n(6, 60), 'nontrivial': ctx.n(6, 60), 'samples': [],
           'disagreements': pol[:3]}


def search(ctx, broken, disagreements):
    import oracles
    cases, hist = _lens_cases(ctx, ctx.n(60, 600), 6)
    for w in hist.get('record_shape_violations', []):
        return w
    out = []
    for c in cases:
        bad = oracles.check_intensity(c['surfs'], c['recs'], c['w'])
        if bad:
            out.append({'spec': c['spec'], 'launch': c['launch'], 'oracle': bad[:4], 'violates_property': True})
    rec, _ = _records_oracle(ctx, ctx.n(20, 150))
    out += rec[:3]
    out.sort(key=lambda w: matches_finding(w, {'id': 'absorption-negative-distance'}))
    return out[:12] or None


def matches_finding(w, f):
    orc = w.get('oracle') or []
    if f['id'] == 'absorption-negative-distance':
        # every complaint sits on a segment that runs BACKWARDS inside an absorbing medium
        return bool(orc) and all(o.get('kind') in ('intensity-factor', 'intensity-increase', 'intensity-range')
                                 and o.get('backward_in_absorber') is True for o in orc)
    if f['id'] != 'polarized-intensity-overwrite':
        return False
    return bool(orc) and all(o.get('kind') == 'polarized-intensity-resurrected' for o in orc)


NEG_DIST_REPLAY = {
    'object_thickness': float('inf'),
    'surfaces': [{'type': 'standard', 'radius': float('inf'), 'thickness': 0.01, 'material': ['ideal', 1.5, 0.0035], 'is_stop': True},
                 {'type': 'standard', 'radius': -20.0, 'conic': -1.0, 'thickness': 30.0, 'material': 'air'}],
    'aperture': ['EPD', 6.0], 'field_type': 'angle', 'fields': [[0.0, 0.0, 0.0, 0.0]],
    'wavelengths': [[0.55, True]], 'telecentric': False}


def replay_finding(ctx, f):
    if f['id'] == 'absorption-negative-distance':
        import warnings
        import lensgen, tracecorr, oracles
        warnings.simplefilter('ignore')
        o = lensgen.build(NEG_DIST_REPLAY)
        r = tracecorr.impl_trace(o, 0.0, 0.0, 0.0, 0.7, 0.55)
        if r[0] != 'ok':
            return None
        bad = oracles.check_intensity(lensgen.model_surfaces(o, 0.55), r[1], 0.55)
        return any(b.get('backward_in_absorber') for b in bad)
    if f['id'] != 'polarized-intensity-overwrite':
        return None
    return bool(_polarized_oracle(ctx, 4))


def broken_explained(b, known, witnesses):
    return False

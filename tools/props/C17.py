"""C17 - Fresnel coefficients conserve energy; polarization elements obey their algebra."""
import math
import os

import vlib
from props.common import BASE_TRUSTED

PROP = 'C17'
KERNELS = ['jones_fresnel', 'jones_pol_h', 'jones_pol_v', 'jones_pol_l45', 'jones_pol_l135', 'jones_pol_rcp',
           'jones_pol_lcp', 'jones_diattenuator', 'jones_retarder', 'compute_aoi']
THEOREMS = ['C17_' + t for t in (
    'fresnel_transmit_kernel fresnel_reflect_kernel fresnel_energy_s fresnel_energy_p fresnel_reflectance_bounds '
    'brewster brewster_converse fresnel_normal_incidence retarder_kernel retarder_unitary retarder_retardance '
    'retarder_rotation_covariant polarizer_H_kernel polarizer_V_kernel polarizer_L45_kernel polarizer_L135_kernel '
    'polarizer_RCP_kernel polarizer_LCP_kernel projector_onto_props diattenuator_diagonal_partial frames_orthonormal '
    'uncoated_surface_isometry uncoated_surface_transverse uncoated_trace_isometry polstate_init_normalised '
    'launch_field_unit_transverse uncoated_trace_preserves_intensity unpolarized_is_mean trace_PP_chain '
    'near_parallel_surface_bound uncoated_trace_intensity_bounds uncoated_trace_intensity_within').split()]
TRUSTED_BASE = BASE_TRUSTED + [
    'translator extension tools/py2coq_cx.py (complex scalars / Nx3x3 complex matrices as pairs over Ops, coq/Num/Cx.v), '
    'validated on every run against each Jones*.calculate_matrix',
    'hand model coq/Model/M_C17.v of PolarizedRays.update/_get_3d_electric_field/update_intensity, PolarizationState, '
    'create_polarization (NumPy cross/stack/einsum glue), tied to the code by the correspondence checks of this module',
    'modelled, not verified: material.n(w) values are inputs (C18); launch intensity is 1 (RayGenerator uses np.ones_like)',
    'the theorems are over exact reals; the fallback-frame threshold |k0 x k1| < 1e-8 of PolarizedRays.update is mirrored by '
    'M_C17.par_tol (checked by unit cases just below/above it and by index-matched surfaces in the recorded traces)',
]
RULE = ('kernels: index pairs in [1,4], aoi in [0,pi/2) incl. total internal reflection, both reflect flags, angles/retardances '
        'in [-2pi,2pi], unit and non-unit normals; model: random unit k0,k1 incl. parallel/antiparallel/axial/degenerate, '
        'random complex P and J, six named states and random (Ex,Ey,phase); traces: generated lenses (1-5 surfaces, '
        'conics, mirrors, tilted, Fresnel-coated, index-matched, built directly / with hand-built Surface objects / in a reused Optic / through '
        'to_dict-from_dict; lenses whose media are ONE shared material object per medium (dummy / stop / image surfaces with the same object on '
        'both sides); lenses with physical apertures that clip part of the bundle (polarized vs unpolarized on the same rays); a seed-independent '
        'corpus with one case per class; plus layouts whose first bending surface is a mirror: fold / concave mirror first, '
        'mirror then Fresnel plate / lens, oblique and skew fields) recorded per surface and compared with an independent reference '
        '(launch basis from the direction copied at launch, own s-p-k frames, textbook Fresnel) for H, V, +-45, RCP, LCP, the stated '
        'random state and unpolarized light; non-trivial = finite ray with >= 1 surface')
PARTIAL = [
    'diattenuator: only the diagonal is proved to agree with R(theta) diag(t_max,t_min) R(-theta); the off-diagonal is refuted '
    '(Findings/F_C17.v, finding diattenuator-offdiag)',
    'the trace theorems assume the per-surface update calls form a chain (k0 of surface i+1 = k1 of surface i); this fails on the '
    'implementation for tilted surfaces (finding tilted-surface-frame).  Exact preservation (uncoated_trace_preserves_intensity) '
    'needs |k0 x k1| >= 1e-8 or = 0 at every surface; for the gap uncoated_trace_intensity_within gives (1 -+ 1e-8)^n',
    'quarter/half-wave constructors (super().__init__(pi/2 | pi, theta)) are checked by correspondence, not translated',
]
COQ_TARGETS = ['Model/M_C17.vo', 'Num/Cx.vo']

HERE = os.path.dirname(os.path.abspath(__file__))
TOOLS = os.path.dirname(HERE)
IMPL = os.path.join(TOOLS, 'c17_impl.py')
INT_TOL = 1e-9          # oracle tolerance on intensities / transversality
ILL = 1e-6              # 0 < |k0 x k1| < ILL: the cross product carries a relative rounding error > 1e-10
PAR_TOL = 1e-8          # threshold of PolarizedRays.update / M_C17.par_tol (fallback frame below it)


def fh(x):
    return vlib.fhex(x)


def v3(k):
    return '(' + ', '.join(fh(x) for x in k) + ')'


def m3(flat):
    return '(' + ', '.join(f'({fh(flat[2 * i])}, {fh(flat[2 * i + 1])})' for i in range(9)) + ')'


def flist(xs):
    return '[' + '; '.join(fh(x) for x in xs) + ']'


def st4(st):
    return '(' + ', '.join(fh(x) for x in st) + ')'


def impl(job):
    job = dict(job)
    job['tools'] = TOOLS
    return vlib.run_python(open(IMPL).read(), job)


def mk(man, d):
    return [d[i['path']] for i in man['inputs']]


# ---------------------------------------------------------------------------------------------
def kernel_cases(ctx):
    g = ctx.gen
    n = ctx.n(150, 1500)
    M = ctx.manifests
    if 'jones_fresnel' in M:
        cases = []
        for i in range(n):
            n1, n2 = g.uni(1, 4), g.uni(1, 4)
            if i % 11 == 0:
                n2 = n1
            aoi = g.uni(0, math.pi / 2 * 0.999)
            if i % 13 == 0:
                aoi = 0.0
            if i % 17 == 0:
                aoi = math.atan(n2 / n1)         # Brewster
            cases.append(mk(M['jones_fresnel'], {'reflect': bool(i % 2), 'aoi': aoi, 'rays.w': g.uni(0.4, 0.7),
                                                 'self.material_pre.n()': n1, 'self.material_post.n()': n2,
                                                 'rays.x': g.uni(-5, 5)}))
        yield 'jones_fresnel', cases, {'tol': 1e-12}
    for k in ('jones_pol_h', 'jones_pol_v', 'jones_pol_l45', 'jones_pol_l135', 'jones_pol_rcp', 'jones_pol_lcp'):
        if k in M:
            yield k, [mk(M[k], {'rays.x': g.uni(-5, 5)}) for _ in range(5)], {}
    if 'jones_diattenuator' in M:
        cases = []
        for i in range(n):
            th = g.uni(-2 * math.pi, 2 * math.pi) if i % 7 else g.r.choice([0.0, math.pi / 2, math.pi / 4])
            cases.append(mk(M['jones_diattenuator'], {'self.t_max': g.uni(0, 1), 'self.t_min': g.uni(0, 1), 'self.theta': th,
                                                      'rays.x': 0.5}))
        yield 'jones_diattenuator', cases, {'tol': 1e-12, 'scalars': ['self.t_max', 'self.t_min', 'self.theta']}
    if 'jones_retarder' in M:
        cases = []
        for i in range(n):
            th = g.uni(-2 * math.pi, 2 * math.pi) if i % 7 else g.r.choice([0.0, math.pi / 2, math.pi / 4])
            d = g.uni(-2 * math.pi, 2 * math.pi) if i % 5 else g.r.choice([math.pi / 2, math.pi, 0.0])
            cases.append(mk(M['jones_retarder'], {'self.retardance': d, 'self.theta': th, 'rays.x': 0.5}))
        yield 'jones_retarder', cases, {'tol': 1e-12, 'scalars': ['self.retardance', 'self.theta']}
    if 'compute_aoi' in M:
        cases = []
        for i in range(n):
            nn, d = g.unit3(), g.unit3()
            if i % 9 == 0:
                d = list(nn)                     # normal incidence (dot may exceed 1 by rounding: clip)
            if i % 10 == 1:
                d = [-x for x in nn]
            if i % 14 == 2:
                nn = [x * 1.0000001 for x in nn]
            cases.append(mk(M['compute_aoi'], {'nx': nn[0], 'ny': nn[1], 'nz': nn[2],
                                               'rays.L0': d[0], 'rays.M0': d[1], 'rays.N0': d[2]}))
        yield 'compute_aoi', cases, {'tol': 1e-7, 'plain_self': True}


# ---------------------------------------------------------------------------------------------
IMPORTS = 'From OV Require Import Cx Model.M_C17.'


def run_bools(tag, exprs, chunk=40):
    """exprs: list of Coq bool expressions.  returns (failing indices, error or None)"""
    bodies, starts = [], []
    for s in range(0, len(exprs), chunk):
        bodies.append('Eval vm_compute in (report [\n' + ';\n'.join(exprs[s:s + chunk]) + '\n]).\n')
        starts.append(s)
    if not bodies:
        return [], None
    try:
        res = vlib.run_cases(tag, IMPORTS, bodies)
    except Exception as e:              # the Coq side could not run: reported as an error of THIS obligation only
        return [], 'run_cases raised ' + repr(e)[:300]
    bad = []
    for s, r in zip(starts, res):
        if r[0] == 'error':
            return bad, r[1]
        bad += [s + i for i in r[2]]
        if r[1] > len(r[2]):
            bad.append(s + chunk - 1)
    return sorted(set(bad)), None


def classify(t):
    """property oracle on one recorded implementation trace.  returns list of violation dicts"""
    out = []
    if not t['finite'] or not t['surfs']:
        return out
    chain_broken = False
    near_par = False
    prev = t['klaunch']
    for s in t['surfs']:
        if max(abs(a - b) for a, b in zip(s['k0'], prev)) > 1e-12:
            chain_broken = True
        c = [s['k0'][1] * s['k1'][2] - s['k0'][2] * s['k1'][1], s['k0'][2] * s['k1'][0] - s['k0'][0] * s['k1'][2],
             s['k0'][0] * s['k1'][1] - s['k0'][1] * s['k1'][0]]
        mag = math.sqrt(sum(x * x for x in c))
        if 0 < mag < ILL:
            near_par = True
        if PAR_TOL * 0.999 <= mag < ILL:
            # resolvable in exact arithmetic but not in binary64 to the comparison tolerance (or on the branch boundary)
            t['_ill'] = True
        prev = s['k1']
    t['_chain_broken'], t['_near_par'] = chain_broken, near_par
    # a tilt (calls no longer chained) explains a non-transverse field but nothing else; a near-parallel pair of
    # directions (frame built from rounding noise) could explain loss of intensity and of transversality
    cause = 'near-parallel' if near_par else 'unknown'
    cause_t = 'tilted-frame' if (chain_broken and t['tilted']) else cause
    base = {'call': 'PolarizedRays.update', 'cause': cause, 'lens': t['lens'], 'ray': t['ray'], 'coated': t['coated'],
            'tilted': t['tilted'], 'layout': t.get('layout'), 'raw_state': t['raw'], 'violates_property': True}
    # a ray stopped by a physical aperture: what its intensity should be is property C16's business; here only the
    # clauses that do not depend on it are checked (transversality, launch field, unpolarized = mean of orthogonal states)
    clipped = bool(t.get('clipped'))
    if not t['coated'] and not clipped:
        if not abs(t['ipol'] - 1.0) <= INT_TOL:
            out.append(dict(base, clause='uncoated-intensity', observed=t['ipol'], expected=1.0))
    if not t['coated']:
        if not t['Edotk'] <= INT_TOL:
            # a near-parallel frame also destroys transversality; a broken chain alone (tilt) only does the latter
            out.append(dict(base, cause=cause_t, clause='field-transverse', observed=t['Edotk'], expected=0.0))
    # ---- against the independent reference (own launch basis from the direction copied at launch, own s-p-k frames,
    #      textbook Fresnel): the STATED state, not whatever the rays object remembers ----
    ill = bool(t.get('_ill'))
    if t.get('ref_launch_dir_err') is not None and not t['ref_launch_dir_err'] <= 1e-9:
        out.append(dict(base, cause='unknown', clause='launch-direction', observed=t['klaunch'], error=t['ref_launch_dir_err']))
    if t.get('ref_launch_field_err') is not None and not t['ref_launch_field_err'] <= INT_TOL:
        out.append(dict(base, cause='unknown', clause='launch-field', observed=t['ref_launch_field_err'], expected=0.0,
                        launch_requested=t['klaunch'], launch_stored_on_rays=t['klaunch_stored'], layout=t.get('layout')))
    if t.get('ref_int_implP') and not clipped:
        for nm, v in t['ref_int_implP'].items():
            ob = t['impl_int'][nm]
            ex = v * (t['i0'] if nm == 'unpolarized' else 1.0)
            if not abs(ob - ex) <= INT_TOL * (1 + abs(ex)):
                out.append(dict(base, cause='unknown', clause='stated-state-intensity', state=nm, observed=ob, expected=ex,
                                layout=t.get('layout'), Hx=t.get('Hx'), Hy=t.get('Hy')))
                break
    if t.get('ref_int') and not ill and not clipped:
        for nm, v in t['ref_int'].items():
            ob = t['impl_int'][nm]
            ex = v * (t['i0'] if nm == 'unpolarized' else 1.0)
            if not abs(ob - ex) <= 1e-8 * (1 + abs(ex)):
                out.append(dict(base, cause=cause, clause='independent-fresnel-intensity', state=nm, observed=ob, expected=ex,
                                layout=t.get('layout'), Hx=t.get('Hx'), Hy=t.get('Hy')))
                break
    if t.get('ref_Edotk_surf') and not max(t['ref_Edotk_surf']) <= INT_TOL:
        out.append(dict(base, cause=cause_t, clause='field-transverse', at_surface=t['ref_Edotk_surf'].index(max(t['ref_Edotk_surf'])) + 1,
                        observed=max(t['ref_Edotk_surf']), expected=0.0))
    for a, b in (('H', 'V'), ('L+45', 'L-45'), ('RCP', 'LCP'), ('r1', 'r2'), ('c1', 'c2')):
        mean = t['i0'] * (t['ints'][a] + t['ints'][b]) / 2
        if not abs(t['iunpol'] - mean) <= INT_TOL * (1 + abs(mean)):
            out.append(dict(base, cause='unknown', clause='unpolarized-mean',
                            pair=[a, b], observed=t['iunpol'], expected=mean))
    for w in out:                      # the prescription last: the head of the witness says what failed
        w['Hx'], w['Hy'] = t.get('Hx'), t.get('Hy')
        w['spec'] = t['spec']
    return out


def update_oracle(cases):
    """an uncoated surface matrix (P = identity) is orthogonal and carries k0 to k1"""
    out, seen = [], set()
    for c in cases:
        if c.get('orth_err') is not None and not c['orth_err'] <= 1e-7:
            cr = [c['k0'][1] * c['k1'][2] - c['k0'][2] * c['k1'][1], c['k0'][2] * c['k1'][0] - c['k0'][0] * c['k1'][2],
                  c['k0'][0] * c['k1'][1] - c['k0'][1] * c['k1'][0]]
            mag = math.sqrt(sum(x * x for x in cr))
            cause = 'near-parallel' if 0 < mag < ILL else 'unknown'
            if (cause, c['kind']) not in seen:
                seen.add((cause, c['kind']))
                out.append({'call': 'PolarizedRays.update', 'cause': cause, 'clause': 'uncoated-intensity',
                            'kind': c['kind'], 'k0': c['k0'], 'k1': c['k1'], 'observed': c['orth_err'],
                            'expected': 0.0, 'violates_property': True})
    return out


def field_oracle(cases):
    """update_intensity on an arbitrary COMPLEX accumulated matrix: |P E|^2 of the stated state, and
    unpolarized = i0 * mean over any orthogonal pair (H/V, RCP/LCP, a random elliptical pair)"""
    out, seen = [], set()
    cur = None

    def add(w):
        key = (w['clause'], w.get('pair'))
        if key not in seen:
            seen.add(key)
            out.append(dict(w, k=cur['k'], i0=cur['i0'], P=cur['P']))   # the inputs last: the head says what failed
    for c in cases:
        cur = c
        if 'pairs' not in c:
            continue
        base = {'call': 'PolarizedRays.update_intensity', 'cause': 'unknown', 'violates_property': True}
        if not abs(c['ipol'] - c['ref_pol']) <= INT_TOL * (1 + abs(c['ref_pol'])):
            add(dict(base, clause='stated-state-intensity', state=c['state'], observed=c['ipol'], expected=c['ref_pol']))
        if not abs(c['iunpol'] - c['ref_unpol']) <= INT_TOL * (1 + abs(c['ref_unpol'])):
            add(dict(base, clause='stated-state-intensity', state='unpolarized', pair='unpolarized', observed=c['iunpol'],
                     expected=c['ref_unpol']))
        for lab, (ia, ib) in c['pairs'].items():
            mean = c['i0'] * (ia + ib) / 2
            if not abs(c['iunpol'] - mean) <= INT_TOL * (1 + abs(mean)):
                add(dict(base, clause='unpolarized-mean', pair=lab, observed=c['iunpol'], expected=mean))
    return out


def trace_witnesses(traces):
    wit, seen = [], set()
    for t in traces:
        if 'skipped' in t:
            continue
        for w in classify(t):
            key = (w['cause'], w['clause'])
            if key not in seen:
                seen.add(key)
                wit.append(w)
    return wit


def system_checks(ctx):
    nu = ctx.n(24, 160)
    data = impl({'seed': ctx.seed, 'what': ['update', 'field', 'traces', 'oracles'], 'n_unit': nu,
                 'n_lens': ctx.n(14, 120), 'n_mirror': ctx.n(8, 48), 'n_element': ctx.n(6, 36), 'n_shared': ctx.n(3, 24), 'n_aperture': ctx.n(3, 24),
                 'n_oracle': ctx.n(120, 1500)})
    tol = fh(1e-11)

    # ---- PolarizedRays.update against pol_update ----
    ex, hist = [], {}
    for c in data['update']:
        J = 'None' if c['J'] is None else f'(Some {m3(c["J"])})'
        ex.append(f'close_list {tol} (m3_flat (O:=FOps) (pol_update (O:=FOps) {v3(c["k0"])} {v3(c["k1"])} {J} {m3(c["P"])})) {flist(c["out"])}')
        hist[c['kind']] = hist.get(c['kind'], 0) + 1
    bad, err = run_bools('C17upd', ex)
    res = {'name': 'PolarizedRays.update ~ M_C17.pol_update', 'n': len(ex),
           'nontrivial': sum(1 for c in data['update'] if all(math.isfinite(x) for x in c['out'])), 'histogram': hist,
           'samples': [{'k0': data['update'][0]['k0'], 'k1': data['update'][0]['k1']}], 'disagreements': []}
    if err:
        res['error'] = err
    for i in bad:
        c = data['update'][i]
        res['disagreements'].append({'case': {k: c[k] for k in ('kind', 'k0', 'k1')}, 'violates_property': False,
                                     'note': 'model and implementation disagree on the accumulated matrix'})
    yield res
    # the property itself on the same calls (implementation only; reported whether or not the Coq side ran)
    yield {'name': 'oracle: uncoated PolarizedRays.update is an isometry carrying k0 to k1', 'n': len(data['update']),
           'nontrivial': sum(1 for c in data['update'] if c.get('orth_err') is not None), 'histogram': {}, 'samples': [],
           'disagreements': update_oracle(data['update'])}

    # ---- launch field / intensities / PolarizationState ----
    ex = []
    for c in data['field']:
        if c['raw'] is not None:
            stt = f'(polstate_init (O:=FOps) {st4(c["raw"])})'
        else:
            stt = f'(match named_state (O:=FOps) "{c["name"]}"%string with Some s => polstate_init (O:=FOps) s | None => (nan, nan, nan, nan) end)'
        e = (f'(let st := {stt} in let \'(a, b, c, d) := st in '
             f'close_list {tol} [a; b; c; d] {flist(c["state"])} && '
             f'close_list {tol} (cx_flat (O:=FOps) (let \'(x, y, z) := field3d (O:=FOps) {v3(c["k"])} st in [x; y; z])) {flist(c["E0"])} && '
             f'close {tol} (intensity_pol (O:=FOps) {m3(c["P"])} {v3(c["k"])} st) {fh(c["ipol"])} && '
             f'close {tol} (intensity_unpol (O:=FOps) {m3(c["P"])} {v3(c["k"])} {fh(c["i0"])}) {fh(c["iunpol"])})')
        ex.append(e)
    for c in data['named']:
        if c.get('error') or not c.get('polarized'):
            ex.append(f'(match named_state (O:=FOps) "{c["name"]}"%string with None => true | Some _ => false end)')
        else:
            ex.append(f'(match named_state (O:=FOps) "{c["name"]}"%string with Some s => let \'(a, b, c, d) := polstate_init (O:=FOps) s in '
                      f'close_list {tol} [a; b; c; d] {flist(c["state"])} | None => false end)')
    for c in data['plates']:
        ok = 'true' if (c['q_is_retarder'] and c['h_is_retarder']) else 'false'
        ex.append(f'({ok} && same (pio2 (O:=FOps)) {fh(c["q"][0])} && same (pi_ (o:=FOps)) {fh(c["h"][0])} && '
                  f'same {fh(c["theta"])} {fh(c["q"][1])} && same {fh(c["theta"])} {fh(c["h"][1])})')
    bad, err = run_bools('C17fld', ex)
    nf = len(data['field'])
    res = {'name': 'launch field, update_intensity, PolarizationState, create_polarization, wave plates ~ M_C17', 'n': len(ex),
           'nontrivial': nf, 'histogram': {'field': nf, 'named': len(data['named']), 'plates': len(data['plates'])},
           'samples': [{'k': data['field'][0]['k'], 'state': data['field'][0]['state']}], 'disagreements': []}
    if err:
        res['error'] = err
    for i in bad:
        what = ('field', data['field'][i]) if i < nf else (('named', data['named'][i - nf]) if i < nf + len(data['named'])
                                                            else ('plate', data['plates'][i - nf - len(data['named'])]))
        res['disagreements'].append({'case': {'kind': what[0], **{k: v for k, v in what[1].items() if k != 'P'}},
                                     'violates_property': False})
    yield res
    yield {'name': 'oracle: update_intensity on complex accumulated matrices (stated state, unpolarized = mean of orthogonal pairs)',
           'n': 5 * nf, 'nontrivial': nf, 'histogram': {'complex P': nf}, 'samples': [],
           'disagreements': field_oracle(data['field'])}

    # ---- recorded traces: model on the recorded calls + the property oracle on the implementation ----
    traces = [t for t in data['traces'] if 'skipped' not in t]
    skipped = len(data['traces']) - len(traces)
    ex, idx, wit = [], [], []
    hist = {'coated': 0, 'uncoated': 0, 'tilted': 0, 'ill-conditioned(not compared)': 0, 'non-finite': 0, 'skipped-lens': skipped}
    for ti, t in enumerate(traces):
        v = classify(t)
        wit += v
        if not t['finite'] or not t['surfs']:
            hist['non-finite'] += 1
            continue
        hist['coated' if t['coated'] else 'uncoated'] += 1
        hist['tilted'] += 1 if t['tilted'] else 0
        lay = 'layout:' + t.get('layout', 'generic')
        hist[lay] = hist.get(lay, 0) + 1
        for key in ('route:' + t.get('route', 'direct'), 'stopped by a physical aperture' if t.get('clipped') else None,
                    'fixed corpus' if t.get('corpus') else None):
            if key:
                hist[key] = hist.get(key, 0) + 1
        if t.get('ref_int'):
            hist['independent reference compared'] = hist.get('independent reference compared', 0) + 1
        if t.get('matched'):
            hist['index-matched surface'] = hist.get('index-matched surface', 0) + 1
        if t['_near_par']:
            hist['near-parallel surface'] = hist.get('near-parallel surface', 0) + 1
        if t.get('_ill'):
            hist['ill-conditioned(not compared)'] += 1
            continue
        calls = '[' + '; '.join(f'({v3(s["k0"])}, {v3(s["k1"])}, ' + ('None' if s['J'] is None else f'Some {m3(s["J"])}') + ')'
                                for s in t['surfs']) + ']'
        e = (f'(let P := trace_PP (O:=FOps) {calls} (m3_id (O:=FOps)) in let st := polstate_init (O:=FOps) {st4(t["raw"])} in '
             f'close_list {fh(1e-8)} (m3_flat (O:=FOps) P) {flist(t["P"])} && '
             f'close {fh(1e-8)} (intensity_pol (O:=FOps) P {v3(t["klaunch"])} st) {fh(t["ipol"])} && '
             f'close {fh(1e-8)} (intensity_unpol (O:=FOps) P {v3(t["klaunch"])} {fh(t["i0"])}) {fh(t["iunpol"])})')
        ex.append(e)
        idx.append(ti)
    bad, err = run_bools('C17trc', ex, chunk=12)
    res = {'name': 'polarized ray traces: M_C17.trace_PP on the recorded update calls + property oracle', 'n': len(ex),
           'nontrivial': len(ex), 'histogram': hist,
           'samples': [{'lens': traces[idx[0]]['lens'], 'surfaces': len(traces[idx[0]]['surfs']), 'ipol': traces[idx[0]]['ipol']}] if idx else [],
           'disagreements': []}
    if err:
        res['error'] = err
    for i in bad:
        t = traces[idx[i]]
        res['disagreements'].append({'case': {'lens': t['lens'], 'ray': t['ray'], 'spec': t['spec']}, 'violates_property': False,
                                     'note': 'model and implementation disagree on the accumulated matrix / intensities'})
    yield res
    cplx = sum(1 for t in traces if t.get('complex_P', 0) > 1e-6)
    yield {'name': 'oracle: recorded traces against the independent reference (transversality, stated-state and Fresnel energy, '
                   'unpolarized = mean of orthogonal pairs)', 'n': len(traces), 'nontrivial': sum(1 for t in traces if t['finite']),
           'histogram': dict({k: v for k, v in hist.items() if k.startswith(('layout:', 'route:', 'stopped', 'fixed'))},
                             **{'complex accumulated matrix': cplx}),
           'samples': [], 'disagreements': trace_witnesses(traces)}

    # ---- the property as an oracle on the Jones classes ----
    o = data['oracles']
    res = {'name': 'numerical oracle on jones.py (energy, Brewster, normal incidence, projectors, unitarity, covariance)',
           'n': o['count'], 'nontrivial': o['count'], 'histogram': {}, 'samples': [], 'disagreements': []}
    seen = set()
    for f in o['fails']:
        key = (f['class'], f['clause'], str(f.get('entry')))
        res['histogram'][str(key)] = res['histogram'].get(str(key), 0) + 1
        if key not in seen:
            seen.add(key)
            res['disagreements'].append(dict(f, violates_property=True))
    yield res

    # ---- findings file (never gates) ----
    rc, out = vlib.sh(['timeout', '200', 'coqc', '-Q', vlib.COQ, 'OV', '-w', '-all', os.path.join(vlib.COQ, 'Findings', 'F_C17.v')],
                      cwd=vlib.COQ)
    ctx.notes.append('Findings/F_C17.v (diattenuator_rotation_refuted) ' + ('compiles' if rc == 0 else 'DOES NOT compile: ' + out[-300:]))


# ---------------------------------------------------------------------------------------------
def search(ctx, broken, disagreements):
    """the property stated directly on the implementation: Jones-class oracles + recorded traces, larger sweep"""
    data = impl({'seed': ctx.seed + 77, 'what': ['update', 'field', 'traces', 'oracles'], 'n_unit': ctx.n(48, 320),
                 'n_lens': ctx.n(30, 300), 'n_mirror': ctx.n(16, 96), 'n_element': ctx.n(12, 72), 'n_shared': ctx.n(6, 48), 'n_aperture': ctx.n(6, 48),
                 'n_oracle': ctx.n(400, 4000)})
    wit = []
    seen = set()
    for f in data['oracles']['fails']:
        key = (f['class'], f['clause'], str(f.get('entry')))
        if key not in seen:
            seen.add(key)
            wit.append(dict(f, violates_property=True))
    wit += update_oracle(data.get('update', [])) + field_oracle(data.get('field', [])) + trace_witnesses(data['traces'])
    # witnesses that no listed open finding explains come first
    try:
        known = vlib.load_known_findings(PROP)
    except Exception:
        known = []
    wit.sort(key=lambda w: any(matches_finding(w, f) for f in known))
    return wit or None


def matches_finding(w, f):
    m = f.get('match', {})
    if 'class' in m:
        return w.get('class') == m['class'] and w.get('clause') == m.get('clause') and w.get('entry') == m.get('entry')
    if 'cause' in m:
        if w.get('call') != m.get('call') or w.get('cause') != m['cause']:
            return False
        if m['cause'] == 'tilted-frame':      # a tilt only explains loss of transversality, nothing else
            return w.get('clause') == 'field-transverse' and bool(w.get('tilted'))
        if m['cause'] == 'near-parallel':
            return w.get('clause') in ('uncoated-intensity', 'field-transverse')
    return False


def _unclean(o):
    if o == 'inf':
        return float('inf')
    if isinstance(o, dict):
        return {k: _unclean(v) for k, v in o.items()}
    if isinstance(o, list):
        return [_unclean(v) for v in o]
    return o


def replay_finding(ctx, f):
    m = f['match']
    r = m.get('replay', {})
    if 'class' in m:
        d = impl({'seed': 0, 'what': ['replay_diattenuator'], **r})['replay_diattenuator']
        # entry (0,1): re at flat index 2
        return abs(d['impl'][2] - d['spec'][2]) > 1e-9
    if 'cause' in m:
        d = impl({'seed': 0, 'what': ['replay_trace'], **_unclean(r)})['replay_trace']
        if m['cause'] == 'near-parallel':
            return d['max_int_err'] > INT_TOL
        return d['max_Edotk'] > INT_TOL
    return None


def broken_explained(b, known, witnesses):
    return False

"""C11 - PSF, Strehl ratio and MTF are correctly normalised transforms of the pupil."""
import math
import random
import sys
import warnings

import numpy as np

import vlib
from props.common import BASE_TRUSTED

PROP = 'C11'
KERNELS = ['strehl', 'psf_units', 'mtf_units', 'mtf_fno']
THEOREMS = ['C11_psf_is_sqmod_dft', 'C11_psf_nonneg', 'C11_peak_bound', 'C11_unaberrated_peak_100',
            'C11_psf_le_100', 'C11_strehl_le_one_partial', 'C11_amp_sum', 'C11_parseval',
            'C11_psf_energy_aberration_independent', 'C11_mtf_bounds', 'C11_mtf_tan_bounds',
            'C11_autocorr_1d_wN', 'C11_mtf_le_diffraction_limit_1d',
            'C11_difflim_spec', 'C11_diff_limit_0', 'C11_diff_limit_1', 'C11_diff_limit_bounds',
            'C11_freq_axis_cutoff', 'C11_psf_units_cutoff', 'C11_working_fno', 'C11_strehl_kernel',
            'C11_geo_mtf_is_ft_of_lsf', 'C11_geo_mtf_bounds', 'C11_pad_size_even', 'C11_pad_size_odd',
            'C11_wN_prim_root']
COQ_TARGETS = ['Model/M_C11.vo', 'Lemmas/L_C11.vo', 'Lemmas/L_C11_Kernels.vo']
TRUSTED_BASE = BASE_TRUSTED + [
    'modelled, not verified: np.fft.fft2 is taken to be the DFT double sum with kernel exp(-2 pi i/N) and np.fft.fftshift '
    'the index rotation by N//2 (Model/M_C11.v dft2/unshift); validated on every run against the real FFTPSF/FFTMTF '
    'for grids 4..13 (direct O(N^4) sum evaluated in Coq)',
    'modelled, not verified: np.histogram (its counts and edges are inputs of geo_mtf), np.pad, np.max, np.mean '
    '(summation order differs from the model: compared with relative tolerance 2^-30)',
    'wavefront data (OPD in waves, intensity per pupil sample) are inputs of the PSF model; their correctness is C09',
    'paraxial FNO/XPD/EPD/magnification are inputs of the F-number kernels; their correctness is C01/C04',
]
RULE = ('kernel cases: seeded random PSF images (both paddings), paraxial data of both conjugates; system cases: '
        'cut-off/working F-number: both conjugates with object and/or image space in air or an immersion medium (n 1.2..1.7; '
        'fixed relays + lensgen.immerse), magnification from an independent y-nu matrix trace; '
        'routes/histories: fixed + generated prescriptions built direct / with ready-made Surface objects / in a reset() Optic that held '
        'another lens / through to_dict-from_dict / with an explicit ImageSurface / edited by public setters, cut-off, working F-number '
        'and PSF pitch against matrix optics on the ENTERED prescription, arrays against the direct build, repeated queries, argument forms; '
        'PSF normalisation: pupils of non-uniform amplitude (aperture away from the stop, vignetted off-axis field, obscuration, '
        'absorbing glass; synthetic apodised/partly-zero data) against |sum A e^{i phi}|^2/(sum A)^2; '
        'several fields at once: FFTMTF and GeometricMTF built with 1, 2, 3 and 4 fields (on-axis + comatic off-axis; stigmatic and '
        'spherical mirrors, a clipped mirror, singlets and generated lenses with a tilted/decentred surface incl. the exactly-axial field, '
        'generated lenses), each curve against |DFT| of its own FFTPSF / the intensity-weighted '
        'line spread of independently traced rays / the single-field object / the closed form; '
        'pupil sampling 4..8 (+11,21 for the mask), grid = sampling+0..5 (all parities), OPD from 0 to tens of waves '
        '(defocus/spherical/random), intensities uniform / apodised / partly zero, plus real lenses (generated, '
        'paraboloid, finite conjugates) traced by optiland; mask consistency for every sampling 16..64 (16..256 thorough); '
        'non-trivial = the real code returned a finite PSF/MTF with at least one non-zero phase or clipped sample')
PARTIAL = [
    'strehl_le_one: proved under the hypothesis norm = (sum |P|)^2; psf.py normalises by the number of non-zero samples, '
    'equal only when no in-disk sample has zero intensity (finding clipped-pupil-norm)',
    'MTF <= diffraction limit: proved for the 1-D transform (autocorrelation theorem + triangle inequality); the 2-D '
    'separable extension is validated numerically, not proved',
    'sampled FFT MTF equals (2/pi)(phi - cos phi sin phi) "to within sampling error": numerical; checked on every run (closed form '
    'evaluated in Coq against the real FFTMTF of a stigmatic paraboloid, tolerance 1/num_rays), not proved',
    'mtf_tan_bounds is proved for the tangential slice; the sagittal slice is the same code with the axes swapped (correspondence only)',
    'total energy is proved on the unshifted spectrum (fftshift is a permutation of pixels; not proved)',
    'padding: the theorems take the padded pupil as given; that pad2 only adds zero samples is checked by correspondence',
]

TOL = 2.0 ** -30
fh = vlib.fhex


def fl(xs):
    return '[' + '; '.join(fh(float(x)) for x in xs) + ']'


def fl2(xs):
    return '[' + '; '.join(fl(r) for r in xs) + ']'


def _quiet():
    warnings.simplefilter('ignore')
    np.seterr(all='ignore')


# ----------------------------------------------------------------------------------------------
# kernel cases
# ----------------------------------------------------------------------------------------------
def kernel_cases(ctx):
    g = ctx.gen
    n = ctx.n(60, 600)
    st = []
    for i in range(n):
        grid = g.r.randrange(4, 13)
        M = grid if i % 3 else max(2, grid - 1)
        img = [[g.uni(0, 100) for _ in range(M)] for _ in range(M)]
        st.append([img, grid])
    yield 'strehl', st, {}
    pu, fn = [], []
    for i in range(n * 2):
        fno = g.uni(1.2, 20)
        inf = bool(i % 2)
        xpd = g.uni(2, 30) * g.r.choice([-1, 1])
        epd = g.uni(2, 30)
        m = g.uni(-3, 3) if i % 7 else 0.0
        grid = g.r.choice([64, 128, 200, 256, 512, 1000, 1024, 2048, 333])
        nr = g.r.choice([16, 31, 32, 64, 100, 128, 256])
        lam = g.uni(0.35, 1.6)
        shape = [g.r.randrange(2, 300), g.r.randrange(2, 300)]
        pu.append([fno, inf, xpd, epd, m, grid, nr, [lam], shape])
        fn.append([fno, inf, xpd, epd, m])
    sc = ['self.optic.paraxial.FNO()', 'self.optic.paraxial.XPD()', 'self.optic.paraxial.EPD()',
          'self.optic.paraxial.magnification()']
    yield 'psf_units', pu, {'scalars': sc}
    yield 'mtf_fno', fn, {'scalars': sc}
    mu = []
    for i in range(n * 2):
        mu.append([g.r.choice([64, 100, 128, 256, 512, 1000, 1024, 2048, 77]), g.r.choice([16, 32, 33, 64, 128, 256]),
                   g.uni(0.35, 1.6), g.uni(1.2, 40)])
    yield 'mtf_units', mu, {'scalars': ['self.wavelength', 'self.FNO']}


# ----------------------------------------------------------------------------------------------
# real-code drivers
# ----------------------------------------------------------------------------------------------
def _dist_count(n):
    from optiland.distribution import UniformDistribution
    d = UniformDistribution()
    d.generate_points(n)
    return len(d.x)


def real_psf_from_data(n, grid, opd, inten, wavelength=0.55):
    """drive FFTPSF's own methods on given wavefront data (no ray trace)"""
    from optiland.psf import FFTPSF
    p = object.__new__(FFTPSF)
    p.num_rays = n
    p.grid_size = grid
    p.wavelengths = [wavelength]
    p.data = [[(np.array(opd, dtype=float), np.array(inten, dtype=float))]]
    try:
        p.pupils = p._generate_pupils()
        p.psf = p._compute_psf()
        return p, None
    except Exception as e:     # noqa
        return None, f'{type(e).__name__}: {str(e)[:120]}'


def paraboloid(fno=5.0, clip=None, defocus=0.0, wavelength=0.55, fields=(0.0,), conic=-1.0):
    """concave mirror, stop at the mirror: stigmatic on axis for conic=-1 (spherical aberration otherwise), comatic off axis;
    fields = y field angles in degrees"""
    from optiland.optic import Optic
    from optiland.physical_apertures import RadialAperture
    o = Optic()
    o.add_surface(index=0, radius=np.inf, thickness=np.inf)
    kw = {}
    if clip:
        kw['aperture'] = RadialAperture(r_max=clip, r_min=0.0)
    o.add_surface(index=1, radius=-200.0, conic=conic, thickness=-100.0 + defocus, material='mirror', is_stop=True, **kw)
    o.add_surface(index=2)
    o.set_aperture('EPD', 100.0 / fno)
    o.set_field_type('angle')
    for f in fields:
        o.add_field(y=f)
    o.add_wavelength(wavelength, is_primary=True)
    return o


def finite_singlet(obj=150.0, epd=6.0, img=None, obj_n=None, img_n=None):
    """biconvex singlet relaying a finite object; obj_n / img_n put the object / image space in an immersion medium"""
    from optiland.optic import Optic
    from optiland.materials import IdealMaterial
    o = Optic()
    okw = {'material': IdealMaterial(n=obj_n, k=0.0)} if obj_n else {}
    ikw = {'material': IdealMaterial(n=img_n, k=0.0)} if img_n else {}
    o.add_surface(index=0, radius=np.inf, thickness=obj, **okw)
    o.add_surface(index=1, radius=60.0, thickness=4.0, material=IdealMaterial(n=1.5, k=0.0), is_stop=True)
    o.add_surface(index=2, radius=-60.0, thickness=img if img else 100.0, **ikw)
    o.add_surface(index=3, **ikw)
    o.set_aperture('EPD', epd)
    o.set_field_type('object_height')
    o.add_field(y=0.0)
    o.add_wavelength(0.55, is_primary=True)
    if img is None:
        try:
            o.image_solve()
        except Exception:   # noqa
            pass
    return o


def asymmetric_singlet(rx=0.0, ry=0.0, dx=0.0, dy=0.0, fields=(0.0,), epd=8.0, which=2):
    """biconvex singlet at infinite conjugate whose surface `which` is tilted (rx, ry in radians) and/or decentred (dx, dy):
    not rotationally symmetric, so the axial field has coma/astigmatism and its x and y line spreads differ"""
    from optiland.optic import Optic
    from optiland.materials import IdealMaterial
    o = Optic()
    o.add_surface(index=0, radius=np.inf, thickness=np.inf)
    k1 = dict(rx=rx, ry=ry, dx=dx, dy=dy) if which == 1 else {}
    k2 = dict(rx=rx, ry=ry, dx=dx, dy=dy) if which == 2 else {}
    o.add_surface(index=1, radius=50.0, thickness=5.0, material=IdealMaterial(n=1.6, k=0.0), is_stop=True, **k1)
    o.add_surface(index=2, radius=-50.0, thickness=40.0, **k2)
    o.add_surface(index=3)
    o.set_aperture('EPD', epd)
    o.set_field_type('angle')
    for f in fields:
        o.add_field(y=f)
    o.add_wavelength(0.55, is_primary=True)
    return o


def apodised_singlet(kind, fields=(0.0,), epd=10.0):
    """pupils whose amplitude is NOT uniform: 'rear-aperture' = aperture smaller than the beam on a surface away from the stop
    (clips on axis, vignettes off axis), 'obscuration' = central obscuration away from the stop, 'absorbing' = absorbing glass
    (transmission falls with the glass path, i.e. varies smoothly over the pupil), 'absorbing-clipped' = both"""
    from optiland.optic import Optic
    from optiland.materials import IdealMaterial
    from optiland.physical_apertures import RadialAperture
    o = Optic()
    o.add_surface(index=0, radius=np.inf, thickness=np.inf)
    k = 6e-5 if 'absorbing' in kind else 0.0
    kw = {}
    if kind in ('rear-aperture', 'absorbing-clipped'):
        kw['aperture'] = RadialAperture(r_max=3.6, r_min=0.0)
    if kind == 'obscuration':
        kw['aperture'] = RadialAperture(r_max=50.0, r_min=1.7)
    o.add_surface(index=1, radius=np.inf, thickness=6.0, is_stop=True)
    o.add_surface(index=2, radius=70.0, thickness=7.0, material=IdealMaterial(n=1.55, k=k))
    o.add_surface(index=3, radius=-70.0, thickness=62.0, **kw)
    o.add_surface(index=4)
    o.set_aperture('EPD', epd)
    o.set_field_type('angle')
    for f in fields:
        o.add_field(y=f)
    o.add_wavelength(0.55, is_primary=True)
    return o


def independent_magnification(o, w):
    """lateral magnification m = n u / (n' u') from a y-nu matrix trace of an axial ray through the prescription
    (vertex curvatures, vertex separations, indices at wavelength w); does not call optiland.paraxial.
    returns (m, n_object, n_image) or None when the lens has a surface this trace does not model"""
    ss = o.surface_group.surfaces
    n = float(np.ravel(ss[0].material_post.n(w))[0])
    n0 = n
    y, u = 0.0, 0.01
    u0 = u
    z = float(np.ravel(ss[0].geometry.cs.z)[0])
    for s_ in ss[1:-1]:
        cs = s_.geometry.cs
        if any(abs(float(np.ravel(getattr(cs, a))[0])) > 0 for a in ('x', 'y', 'rx', 'ry')):
            return None
        zk = float(np.ravel(cs.z)[0])
        y += u * (zk - z)
        z = zk
        R = float(getattr(s_.geometry, 'radius', np.inf))
        c = 0.0 if not math.isfinite(R) else 1.0 / R
        n2 = float(np.ravel(s_.material_post.n(w))[0])
        if s_.is_reflective:
            n2 = -n
        u = (n * u - y * c * (n2 - n)) / n2
        n = n2
    if u == 0 or not math.isfinite(u):
        return None
    return n0 * u0 / (n * u), n0, abs(n)


def media_class(o):
    """input class of a lens for the cut-off clause: conjugate x which of object/image space is not air"""
    w = o.primary_wavelength
    ss = o.surface_group.surfaces
    n0 = float(np.ravel(ss[0].material_post.n(w))[0])
    ni = float(np.ravel(ss[-1].material_post.n(w))[0])
    conj = 'infinite' if o.object_surface.is_infinite else 'finite'
    med = {(False, False): 'air', (True, False): 'object-immersed', (False, True): 'image-immersed',
           (True, True): 'both-immersed'}[(abs(n0 - 1) > 1e-9, abs(ni - 1) > 1e-9)]
    return conj + '/' + med


def immersed_lenses(rng, k):
    """finite-conjugate lenses whose object and/or image space is an immersion medium (index 1.2..1.7): two fixed relays
    (every class is present whatever the seed) plus k generated prescriptions (lensgen.gen_spec + lensgen.immerse)"""
    import lensgen
    out = [('relay-object-immersed', finite_singlet(obj=260.0, epd=5.0, obj_n=1.45)),
           ('relay-image-in-water', finite_singlet(obj=400.0, epd=5.0, img_n=1.336)),
           ('relay-both-immersed', finite_singlet(obj=400.0, epd=5.0, obj_n=1.40, img_n=1.336))]
    tries = 0
    while len(out) < k + 3 and tries < 6 * k + 10:
        tries += 1
        spec = lensgen.gen_spec(rng, nsurf=rng.choice([1, 2, 3, 4]), allow=['plane', 'standard', 'conic'], finite_object=True,
                                mirrors=False, decenter=False)
        lensgen.immerse(spec, rng)
        try:
            out.append((f'immersed{tries}', lensgen.build(spec)))
        except Exception:    # noqa
            continue
    return out


def oracle_psf(n, grid, opd, inten, p):
    """property clauses on one real FFTPSF result; returns a witness dict or None"""
    psf = p.psf
    opd = np.asarray(opd, dtype=float)
    inten = np.asarray(inten, dtype=float)
    base = {'site': 'FFTPSF', 'num_rays': int(n), 'grid_size': int(grid), 'shape': list(psf.shape),
            'zero_intensity_samples': int((inten == 0).sum()), 'samples': int(len(inten))}
    if psf.shape != (grid, grid):
        kind = 'pad-parity' if ((grid - n) % 2 == 1 and psf.shape == (grid - 1, grid - 1)) else 'psf-shape'
        return dict(base, kind=kind, strehl=float(p.strehl_ratio()), peak_at=[int(v) for v in np.unravel_index(np.argmax(psf), psf.shape)])
    if not np.all(np.isfinite(psf)):
        if np.all(inten == 0) or not np.all(np.isfinite(opd)):
            return None         # no light reaches the image / failed rays: outside the quantifier
        return dict(base, kind='psf-not-finite')
    if psf.min() < 0:
        return dict(base, kind='psf-negative', min=float(psf.min()))
    s = float(p.strehl_ratio())
    if s > 1 + 1e-9:
        return dict(base, kind='strehl-gt-1', strehl=s)
    if np.all(opd == 0) and np.all(inten == inten[0]) and inten[0] != 0:
        if abs(s - 1) > 1e-9 or abs(psf.max() - 100) > 1e-7:
            return dict(base, kind='unaberrated-peak-not-100', strehl=s, peak=float(psf.max()))
    # every pixel, on the REQUESTED grid: 100 |DFT_g(P)|^2 / (sum |P|)^2 with the DFT written out as a matrix product (no np.fft),
    # the pupil rebuilt here from the wavefront data (row-major samples inside the unit circle), zero frequency at pixel g//2
    if grid <= 128 and np.all(np.isfinite(opd)) and np.all(np.isfinite(inten)) and inten.sum() > 0:
        xs_ = np.linspace(-1, 1, n)
        X_, Y_ = np.meshgrid(xs_, xs_)
        msk = (X_ ** 2 + Y_ ** 2) <= 1
        if int(msk.sum()) == len(inten):
            P_ = np.zeros((n, n), dtype=complex)
            P_[msk] = inten * np.exp(2j * np.pi * opd)
            k_ = np.arange(grid)
            Wm = np.exp(-2j * np.pi * np.outer(k_, np.arange(n)) / grid)          # zero padding = only the first n columns matter
            D_ = np.abs(Wm @ P_ @ Wm.T) ** 2 / inten.sum() ** 2 * 100
            ix = (k_ - grid // 2) % grid
            D_ = D_[np.ix_(ix, ix)]
            dev = float(np.max(np.abs(psf - D_)))
            if dev > 1e-7 * (1 + float(D_.max())):
                i_, j_ = np.unravel_index(int(np.argmax(np.abs(psf - D_))), psf.shape)
                return dict(base, kind='psf-vs-direct-dft', site='FFTPSF._compute_psf', max_abs_diff=dev, at=[int(i_), int(j_)],
                            observed=float(psf[i_, j_]), expected=float(D_[i_, j_]), energy=float(psf.sum()), energy_expected=float(D_.sum()),
                            centre_agrees=bool(abs(psf[grid // 2, grid // 2] - D_[grid // 2, grid // 2]) <= 1e-7 * (1 + D_.max())))
    # normalisation: with pupil amplitudes A_j (the per-sample weights the wavefront data carry) and phases 2 pi opd_j the centre
    # pixel is 100 |sum A e^{i phi}|^2 / (sum A)^2 -- with A, not A^2 -- and the unaberrated pupil of the same A peaks at 100
    if np.all(np.isfinite(opd)) and np.all(np.isfinite(inten)) and inten.sum() > 0 and np.all(inten >= 0):
        expect = float(abs(np.sum(inten * np.exp(2j * np.pi * opd))) ** 2 / inten.sum() ** 2)
        wrong = float(abs(np.sum(inten * np.exp(2j * np.pi * opd))) ** 2 * len(inten) ** 2 / (inten.sum() ** 2 * np.sum((inten / inten.mean()) ** 2) ** 2))
        if abs(s - expect) > 1e-9 * (1 + expect):
            return dict(base, kind='strehl-vs-independent', site='FFTPSF._get_normalization', strehl=s, expected=expect,
                        uniform_intensity=bool(np.all(inten == inten[0])), equals_amplitude_squared_normalisation=bool(abs(s - wrong) <= 1e-9 * (1 + wrong)),
                        peak=float(psf.max()))
        if np.all(opd == 0) and abs(psf.max() - 100) > 1e-7:
            return dict(base, kind='unaberrated-peak-not-100', strehl=s, peak=float(psf.max()),
                        uniform_intensity=bool(np.all(inten == inten[0])))
    return None


# ----------------------------------------------------------------------------------------------
# system checks
# ----------------------------------------------------------------------------------------------
def _opd_profile(r, xs_n, kind, K):
    x = np.linspace(-1, 1, xs_n)
    X, Y = np.meshgrid(x, x)
    m = (X ** 2 + Y ** 2) <= 1
    R2 = (X ** 2 + Y ** 2)[m]
    if len(R2) != K:
        R2 = np.resize(R2, K)
    if kind == 'zero':
        return np.zeros(K)
    if kind == 'defocus':
        return r.uniform(-30, 30) * R2
    if kind == 'spherical':
        return r.uniform(-20, 20) * R2 ** 2 + r.uniform(-3, 3) * R2
    if kind == 'small':
        return np.array([r.uniform(-0.05, 0.05) for _ in range(K)])
    return np.array([r.uniform(-40, 40) for _ in range(K)])


def check_psf_pipeline(ctx):
    _quiet()
    r = ctx.gen.r
    cases = []
    nsyn = ctx.n(14, 90)
    for i in range(nsyn):
        n = r.choice([4, 5, 6, 7, 8])
        grid = n + r.choice([0, 1, 2, 3, 4, 5])
        K = _dist_count(n)
        ik = r.choice(['ones', 'ones', 'apod', 'zeros'])
        if ik == 'ones':
            inten = np.ones(K) * r.choice([1.0, 0.37])
        elif ik == 'apod':
            inten = np.array([r.uniform(0.2, 1.0) for _ in range(K)])
        else:
            inten = np.array([r.choice([1.0, 1.0, 0.0]) for _ in range(K)])
            if not inten.any():
                inten[0] = 1.0
        kinds = r.sample(['zero', 'defocus', 'spherical', 'small', 'random'], 2)
        for k in kinds:      # the two members of a pair share amplitudes: energy clause
            cases.append({'src': 'synthetic', 'n': n, 'grid': grid, 'opd': _opd_profile(r, n, k, K), 'inten': inten,
                          'pair': i, 'opd_kind': k, 'inten_kind': ik})
    # the mask defect: samplings where sqrt(x^2+y^2)<=1 and x^2+y^2<=1 select different sample counts
    for n in (11, 21):
        K = _dist_count(n)
        cases.append({'src': 'synthetic', 'n': n, 'grid': n + 1, 'opd': np.zeros(K), 'inten': np.ones(K),
                      'pair': None, 'opd_kind': 'zero', 'inten_kind': 'ones'})
    # real lenses traced by optiland
    import lensgen
    from optiland.psf import FFTPSF
    lenses = [('paraboloid', paraboloid()), ('paraboloid-defocus', paraboloid(defocus=0.02)),
              ('paraboloid-clipped', paraboloid(clip=7.0)), ('finite-singlet', finite_singlet())]
    lr = random.Random(ctx.seed + 11)
    for t in range(ctx.n(4, 30)):
        try:
            lenses.append((f'gen{t}', lensgen.build(lensgen.simple_spec(lr, n=lr.choice([1, 2, 3, 4])))))
        except Exception:   # noqa
            pass
    for name, o in lenses:
        n = r.choice([5, 6, 7, 8])
        grid = n + r.choice([0, 2, 3, 4])
        try:
            fld = o.fields.get_field_coords()[-1]
            p = FFTPSF(o, fld, o.primary_wavelength, num_rays=n, grid_size=grid)
        except Exception as e:   # noqa
            ctx.notes.append(f'psf_pipeline: FFTPSF on lens {name} raised {type(e).__name__} (skipped)')
            continue
        opd, inten = p.data[0][0]
        if not (np.all(np.isfinite(opd)) and np.all(np.isfinite(inten)) and np.any(inten != 0)):
            continue
        cases.append({'src': 'lens:' + name, 'n': n, 'grid': grid, 'opd': np.array(opd, dtype=float),
                      'inten': np.array(inten, dtype=float), 'pair': None, 'real': p,
                      'opd_kind': 'traced', 'inten_kind': 'traced'})
    # run the real code, build the Coq side: 8 booleans per case (see Model psf_variants)
    lines = []
    for c in cases:
        p, err = real_psf_from_data(c['n'], c['grid'], c['opd'], c['inten'])
        c['p'], c['err'] = p, err
        if 'real' in c and p is not None:
            # the constructor must have produced exactly what its methods produce on its own data
            c['ctor_same'] = bool(c['real'].psf.shape == p.psf.shape and np.array_equal(c['real'].psf, p.psf, equal_nan=True))
        xs = np.linspace(-1, 1, c['n'])
        call = f'psf_variants (O:=FOps) {c["grid"]}%Z {fl(xs)} {fl(c["opd"])} {fl(c["inten"])}'
        if p is None:
            lines.append(f'(map (fun r => match r with None => true | Some _ => false end) ({call}))')
        else:
            lines.append(f'(let py := {fl(p.psf.ravel())} in map (fun r => match r with None => false | Some r => '
                         f'(Nat.eqb (List.length r) {p.psf.shape[0]}) && close_list {fh(TOL)} (List.concat r) py end) ({call}))')
    chunk = 1      # 8 booleans per file: report lists at most 10 failing indices
    bodies = ['Eval vm_compute in (report (List.concat [\n' + ';\n'.join(lines[s:s + chunk]) + '\n])).\n'
              for s in range(0, len(lines), chunk)]
    res = vlib.run_cases('c11psf', 'From OV Require Import Model.M_C11.', bodies)
    ok = [True] * (8 * len(lines))
    for bi, rr in enumerate(res):
        if rr[0] == 'error':
            return {'name': 'psf_pipeline', 'n': 0, 'error': rr[1]}
        if rr[1] > len(rr[2]):
            # report lists the first 10 failing indices only: re-run this shard one variant list at a time
            for li in range(bi * chunk, min(len(lines), (bi + 1) * chunk)):
                r1 = vlib.run_cases('c11psf1', 'From OV Require Import Model.M_C11.',
                                    ['Eval vm_compute in (report ' + lines[li] + ').\n'])[0]
                if r1[0] == 'error':
                    return {'name': 'psf_pipeline', 'n': 0, 'error': r1[1]}
                for i in r1[2]:
                    ok[8 * li + i] = False
            continue
        for i in rr[2]:
            ok[8 * chunk * bi + i] = False
    dis = []
    hist = {}
    nontrivial = set()
    energy = {}
    alive = set(range(8))          # variants that match the code on every case so far
    VNAME = lambda v: ('mask:x2+y2' if v & 4 else 'mask:sqrt') + ('/pad:exact' if v & 2 else '/pad:symmetric') + ('/norm:abs' if v & 1 else '/norm:nonzero-count')
    for ci, c in enumerate(cases):
        match = {v for v in range(8) if ok[8 * ci + v]}
        c['match'] = match
        key = f'{c["src"].split(":")[0]}/{c["opd_kind"]}/{c["inten_kind"]}/parity{(c["grid"] - c["n"]) % 2}'
        hist[key] = hist.get(key, 0) + 1
        desc = {'src': c['src'], 'num_rays': c['n'], 'grid_size': c['grid'], 'opd_kind': c['opd_kind'],
                'inten_kind': c['inten_kind'], 'opd': [float(v) for v in c['opd'][:6]], 'python_error': c['err']}
        if not (match & alive):
            dis.append(dict(desc, what='FFTPSF output differs from the model (no single combination of as-written/repaired '
                                       'mask, padding and normaliser reproduces the code on all cases)',
                            matching_variants=[VNAME(v) for v in sorted(match)], variants_so_far=[VNAME(v) for v in sorted(alive)],
                            violates_property=False, opd_full=[float(v) for v in c['opd']],
                            inten_full=[float(v) for v in c['inten']]))
            if c['p'] is not None:          # the property's own clauses on this output: a concrete witness if one fails
                w = oracle_psf(c['n'], c['grid'], c['opd'], c['inten'], c['p'])
                if w and not any(d.get('kind') == w['kind'] for d in dis):
                    dis.append(dict(desc, **w, violates_property=True, opd_full=[float(v) for v in c['opd']],
                                    inten_full=[float(v) for v in c['inten']]))
            continue
        alive &= match
        if c.get('ctor_same') is False:
            dis.append(dict(desc, what='FFTPSF.__init__ result differs from its own methods re-run on its data',
                            violates_property=False))
            continue
        if c['p'] is None:
            # model and code agree that this legal sampling cannot be evaluated: property violated
            nd = _dist_count(c['n'])
            dis.append(dict(desc, kind='mask-mismatch', site='FFTPSF._generate_pupils', traced_samples=nd,
                            violates_property=True,
                            what='pupil mask sqrt(x^2+y^2)<=1 selects a different number of samples than the traced x^2+y^2<=1'))
            continue
        if np.any(c['opd'] != 0) or np.any(c['inten'] == 0):
            nontrivial.add((c['n'], c['grid'], c['opd_kind'], c['inten_kind'], float(np.sum(c['opd']))))
        w = oracle_psf(c['n'], c['grid'], c['opd'], c['inten'], c['p'])
        if w:
            dis.append(dict(desc, **w, violates_property=True, opd_full=[float(v) for v in c['opd']],
                            inten_full=[float(v) for v in c['inten']]))
            continue
        if c['pair'] is not None:
            energy.setdefault(c['pair'], []).append((float(c['p'].psf.sum()), desc))
    for k, v in energy.items():
        if len(v) == 2 and abs(v[0][0] - v[1][0]) > 1e-9 * (abs(v[0][0]) + abs(v[1][0])):
            dis.append(dict(v[0][1], kind='energy-depends-on-aberration', energies=[v[0][0], v[1][0]], violates_property=True))
    variants = [VNAME(v) for v in sorted(alive)]
    ctx.notes.append(f'psf_pipeline: the code is reproduced on every case by model variant(s) {variants}')
    ctx.c11_mask_fixed = bool(alive) and all(v & 4 for v in alive)
    return {'name': 'psf_pipeline', 'n': len(cases), 'nontrivial': len(nontrivial), 'histogram': hist,
            'samples': [{'num_rays': c['n'], 'grid_size': c['grid'], 'src': c['src'], 'opd': [float(v) for v in c['opd'][:4]],
                         'strehl': (float(c['p'].strehl_ratio()) if c['p'] is not None else None)} for c in cases[:2]],
            'disagreements': dis, 'note': f'variants {variants}', '_psfs': [c['p'].psf for c in cases if c['p'] is not None]}


def check_mtf_pipeline(ctx, psfs):
    _quiet()
    from optiland.mtf import FFTMTF
    r = ctx.gen.r
    items = []
    for ps in psfs[:ctx.n(10, 60)]:
        if np.all(np.isfinite(ps)) and ps.sum() > 0:
            items.append((ps.shape[0], ps))          # grid = M: the requested size
    for i in range(ctx.n(6, 40)):
        M = r.randrange(4, 10)
        ps = np.array([[r.uniform(0, 50) if r.random() < 0.8 else 0.0 for _ in range(M)] for _ in range(M)])
        items.append((M + (i % 2), ps))               # also the g = M+1 slice of a (g-1)^2 image
    lines, real = [], []
    for g, ps in items:
        m = object.__new__(FFTMTF)
        m.psf = [ps]
        m.grid_size = g
        t, s = m._generate_mtf_data()[0]
        real.append((t, s))
        lines.append(f'close_list {fh(TOL)} (mtf_tan (O:=FOps) {g}%nat {fl2(ps)}) {fl(t)}')
        lines.append(f'close_list {fh(TOL)} (mtf_sag (O:=FOps) {g}%nat {fl2(ps)}) {fl(s)}')
    chunk = 10
    bodies = ['Eval vm_compute in (report [\n' + ';\n'.join(lines[s:s + chunk]) + '\n]).\n' for s in range(0, len(lines), chunk)]
    res = vlib.run_cases('c11mtf', 'From OV Require Import Model.M_C11.', bodies)
    dis = []
    for bi, rr in enumerate(res):
        if rr[0] == 'error':
            return {'name': 'mtf_pipeline', 'n': 0, 'error': rr[1]}
        for i in rr[2]:
            li = bi * chunk + i
            g, ps = items[li // 2]
            dis.append({'what': 'FFTMTF._generate_mtf_data differs from the model', 'curve': 'tan' if li % 2 == 0 else 'sag',
                        'grid_size': g, 'psf': [[float(v) for v in row] for row in ps], 'violates_property': False})
        if rr[1] > len(rr[2]):
            dis.append({'what': f'{rr[1] - len(rr[2])} further mismatches', 'violates_property': False})
    # several PSFs in one call (one per field): curve k must be the curve of psf k alone
    by_size = {}
    for idx, (g, ps) in enumerate(items):
        if ps.shape[0] == g:
            by_size.setdefault(g, []).append(idx)
    nstack = 0
    for g, idxs in by_size.items():
        for nf in (2, 3, 4):
            if len(idxs) < nf:
                continue
            grp = idxs[:nf]
            m = object.__new__(FFTMTF)
            m.psf = [items[i][1] for i in grp]
            m.grid_size = g
            got = m._generate_mtf_data()
            nstack += 1
            for k, i in enumerate(grp):
                d_ = max(float(np.max(np.abs(np.asarray(got[k][0]) - real[i][0]))), float(np.max(np.abs(np.asarray(got[k][1]) - real[i][1]))))
                if not d_ <= 1e-12:
                    dis.append({'kind': 'multi-field-mtf', 'site': 'FFTMTF._generate_mtf_data', 'fields_in_call': nf, 'field_index': k,
                                'grid_size': g, 'max_diff_vs_single_field_call': d_, 'psfs': [[[float(v) for v in row] for row in items[j][1]] for j in grp],
                                'violates_property': True})
                    break
    nt = 0
    for (g, ps), (t, s) in zip(items, real):
        for nm, cv in (('tangential', t), ('sagittal', s)):
            if not np.all(np.isfinite(cv)):
                continue
            nt += 1
            if abs(cv[0] - 1) > 1e-9 and ps.shape[0] == g:
                dis.append({'kind': 'mtf-start', 'site': 'FFTMTF._generate_mtf_data', 'curve': nm, 'first': float(cv[0]),
                            'grid_size': g, 'violates_property': True})
            elif cv.min() < -1e-12 or cv.max() > 1 + 1e-9:
                dis.append({'kind': 'mtf-range', 'site': 'FFTMTF._generate_mtf_data', 'curve': nm, 'min': float(cv.min()),
                            'max': float(cv.max()), 'grid_size': g, 'violates_property': True})
    return {'name': 'mtf_pipeline', 'n': len(items) * 2 + nstack, 'nontrivial': nt, 'disagreements': dis,
            'histogram': {'single-psf calls': len(items), 'stacked 2..4-psf calls': nstack},
            'samples': [{'grid_size': items[0][0], 'tangential': [float(v) for v in real[0][0][:4]]}]}


def check_freq_axis(ctx):
    """the translated _get_mtf_units against the specification's frequency step (Model freq_step_model, theorem
    freq_axis_cutoff), confirmed on the real method"""
    _quiet()
    from optiland.mtf import FFTMTF
    r = ctx.gen.r
    cases = []
    for i in range(ctx.n(40, 400)):
        cases.append((r.choice([64, 128, 256, 512, 1000, 1024, 2048, 333]), r.choice([16, 32, 64, 128, 256]),
                      r.uniform(0.35, 1.6), r.uniform(1.2, 40)))
    lines = [f'close {fh(1e-12)} (k_mtf_units FOps {g}%Z {n}%Z {fh(l)} {fh(f)}) (freq_step_model (O:=FOps) (F_ofZ {g}%Z) (F_ofZ {n}%Z) {fh(l)} {fh(f)})'
             for g, n, l, f in cases]
    res = vlib.run_cases('c11freq', 'From OV Require Import Model.M_C11 Gen.PsfMtf.',
                         ['Eval vm_compute in (report (' + ' :: '.join(lines) + ' :: nil)).\n'])
    if res[0][0] == 'error':
        return {'name': 'freq_axis', 'n': 0, 'error': res[0][1]}
    # report lists only the first 10 failing indices: recompute the full set on the real method
    dis = []
    nfail_model = res[0][1]
    nreal = 0
    for g, n, l, f in cases:
        m = object.__new__(FFTMTF)
        m.grid_size, m.num_rays, m.wavelength, m.FNO = g, n, l, f
        dx = float(m._get_mtf_units())
        want = 1.0 / (l * 1e-3 * f)
        if abs(dx * n - want) > 1e-9 * want:
            nreal += 1
            if len(dis) < 5:
                dis.append({'kind': 'freq-axis', 'site': 'FFTMTF._get_mtf_units', 'grid_size': g, 'num_rays': n,
                            'wavelength': l, 'FNO': f, 'cutoff_reported': dx * n, 'cutoff_expected': want,
                            'ratio': dx * n / want, 'violates_property': True})
    if nreal != nfail_model:
        dis.append({'what': f'translated kernel disagrees with the specification on {nfail_model} cases but the real method on {nreal}',
                    'violates_property': False})
    return {'name': 'freq_axis', 'n': len(cases), 'nontrivial': len({(g, n) for g, n, _, _ in cases}), 'disagreements': dis,
            'samples': [{'grid_size': cases[0][0], 'num_rays': cases[0][1], 'wavelength': cases[0][2], 'FNO': cases[0][3]}],
            'note': f'{nfail_model} of {len(cases)} cases off the specified axis'}


def check_difflim(ctx):
    _quiet()
    from optiland.mtf import GeometricMTF
    r = ctx.gen.r
    lines = []
    n = 0
    samples = []
    for i in range(ctx.n(8, 60)):
        gm = object.__new__(GeometricMTF)
        gm.scale = True
        gm.max_freq = r.uniform(20, 900)
        gm.num_points = r.choice([8, 16, 33])
        gm.freq = np.linspace(0, gm.max_freq, gm.num_points)
        gm.data = []
        gm.fields = []
        try:
            _, sf = gm._generate_mtf_data()
        except Exception:      # noqa  -- the stripped-down object is the harness' shortcut: use a fully constructed one
            gm = GeometricMTF(paraboloid(fno=r.uniform(2.5, 12.0)), fields=[(0.0, 0.0)], num_rays=6, num_points=gm.num_points, scale=True)
            sf = gm.diff_limited_mtf
        nus = gm.freq / gm.max_freq
        for nu, v in zip(nus, sf):
            lines.append(f'close {fh(1e-11)} (difflim (O:=FOps) {fh(nu)}) {fh(v)}')
            n += 1
        if i == 0:
            samples.append({'nu': [float(x) for x in nus[:4]], 'scale_factor': [float(x) for x in sf[:4]]})
    # the sampled FFT MTF of an unaberrated circular pupil (real paraboloid) against the closed form evaluated in Coq,
    # within the sampling error 1/num_rays
    from optiland.mtf import FFTMTF
    nclosed = len(lines)
    for (nr, gs) in ([(16, 32), (24, 48)] if ctx.quick() else [(16, 32), (24, 48), (32, 64), (64, 128), (128, 256)]):
        fm = FFTMTF(paraboloid(), fields=[(0.0, 0.0)], wavelength=0.55, num_rays=nr, grid_size=gs)
        if fm.psf[0].shape != (gs, gs):
            continue
        for cv in fm.mtf[0]:
            for sidx, v in enumerate(cv):
                nu = min(1.0, sidx / nr)
                lines.append(f'PrimFloat.leb (PrimFloat.abs (PrimFloat.sub (difflim (O:=FOps) {fh(nu)}) {fh(v)})) {fh(1.0 / nr)}')
                n += 1
    res = vlib.run_cases('c11dl', 'From OV Require Import Model.M_C11.', ['Eval vm_compute in (report [\n' + ';\n'.join(lines) + '\n]).\n'])
    if res[0][0] == 'error':
        return {'name': 'difflim', 'n': 0, 'error': res[0][1]}
    dis = [({'what': 'GeometricMTF scale factor differs from difflim', 'line': lines[i][:200], 'violates_property': False} if i < nclosed else
            {'kind': 'mtf-vs-closed-form', 'site': 'FFTMTF', 'what': 'sampled MTF of a perfect paraboloid is further than 1/num_rays from the closed form',
             'line': lines[i][-120:], 'violates_property': True}) for i in res[0][2]]
    return {'name': 'difflim', 'n': n, 'nontrivial': n, 'disagreements': dis, 'samples': samples}


def check_geo_mtf(ctx):
    _quiet()
    from optiland.mtf import GeometricMTF
    r = ctx.gen.r
    lines, dis, samples = [], [], []
    n = 0
    for i in range(ctx.n(12, 100)):
        gm = object.__new__(GeometricMTF)
        gm.num_points = r.choice([4, 7, 12])
        npts = r.choice([1, 5, 40, 200])
        spread = r.choice([0.0, 1e-4, 0.01, 0.3])
        xi = np.array([r.gauss(r.uniform(-1, 1) * 0, spread) + 2.5 for _ in range(npts)])
        v = np.array([0.0] + [r.uniform(0, 400) for _ in range(3)])
        scale = r.choice([1.0, r.uniform(0.1, 1.0)])
        out = gm._compute_field_data(xi, v, scale)
        A, edges = np.histogram(xi, bins=gm.num_points + 1)
        for vk, ok_ in zip(v, out):
            lines.append(f'close {fh(1e-9)} (geo_mtf (O:=FOps) {fl(A)} {fl(edges)} {fh(vk)} {fh(scale)}) {fh(ok_)}')
            n += 1
        if abs(out[0] - scale) > 1e-9 or out.min() < -1e-12 or out.max() > scale * (1 + 1e-9):
            dis.append({'kind': 'geo-mtf-range', 'site': 'GeometricMTF._compute_field_data', 'xi': [float(x) for x in xi[:20]],
                        'v': [float(x) for x in v], 'out': [float(x) for x in out], 'scale': scale, 'violates_property': True})
        if i == 0:
            samples.append({'xi': [float(x) for x in xi[:5]], 'v': [float(x) for x in v], 'mtf': [float(x) for x in out]})
    res = vlib.run_cases('c11geo', 'From OV Require Import Model.M_C11.', ['Eval vm_compute in (report [\n' + ';\n'.join(lines) + '\n]).\n'])
    if res[0][0] == 'error':
        return {'name': 'geo_mtf', 'n': 0, 'error': res[0][1]}
    dis += [{'what': 'GeometricMTF._compute_field_data differs from geo_mtf', 'line': lines[i][:300], 'violates_property': False} for i in res[0][2]]
    return {'name': 'geo_mtf', 'n': n, 'nontrivial': n, 'disagreements': dis, 'samples': samples}


def check_mask(ctx):
    """both pupil masks evaluated in binary64 inside Coq for every sampling; must select the same samples, and the real
    _generate_pupils must succeed exactly when they do"""
    _quiet()
    ns = list(range(16, 65)) if ctx.quick() else list(range(16, 257))
    lines = []
    for n in ns:
        xs = np.linspace(-1, 1, n)
        lines.append(f'Nat.eqb (count_true (mask_list (mask_psf (O:=FOps)) {fl(xs)})) (count_true (mask_list (mask_dist (O:=FOps)) {fl(xs)}))')
    chunk = 8
    bodies = ['Eval vm_compute in (report [\n' + ';\n'.join(lines[s:s + chunk]) + '\n]).\n' for s in range(0, len(lines), chunk)]
    res = vlib.run_cases('c11mask', 'From OV Require Import Model.M_C11.', bodies)
    bad_model = set()
    for bi, rr in enumerate(res):
        if rr[0] == 'error':
            return {'name': 'pupil_mask', 'n': 0, 'error': rr[1]}
        for i in rr[2]:
            bad_model.add(ns[bi * chunk + i])
    dis = []
    bad_real = []
    for n in ns:
        K = _dist_count(n)
        p, err = real_psf_from_data(n, n, np.zeros(K), np.ones(K))
        predicted_fail = (n in bad_model) and not getattr(ctx, 'c11_mask_fixed', False)
        if (p is None) != predicted_fail:
            dis.append({'what': 'mask model and _generate_pupils disagree', 'num_rays': n, 'python_error': err, 'violates_property': False})
        elif p is None:
            bad_real.append(n)
    for n in bad_real[:4]:
        dis.append({'kind': 'mask-mismatch', 'site': 'FFTPSF._generate_pupils', 'num_rays': n, 'traced_samples': _dist_count(n),
                    'violates_property': True,
                    'what': 'pupil mask sqrt(x^2+y^2)<=1 selects a different number of samples than the traced x^2+y^2<=1'})
    return {'name': 'pupil_mask', 'n': len(ns), 'nontrivial': len(ns), 'disagreements': dis, 'exhaustive': True,
            'samples': [{'num_rays': ns[0]}], 'note': f'samplings with inconsistent masks: {sorted(bad_model)}'}


def check_cutoff(ctx):
    """cut-off frequency of both MTF classes on real lenses against 1/(lambda_mm * working F-number).  The working F-number
    is evaluated by the translated _get_fno kernel in Coq from the paraxial FNO and pupil diameters of the lens and a lateral
    magnification computed INDEPENDENTLY of optiland.paraxial (y-nu matrix trace, m = n u / (n' u')); lenses: both
    conjugates, object and/or image space in air or in an immersion medium"""
    _quiet()
    import lensgen
    from optiland.mtf import FFTMTF, GeometricMTF
    lr = random.Random(ctx.seed + 5)
    lenses = [('paraboloid', paraboloid()), ('finite-singlet', finite_singlet()), ('finite-singlet-2', finite_singlet(obj=80.0, epd=9.0))]
    for t in range(ctx.n(6, 40)):
        try:
            lenses.append((f'gen{t}', lensgen.build(lensgen.simple_spec(lr, n=lr.choice([1, 2, 3])))))
        except Exception:   # noqa
            pass
    lenses += immersed_lenses(random.Random(ctx.seed + 6), ctx.n(8, 60))
    lines, meta, hist = [], [], {}
    for name, o in lenses:
        try:
            px = o.paraxial
            lam = float(o.primary_wavelength)
            fno, inf = float(px.FNO()), bool(o.object_surface.is_infinite)
            cls = media_class(o)
            if inf:
                xpd, epd, mag, mimpl, n0, ni = 1.0, 1.0, 0.0, 0.0, 1.0, 1.0
            else:
                im = independent_magnification(o, lam)
                if im is None:
                    continue
                mag, n0, ni = im
                xpd, epd, mimpl = float(px.XPD()), float(px.EPD()), float(px.magnification())
            fm = FFTMTF(o, fields=[(0.0, 0.0)], num_rays=6, grid_size=8)
            gm = GeometricMTF(o, fields=[(0.0, 0.0)], num_rays=6, num_points=4)
        except Exception as e:   # noqa
            ctx.notes.append(f'cutoff: lens {name} skipped ({type(e).__name__})')
            continue
        if not all(map(math.isfinite, (fno, xpd, epd, mag, float(fm.max_freq), float(gm.max_freq)))) or fno == 0 or xpd == 0:
            continue
        hist[cls] = hist.get(cls, 0) + 1
        wf = f'(k_mtf_fno FOps {fh(fno)} {"true" if inf else "false"} {fh(xpd)} {fh(epd)} {fh(mag)})'
        cut = f'(PrimFloat.div 1 (PrimFloat.mul (PrimFloat.mul {fh(lam)} {fh(1e-3)}) {wf}))'
        lines.append(f'close {fh(1e-9)} {cut} {fh(fm.max_freq)}')
        lines.append(f'close {fh(1e-9)} {cut} {fh(gm.max_freq)}')
        wfi = fno if inf else fno * (1 + abs(mag) / (xpd / epd))
        meta.append({'lens': name, 'class': cls, 'object_infinite': inf, 'paraxial_FNO': fno, 'XPD': xpd, 'EPD': epd,
                     'magnification_independent': mag, 'magnification_impl': mimpl, 'object_index': n0, 'image_index': ni,
                     'working_FNO_expected': wfi, 'working_FNO_impl': float(fm.FNO), 'expected': 1.0 / (lam * 1e-3 * wfi),
                     'fft_max_freq': float(fm.max_freq), 'geo_max_freq': float(gm.max_freq)})
    chunk = 8     # report lists at most 10 failing indices
    bodies = ['Eval vm_compute in (report (' + ' :: '.join(lines[s_:s_ + chunk]) + ' :: nil)).\n' for s_ in range(0, len(lines), chunk)]
    res = vlib.run_cases('c11cut', 'From OV Require Import Gen.PsfMtf.', bodies)
    dis = []
    for bi, rr in enumerate(res):
        if rr[0] == 'error':
            return {'name': 'cutoff', 'n': 0, 'error': rr[1]}
        for i in rr[2]:
            li = bi * chunk + i
            mt = meta[li // 2]
            site = 'FFTMTF.__init__' if li % 2 == 0 else 'GeometricMTF.__init__'
            got = mt['fft_max_freq'] if li % 2 == 0 else mt['geo_max_freq']
            dis.append(dict(mt, kind='cutoff-fno', site=site, max_freq=got,
                            uses_paraxial_fno=bool(abs(got * mt['paraxial_FNO'] - mt['expected'] * mt['working_FNO_expected'])
                                                   < 1e-9 * abs(mt['expected'] * mt['working_FNO_expected'])),
                            magnification_agrees=bool(abs(mt['magnification_impl'] - mt['magnification_independent'])
                                                      <= 1e-9 * abs(mt['magnification_independent'])),
                            violates_property=True))
    dis = dis[:6]
    return {'name': 'cutoff', 'n': len(meta) * 2, 'nontrivial': sum(1 for m in meta if not m['object_infinite']), 'disagreements': dis,
            'histogram': hist,
            'samples': [{k: m[k] for k in ('lens', 'class', 'paraxial_FNO', 'magnification_independent', 'working_FNO_expected',
                                           'fft_max_freq', 'geo_max_freq')} for m in (meta[:1] + [m for m in meta if 'immersed' in m['class']][:1])]}


# ----------------------------------------------------------------------------------------------
# several fields at once: every curve must belong to ITS OWN field
# ----------------------------------------------------------------------------------------------
def direct_mtf(psf, grid):
    """|DFT| of one PSF image by an explicit DFT matrix product (no np.fft), zero frequency moved to index N//2 by an explicit
    index rotation, sliced and normalised as the property states it: (tangential, sagittal)"""
    N = psf.shape[0]
    k = np.arange(N)
    W = np.exp(-2j * np.pi * np.outer(k, k) / N)
    D = np.abs(W @ psf @ W.T)
    idx = (np.arange(N) - N // 2) % N
    D = D[np.ix_(idx, idx)]
    c = grid // 2
    t, sg = D[c:, c], D[c, c:]
    return t / t.max(), sg / sg.max()


def line_spread_reference(o, field, lam, num_rays, freq):
    """|sum_i I_i exp(-2 pi i v c_i)| / sum_i I_i for c = y (tangential) and x (sagittal) of rays traced HERE for this one field
    (not taken from the analysis object); also the unweighted version and the histogram bin width of each coordinate"""
    rays = o.trace(field[0], field[1], lam, num_rays, 'uniform')
    y, x, inten = np.array(rays.y, dtype=float), np.array(rays.x, dtype=float), np.array(rays.i, dtype=float)
    if not (np.all(np.isfinite(y)) and np.all(np.isfinite(x)) and np.all(np.isfinite(inten))) or inten.sum() <= 0:
        return None
    out = {'zero_intensity_rays': int((inten == 0).sum()), 'rays': int(len(y)), 'uniform_intensity': bool(np.all(inten == inten[0]))}
    for nm, c in (('tangential', y), ('sagittal', x)):
        E = np.exp(-2j * np.pi * np.outer(freq, c))
        rng_ = float(c.max() - c.min()) or 1.0
        out[nm] = {'weighted': np.abs((E * inten).sum(axis=1)) / inten.sum(), 'unweighted': np.abs(E.mean(axis=1)), 'range': rng_}
    return out


def oracle_geo_fields(o, fields, lam, name, num_rays=20, num_points=512, scale=True):
    """GeometricMTF built for all `fields` at once: each curve against the modulus of the Fourier transform of the line spread of
    independently traced rays of its own field (rigorous binning tolerance pi*v*binwidth) and against the single-field object"""
    from optiland.mtf import GeometricMTF
    out = []
    gm = GeometricMTF(o, fields=list(fields), wavelength=lam, num_rays=num_rays, num_points=num_points, scale=scale)
    sf = np.asarray(gm.diff_limited_mtf, dtype=float) if scale else np.ones(num_points)
    for k, f in enumerate(fields):
        ref = line_spread_reference(o, f, lam, num_rays, gm.freq)
        if ref is None:
            continue
        if len(fields) > 1:
            single = GeometricMTF(o, fields=[f], wavelength=lam, num_rays=num_rays, num_points=num_points, scale=scale)
        for ax, nm in enumerate(('tangential', 'sagittal')):
            cv = np.asarray(gm.mtf[k][ax], dtype=float)
            if not np.all(np.isfinite(cv)):
                continue
            if len(fields) > 1:
                d1 = float(np.max(np.abs(cv - np.asarray(single.mtf[0][ax], dtype=float))))
                if d1 > 1e-12:
                    out.append({'kind': 'multi-field-geo-mtf', 'site': 'GeometricMTF', 'lens': name, 'fields': [list(map(float, x)) for x in fields],
                                'field_index': k, 'curve': nm, 'max_diff_vs_single_field_object': d1})
                    continue
            tol = (np.pi * gm.freq * ref[nm]['range'] / (num_points + 1)) * sf + 1e-9
            dev = np.abs(cv - ref[nm]['weighted'] * sf) - tol
            j = int(np.argmax(dev))
            if dev[j] > 0:
                devu = np.abs(cv - ref[nm]['unweighted'] * sf) - tol
                out.append({'kind': 'geo-mtf-vs-line-spread', 'site': 'GeometricMTF._compute_field_data', 'lens': name,
                            'fields': [list(map(float, x)) for x in fields], 'field_index': k, 'field': list(map(float, f)), 'curve': nm,
                            'scale': bool(scale), 'num_rays': num_rays, 'num_points': num_points, 'frequency': float(gm.freq[j]),
                            'observed': float(cv[j]), 'expected': float(ref[nm]['weighted'][j] * sf[j]), 'tolerance': float(tol[j]),
                            'zero_intensity_rays': ref['zero_intensity_rays'], 'rays': ref['rays'],
                            'uniform_intensity': ref['uniform_intensity'],
                            'equals_unweighted_line_spread': bool(np.max(devu) <= 0)})
    return out


def oracle_fft_fields(o, fields, lam, n, grid, name, stigmatic_first=False):
    """FFTMTF built for all `fields` at once: psf[k] against FFTPSF of field k, mtf[k] against the direct |DFT| of THAT PSF,
    against the single-field FFTMTF, and (stigmatic field) against the closed form"""
    from optiland.psf import FFTPSF
    from optiland.mtf import FFTMTF
    out = []
    m = FFTMTF(o, fields=list(fields), wavelength=lam, num_rays=n, grid_size=grid)
    own = []
    for k, f in enumerate(fields):
        p = FFTPSF(o, f, lam, num_rays=n, grid_size=grid)
        if not np.all(np.isfinite(p.psf)) or p.psf.shape != (grid, grid) or p.psf.max() <= 0:
            own.append(None)
            continue
        own.append(direct_mtf(p.psf, grid))
        fl_ = [list(map(float, x)) for x in fields]
        if not np.array_equal(np.asarray(m.psf[k]), p.psf):
            out.append({'kind': 'multi-field-psf', 'site': 'FFTMTF.__init__', 'lens': name, 'fields': fl_, 'field_index': k,
                        'max_diff_vs_FFTPSF': float(np.max(np.abs(np.asarray(m.psf[k]) - p.psf)))})
            continue
        s1 = FFTMTF(o, fields=[f], wavelength=lam, num_rays=n, grid_size=grid)
        for ax, nm in enumerate(('tangential', 'sagittal')):
            cv = np.asarray(m.mtf[k][ax], dtype=float)
            d_own = float(np.max(np.abs(cv - own[k][ax])))
            d_single = float(np.max(np.abs(cv - np.asarray(s1.mtf[0][ax], dtype=float))))
            if d_own > 1e-9 or d_single > 1e-12:
                out.append({'kind': 'multi-field-mtf', 'site': 'FFTMTF._generate_mtf_data', 'lens': name, 'fields': fl_, 'field_index': k,
                            'curve': nm, 'num_rays': n, 'grid_size': grid, 'max_diff_vs_transform_of_own_psf': d_own,
                            'max_diff_vs_single_field_object': d_single})
                break
        if stigmatic_first and k == 0:
            cv = np.asarray(m.mtf[0][0], dtype=float)
            nu = np.clip(np.arange(len(cv)) / n, 0, 1)
            phi = np.arccos(nu)
            err = float(np.max(np.abs(cv - 2 / np.pi * (phi - np.cos(phi) * np.sin(phi)))))
            if err > 1.0 / n and not any(w_['kind'] == 'multi-field-mtf' and w_['field_index'] == 0 for w_ in out):
                out.append({'kind': 'mtf-vs-closed-form', 'site': 'FFTMTF', 'lens': name, 'fields': fl_, 'field_index': 0, 'num_rays': n,
                            'grid_size': grid, 'max_abs_error': err, 'allowed': 1.0 / n})
    # which field's transform was reported instead (diagnostic only)
    for w_ in out:
        if w_['kind'] == 'multi-field-mtf':
            ax = 0 if w_['curve'] == 'tangential' else 1
            cv = np.asarray(m.mtf[w_['field_index']][ax], dtype=float)
            w_['equals_transform_of_field'] = [j for j, t in enumerate(own) if t is not None and np.max(np.abs(cv - t[ax])) <= 1e-9]
    return out


def multifield_lenses(ctx):
    """(name, optic, fields, stigmatic_first): mirrors with on-axis + comatic off-axis fields (2, 3, 4 fields; stigmatic paraboloid,
    spherical mirror, clipped spherical mirror) and generated refracting lenses given 2..4 fields"""
    import lensgen
    out = []
    for fs in ([0.0, 1.0], [0.0, 0.5, 1.0], [0.0, 0.3, 0.6, 1.0]):
        o = paraboloid(fields=fs)
        out.append((f'paraboloid-{len(fs)}f', o, o.fields.get_field_coords(), True))
    o = paraboloid(fields=[0.0, 0.7, 1.2], conic=0.0, fno=4.0, defocus=0.05)
    out.append(('spherical-mirror-3f', o, o.fields.get_field_coords(), False))
    o = paraboloid(fields=[0.0, 1.0], conic=0.0, fno=100.0 / 30.0, defocus=0.1, clip=9.0)
    out.append(('spherical-mirror-clipped-2f', o, o.fields.get_field_coords(), False))
    # not rotationally symmetric: tilted / decentred surface, the exactly-axial field alone and with off-axis fields
    lr = random.Random(ctx.seed + 209)
    for j, fs in enumerate(([0.0], [0.0, 1.0], [0.0, 0.6, 1.2])):
        tilt = lr.choice([-1, 1]) * lr.uniform(0.03, 0.07)
        dec = lr.choice([-1, 1]) * lr.uniform(0.3, 0.9)
        o = (asymmetric_singlet(rx=tilt, fields=fs, which=2), asymmetric_singlet(dy=dec, ry=0.5 * tilt, fields=fs, which=1),
             asymmetric_singlet(dx=dec, rx=0.4 * tilt, fields=fs, which=2))[j]
        out.append((f'asymmetric-{len(fs)}f', o, o.fields.get_field_coords(), False))
    for t in range(ctx.n(2, 10)):
        spec = lensgen.gen_spec(lr, nsurf=lr.choice([2, 3, 4]), allow=['plane', 'standard', 'conic'], finite_object=False, mirrors=False,
                                decenter=True)
        if not any('dx' in s_ for s_ in spec['surfaces']):
            s_ = lr.choice(spec['surfaces'])
            s_.update(dx=lr.uniform(-0.3, 0.3), dy=lr.uniform(-0.3, 0.3), rx=lr.uniform(-0.03, 0.03), ry=lr.uniform(-0.03, 0.03))
        nf = lr.choice([1, 2, 3])
        spec['fields'] = [[2.0 * j / max(1, nf - 1) if nf > 1 else 0.0, 0.0, 0.0, 0.0] for j in range(nf)]
        try:
            o = lensgen.build(spec)
            out.append((f'asymmetricgen-{nf}f-{t}', o, o.fields.get_field_coords(), False))
        except Exception:     # noqa
            continue
    base = len(out)
    lr = random.Random(ctx.seed + 207)
    tries = 0
    want = ctx.n(4, 24)
    while len(out) < base + want and tries < 8 * want:
        tries += 1
        spec = lensgen.simple_spec(lr, n=lr.choice([1, 2, 3, 4]))
        nf = lr.choice([2, 3, 4])
        mx = lr.uniform(1.0, 5.0)
        spec['fields'] = [[mx * j / (nf - 1), 0.0, 0.0, 0.0] for j in range(nf)]
        try:
            o = lensgen.build(spec)
            out.append((f'gen-{nf}f-{tries}', o, o.fields.get_field_coords(), False))
        except Exception:     # noqa
            continue
    return out


def check_multifield(ctx):
    """FFTMTF and GeometricMTF constructed with 2, 3 and 4 fields at once (FFTPSF takes one field: one object per field):
    every returned curve against the independent computation for its own field, against the single-field object, and -- small
    grids -- against the Coq model evaluated on the PSF of an independently built FFTPSF of that field"""
    _quiet()
    from optiland.psf import FFTPSF
    from optiland.mtf import FFTMTF, GeometricMTF
    dis, hist, samples = [], {}, []
    ncurves = 0
    lines, lmeta = [], []
    for name, o, fields, stig in multifield_lenses(ctx):
        lam = float(o.primary_wavelength)
        nf = len(fields)
        fam = name.split('-')[0]
        try:
            ws = oracle_fft_fields(o, fields, lam, 16, 32, name, stigmatic_first=stig)
            hist[f'FFTMTF/{nf}-fields/{fam}'] = hist.get(f'FFTMTF/{nf}-fields/{fam}', 0) + 1
            ncurves += 2 * nf
            dis += [dict(w, violates_property=True) for w in ws]
        except Exception as e:     # noqa
            ctx.notes.append(f'multifield: FFTMTF on {name} raised {type(e).__name__}: {str(e)[:60]}')
        for scale in (True, False):
            try:
                ws = oracle_geo_fields(o, fields, lam, name, scale=scale)
                hist[f'GeometricMTF/{nf}-fields/{fam}'] = hist.get(f'GeometricMTF/{nf}-fields/{fam}', 0) + 1
                ncurves += 2 * nf
                dis += [dict(w, violates_property=True) for w in ws]
            except Exception as e:     # noqa
                ctx.notes.append(f'multifield: GeometricMTF on {name} raised {type(e).__name__}: {str(e)[:60]}')
        # Coq model on a small grid: curve k of the multi-field object against mtf_tan/mtf_sag of FFTPSF(field k).psf
        if fam in ('paraboloid', 'spherical'):
            try:
                m = FFTMTF(o, fields=list(fields), wavelength=lam, num_rays=6, grid_size=8)
                for k, f in enumerate(fields):
                    p = FFTPSF(o, f, lam, num_rays=6, grid_size=8)
                    if not np.all(np.isfinite(p.psf)):
                        continue
                    lines.append(f'close_list {fh(TOL)} (mtf_tan (O:=FOps) 8%nat {fl2(p.psf)}) {fl(m.mtf[k][0])}')
                    lines.append(f'close_list {fh(TOL)} (mtf_sag (O:=FOps) 8%nat {fl2(p.psf)}) {fl(m.mtf[k][1])}')
                    lmeta += [(name, k, 'tangential'), (name, k, 'sagittal')]
                hist[f'FFTMTF-vs-Coq-model/{nf}-fields'] = hist.get(f'FFTMTF-vs-Coq-model/{nf}-fields', 0) + 1
            except Exception as e:     # noqa
                ctx.notes.append(f'multifield: small-grid FFTMTF on {name} raised {type(e).__name__}')
        if not samples:
            samples.append({'lens': name, 'fields': [list(map(float, f)) for f in fields], 'num_rays': 16, 'grid_size': 32})
    if lines:
        chunk = 8
        bodies = ['Eval vm_compute in (report [\n' + ';\n'.join(lines[s_:s_ + chunk]) + '\n]).\n' for s_ in range(0, len(lines), chunk)]
        res = vlib.run_cases('c11mf', 'From OV Require Import Model.M_C11.', bodies)
        for bi, rr in enumerate(res):
            if rr[0] == 'error':
                return {'name': 'multi_field', 'n': 0, 'error': rr[1]}
            for i in rr[2]:
                nm_, k, cvn = lmeta[bi * chunk + i]
                dis.append({'kind': 'multi-field-mtf', 'site': 'FFTMTF._generate_mtf_data', 'lens': nm_, 'field_index': k, 'curve': cvn,
                            'num_rays': 6, 'grid_size': 8, 'what': 'curve k of the multi-field FFTMTF differs from the Coq model of the MTF '
                            'of FFTPSF(field k).psf', 'violates_property': True})
        ncurves += len(lines)
    # a documented constructor argument: numeric max_freq
    try:
        GeometricMTF(paraboloid(), fields=[(0.0, 0.0)], num_rays=6, num_points=4, max_freq=50.0)
    except AttributeError as e:
        dis.append({'kind': 'geo-mtf-max-freq-arg', 'site': 'GeometricMTF.__init__', 'python_error': str(e)[:100], 'max_freq': 50.0,
                    'violates_property': True})
    # one witness per (kind, site, finding-relevant flags) is enough
    seen, short = set(), []
    for d in dis:
        key = (d['kind'], d.get('site'), d.get('equals_unweighted_line_spread'), d.get('zero_intensity_rays', 0) > 0)
        if key not in seen:
            seen.add(key)
            short.append(d)
    ctx.c11_multifield = short
    return {'name': 'multi_field', 'n': ncurves, 'nontrivial': ncurves, 'histogram': hist, 'disagreements': short, 'samples': samples,
            'note': 'kinds seen: ' + ', '.join(sorted({d['kind'] for d in short}))}


# ----------------------------------------------------------------------------------------------
# the same prescription reached through other public routes / histories: expected values from the PRESCRIPTION
# ----------------------------------------------------------------------------------------------
INF = float('inf')


def spec_psurfs(spec, w):
    """paraxial surface data straight from the entered prescription (never read from the lens object): vertex positions = running
    sums of the thicknesses, indices as entered (catalogue glasses from a fresh Material)"""
    def idx(m, prev):
        if m == 'air':
            return 1.0
        if m == 'mirror':
            return prev
        if m[0] == 'ideal':
            return float(m[1])
        from optiland.materials import Material
        return float(np.ravel((Material(m[1]) if len(m) == 2 else Material(m[1], m[2])).n(w))[0])
    n0 = float(spec['object_material'][1]) if spec.get('object_material') else 1.0
    t0 = float(spec['object_thickness'])
    ps = [{'z': -t0, 'R': INF, 'npre': float('nan'), 'npost': n0, 'refl': False, 'stop': False, 'obj': True}]
    z, prev = 0.0, n0
    for sf in spec['surfaces']:
        if any(abs(float(sf.get(k, 0.0))) > 0 for k in ('dx', 'dy', 'rx', 'ry')) or sf.get('type', 'standard') not in ('standard',):
            return None
        m = sf.get('material', 'air')
        post = idx(m, prev)
        ps.append({'z': z, 'R': float(sf.get('radius', INF)), 'npre': prev, 'npost': post, 'refl': m == 'mirror',
                   'stop': bool(sf.get('is_stop')), 'obj': False})
        z += float(sf['thickness'])
        prev = post
    # the image surface is a (plane) surface of the prescription with its own medium behind it: the entered image_material, air
    # when none was entered (Optic.add_surface default) -- the library measures image-space angles behind this surface
    npost = float(spec['image_material'][1]) if spec.get('image_material') else 1.0
    ps.append({'z': z, 'R': INF, 'npre': prev, 'npost': npost, 'refl': False, 'stop': False, 'obj': False})
    return ps


def prescription_cutoff(spec):
    """working F-number and incoherent cut-off 1/(lambda_mm * F_w) by matrix optics (tools/oracles.abcd_quantities) on the entered
    prescription: FNO = |f2|/EPD (or the entered image-space F-number), finite conjugates F_w = FNO (1 + |m|/p), m = n u/(n' u'),
    p = XPD/EPD.  None when the prescription is outside what the matrix trace models or a quantity is not finite"""
    import oracles
    w = [x for x, prim in spec['wavelengths'] if prim][0]
    ps = spec_psurfs(spec, w)
    if ps is None:
        return None
    ap_type, ap_value = spec['aperture']
    try:
        q = oracles.abcd_quantities(ps, ap_type, ap_value, spec['field_type'], max(f[0] for f in spec['fields']))
    except Exception:     # noqa
        return None
    if 'EPD' not in q or 'marginal' not in q or not math.isfinite(q.get('f2', float('nan'))):
        return None
    fno = float(ap_value) if ap_type == 'imageFNO' else abs(q['f2']) / q['EPD']
    out = {'wavelength': w, 'FNO': fno, 'EPD': q['EPD'], 'f2': q['f2']}
    wf = fno
    if not math.isinf(ps[0]['z']):
        if not math.isfinite(q.get('XPL', float('nan'))):
            return None
        y, u = q['marginal'][-1]
        xpd = 2 * (y + u * q['XPL'])
        u0 = q['EPD'] / (2 * (q['EPL'] - ps[0]['z']))
        if u == 0 or xpd == 0:
            return None
        m = ps[0]['npost'] * u0 / (ps[-1]['npost'] * u)
        wf = fno * (1 + abs(m) / (xpd / q['EPD']))
        out.update(magnification=m, XPD=xpd)
    if not (math.isfinite(wf) and wf > 0):
        return None
    out.update(working_FNO=wf, cutoff=1.0 / (w * 1e-3 * wf))
    return out


def route_corpus(ctx):
    """(name, spec): fixed prescriptions (every class present whatever the seed) + seeded ones"""
    import lensgen
    base = {'field_type': 'angle', 'fields': [[0.0, 0.0, 0.0, 0.0]], 'wavelengths': [[0.55, True]], 'telecentric': False,
            'object_thickness': INF}
    out = [
        ('mirror-f10', dict(base, aperture=['EPD', 10.0], surfaces=[
            {'type': 'standard', 'radius': -200.0, 'conic': -1.0, 'thickness': -100.0, 'material': 'mirror', 'is_stop': True}])),
        ('singlet-f8', dict(base, aperture=['EPD', 7.5], surfaces=[
            {'type': 'standard', 'radius': 62.0, 'thickness': 5.0, 'material': ['ideal', 1.52, 0.0], 'is_stop': True},
            {'type': 'standard', 'radius': -62.0, 'thickness': 58.0, 'material': 'air'}])),
        ('doublet-imagefno', dict(base, aperture=['imageFNO', 6.0], surfaces=[
            {'type': 'standard', 'radius': 61.0, 'thickness': 6.0, 'material': ['glass', 'N-BK7', 'schott'], 'is_stop': True},
            {'type': 'standard', 'radius': -43.0, 'thickness': 2.5, 'material': ['glass', 'N-SF5', 'schott']},
            {'type': 'standard', 'radius': -125.0, 'thickness': 95.0, 'material': 'air'}])),
        ('relay-finite', dict(base, object_thickness=180.0, field_type='object_height', aperture=['EPD', 6.0], surfaces=[
            {'type': 'standard', 'radius': INF, 'thickness': 3.0, 'material': 'air', 'is_stop': True},
            {'type': 'standard', 'radius': 55.0, 'thickness': 5.0, 'material': ['ideal', 1.6, 0.0]},
            {'type': 'standard', 'radius': -55.0, 'thickness': 66.0, 'material': 'air'}])),
        ('relay-immersed-na', dict(base, object_thickness=90.0, field_type='object_height', aperture=['objectNA', 0.04],
                                   object_material=['ideal', 1.33, 0.0], surfaces=[
            {'type': 'standard', 'radius': 40.0, 'thickness': 6.0, 'material': ['ideal', 1.7, 0.0], 'is_stop': True},
            {'type': 'standard', 'radius': -40.0, 'thickness': 120.0, 'material': 'air'}])),
    ]
    lr = random.Random(ctx.seed + 311)
    tries = 0
    want = ctx.n(3, 24)
    while len(out) < 5 + want and tries < 10 * want:
        tries += 1
        spec = lensgen.gen_spec(lr, nsurf=lr.choice([1, 2, 3, 4]), allow=['plane', 'standard', 'conic'], mirrors=False, decenter=False)
        if lr.random() < 0.4:
            lensgen.immerse(spec, lr)
        spec['fields'] = [[0.0, 0.0, 0.0, 0.0]]
        c = prescription_cutoff(spec)
        if c is None or not (1.0 < c['working_FNO'] < 400.0):
            continue
        out.append((f'gen{tries}', spec))
    return out


ROUTES = ('direct', 'handbuilt', 'reuse', 'roundtrip', 'image-object', 'edited')


def build_route(spec, route, rng):
    """-> (optic, prescription the optic must now be).  'edited' = direct build followed by public setter calls
    (set_radius / set_thickness / set_index incl. the image-space medium)"""
    import copy
    import lensgen
    if route == 'image-object':
        sp = copy.deepcopy(spec)
        sp['image_object'] = True
        return lensgen.build(sp), sp
    if route == 'edited':
        o = lensgen.build(spec)
        kinds = ['radius', 'thickness', 'index', 'image_index'] if not any(sf.get('material') == 'mirror' for sf in spec['surfaces']) \
            else ['radius']
        edits = lensgen.random_edits(o, spec, rng, n=2, kinds=kinds)
        sp = lensgen.spec_after_edits(spec, edits)      # set_index on the last lens surface leaves the image surface's own medium as entered
        sp['_edits'] = [[k, si, float(v)] for k, si, v in edits]
        return o, sp
    return lensgen.build_via(spec, route, rng), spec


def check_routes(ctx):
    """cut-off / working F-number / PSF pixel pitch of FFTMTF, GeometricMTF and FFTPSF on lens objects reached through different
    public routes and histories, against matrix optics on the ENTERED prescription; the PSF and MTF arrays against the directly
    built object; repeated queries on one object; string / default / integer argument forms"""
    _quiet()
    import lensgen
    from optiland.psf import FFTPSF
    from optiland.mtf import FFTMTF, GeometricMTF
    dis, hist, samples = [], {}, []
    nev = 0
    rr = random.Random(ctx.seed + 313)
    N, G = 8, 16

    def rel(a, b):
        return abs(a - b) <= 1e-7 * (abs(a) + abs(b))
    for name, spec in route_corpus(ctx):
        ref_psf = None
        for route in ROUTES:
            try:
                o, sp = build_route(spec, route, random.Random(rr.random()))
            except Exception as e:     # noqa
                ctx.notes.append(f'routes: {name}/{route} could not be built ({type(e).__name__}: {str(e)[:60]})')
                continue
            exp = prescription_cutoff({k: v for k, v in sp.items() if k != '_edits'})
            if exp is None:
                continue
            lam = exp['wavelength']
            conj = 'infinite' if math.isinf(float(sp['object_thickness'])) else 'finite'
            key = f'{route}/{conj}/{sp["aperture"][0]}'
            try:
                fm = FFTMTF(o, fields=[(0.0, 0.0)], wavelength=lam, num_rays=N, grid_size=G)
                gm = GeometricMTF(o, fields=[(0.0, 0.0)], wavelength=lam, num_rays=6, num_points=8)
                pp = FFTPSF(o, (0.0, 0.0), lam, num_rays=N, grid_size=G)
                pitch = float(pp._get_psf_units(pp.psf)[0]) / G
                step = float(fm._get_mtf_units())
            except Exception as e:     # noqa
                ctx.notes.append(f'routes: {name}/{route} analysis raised {type(e).__name__}: {str(e)[:60]}')
                continue
            hist[key] = hist.get(key, 0) + 1
            nev += 1
            got = {'FFTMTF.FNO': float(fm.FNO), 'FFTMTF.max_freq': float(fm.max_freq), 'GeometricMTF.max_freq': float(gm.max_freq),
                   'FFTMTF axis cut-off (step*num_rays)': step * N, 'FFTPSF pixel pitch': pitch}
            want = {'FFTMTF.FNO': exp['working_FNO'], 'FFTMTF.max_freq': exp['cutoff'], 'GeometricMTF.max_freq': exp['cutoff'],
                    'FFTMTF axis cut-off (step*num_rays)': exp['cutoff'], 'FFTPSF pixel pitch': lam * exp['working_FNO'] / (G / N)}
            badq = [q for q in got if math.isfinite(got[q]) and not rel(got[q], want[q])]
            if badq:
                q = badq[0]
                dis.append({'kind': 'route-cutoff', 'site': q.split(' ')[0], 'lens': name, 'route': route, 'class': key, 'quantity': q,
                            'observed': got[q], 'expected_from_prescription': want[q], 'all_wrong': badq,
                            'prescription': {k: v for k, v in sp.items()},
                            'prescription_problems': lensgen.prescription_problems({k: v for k, v in sp.items() if k != '_edits'}, o, lam),
                            'violates_property': True})
            # arrays: the same prescription must give the same PSF / MTF whatever the route
            if route == 'direct':
                ref_psf, ref_mtf = pp.psf, fm.mtf[0]
                # state between calls: the same object queried again after other analyses
                fm2 = FFTMTF(o, fields=[(0.0, 0.0)], wavelength=lam, num_rays=N, grid_size=G)
                if not (np.array_equal(fm2.psf[0], fm.psf[0], equal_nan=True) and float(fm2.max_freq) == float(fm.max_freq)):
                    dis.append({'kind': 'route-repeat', 'site': 'FFTMTF', 'lens': name, 'route': route, 'class': key,
                                'what': 'a second FFTMTF of the same object differs from the first', 'violates_property': True})
                # argument forms: defaults / strings / integers mean the same as the explicit floats
                try:
                    fa = FFTMTF(o, num_rays=N, grid_size=G)                       # fields='all', wavelength='primary'
                    fi = FFTMTF(o, fields=[(0, 0)], wavelength='primary', num_rays=int(N), grid_size=int(G))
                    ga = GeometricMTF(o, num_rays=6, num_points=8)
                    hist['argument-forms'] = hist.get('argument-forms', 0) + 1
                    for nm_, a_, b_ in (('FFTMTF(fields="all", wavelength="primary")', fa, fm), ('FFTMTF(fields=[(0, 0)] ints)', fi, fm)):
                        if not (np.array_equal(np.asarray(a_.mtf[0]), np.asarray(fm.mtf[0]), equal_nan=True) and float(a_.max_freq) == float(fm.max_freq)):
                            dis.append({'kind': 'route-argument-form', 'site': 'FFTMTF.__init__', 'lens': name, 'form': nm_,
                                        'max_freq': float(a_.max_freq), 'expected': float(fm.max_freq), 'violates_property': True})
                    if not (float(ga.max_freq) == float(gm.max_freq) and np.array_equal(np.asarray(ga.mtf[0]), np.asarray(gm.mtf[0]), equal_nan=True)):
                        dis.append({'kind': 'route-argument-form', 'site': 'GeometricMTF.__init__', 'lens': name, 'form': 'defaults',
                                    'max_freq': float(ga.max_freq), 'expected': float(gm.max_freq), 'violates_property': True})
                except Exception as e:     # noqa
                    ctx.notes.append(f'routes: {name} argument forms raised {type(e).__name__}: {str(e)[:60]}')
            elif route != 'edited' and ref_psf is not None and np.all(np.isfinite(ref_psf)):
                d_ = float(np.max(np.abs(pp.psf - ref_psf))) if pp.psf.shape == ref_psf.shape else float('inf')
                if not d_ <= 1e-9 * (1 + float(np.max(np.abs(ref_psf)))):
                    dis.append({'kind': 'route-psf', 'site': 'FFTPSF', 'lens': name, 'route': route, 'class': key, 'max_abs_diff_vs_direct_build': d_,
                                'prescription': {k: v for k, v in sp.items()},
                                'prescription_problems': lensgen.prescription_problems(sp, o, lam), 'violates_property': True})
            elif route == 'edited':
                try:
                    od = lensgen.build({k: v for k, v in sp.items() if k != '_edits'})
                    pd_ = FFTPSF(od, (0.0, 0.0), lam, num_rays=N, grid_size=G)
                    if np.all(np.isfinite(pd_.psf)):
                        d_ = float(np.max(np.abs(pp.psf - pd_.psf)))
                        if not d_ <= 1e-7 * (1 + float(np.max(np.abs(pd_.psf)))):
                            dis.append({'kind': 'route-psf', 'site': 'FFTPSF', 'lens': name, 'route': route, 'class': key,
                                        'max_abs_diff_vs_direct_build': d_, 'prescription': {k: v for k, v in sp.items()},
                                        'prescription_problems': lensgen.prescription_problems({k: v for k, v in sp.items() if k != '_edits'}, o, lam),
                                        'violates_property': True})
                except Exception as e:     # noqa
                    ctx.notes.append(f'routes: {name}/edited reference build raised {type(e).__name__}')
            if not samples:
                samples.append({'lens': name, 'route': route, 'expected_working_FNO': exp['working_FNO'], 'expected_cutoff': exp['cutoff'],
                                'FFTMTF.max_freq': float(fm.max_freq)})
    seen, short = set(), []
    for d in dis:
        key = (d['kind'], d.get('site'), d.get('route'))
        if key not in seen:
            seen.add(key)
            short.append(d)
    return {'name': 'routes', 'n': nev, 'nontrivial': sum(v for k, v in hist.items() if not k.startswith('direct') and k != 'argument-forms'),
            'histogram': hist, 'disagreements': short[:8], 'samples': samples,
            'note': 'kinds seen: ' + ', '.join(sorted({d['kind'] for d in short}))}


def check_oracle(ctx):
    """the property stated directly on the real implementation (same sweep as search()); every witness is a
    confirmed violation -- listed findings are recognised by the runner, anything else alarms"""
    ws = search(ctx, [], []) or []
    return {'name': 'impl_oracle', 'n': getattr(ctx, 'c11_oracle_evals', 0), 'nontrivial': getattr(ctx, 'c11_oracle_evals', 0),
            'disagreements': [dict(w, violates_property=True) for w in ws],
            'samples': [{'lens': 'paraboloid', 'num_rays': 16, 'grid_size': 32}],
            'note': 'kinds seen: ' + ', '.join(sorted({w['kind'] for w in ws}))}


def _guard(name, fn, *a):
    """run one check; an exception is reported as that check's own error (traceback kept), never lost, and never stops the others"""
    import traceback
    try:
        return fn(*a)
    except Exception:      # noqa
        return {'name': name, 'n': 0, 'error': f'check {name} raised:\n' + traceback.format_exc()[-1500:]}


def system_checks(ctx):
    r = _guard('psf_pipeline', check_psf_pipeline, ctx)
    psfs = r.pop('_psfs', [])
    yield r
    yield _guard('impl_oracle', check_oracle, ctx)
    yield _guard('multi_field', check_multifield, ctx)
    yield _guard('routes', check_routes, ctx)
    yield _guard('mtf_pipeline', check_mtf_pipeline, ctx, psfs)
    yield _guard('freq_axis', check_freq_axis, ctx)
    yield _guard('difflim', check_difflim, ctx)
    yield _guard('geo_mtf', check_geo_mtf, ctx)
    yield _guard('pupil_mask', check_mask, ctx)
    yield _guard('cutoff', check_cutoff, ctx)


# ----------------------------------------------------------------------------------------------
# implementation-level oracle (used when a proof or a correspondence breaks, and to replay findings)
# ----------------------------------------------------------------------------------------------
def _axis_from_view(m):
    """the frequency axis and curves FFTMTF.view actually plots"""
    import matplotlib
    matplotlib.use('Agg')
    import matplotlib.pyplot as plt
    plt.close('all')
    m.view(add_reference=True)
    ax = plt.gcf().axes[0]
    out = [(ln.get_label(), np.array(ln.get_xdata(), dtype=float), np.array(ln.get_ydata(), dtype=float)) for ln in ax.lines]
    plt.close('all')
    return out


def oracle_lens(o, n, grid, perfect=False, name='lens'):
    """all clauses of C11 on one real lens; returns a list of witnesses"""
    from optiland.psf import FFTPSF
    from optiland.mtf import FFTMTF
    out = []
    fld = o.fields.get_field_coords()[-1]
    lam = o.primary_wavelength
    try:
        p = FFTPSF(o, fld, lam, num_rays=n, grid_size=grid)
    except ValueError as e:
        if 'boolean array indexing' in str(e) or 'cannot assign' in str(e):
            return [{'kind': 'mask-mismatch', 'site': 'FFTPSF._generate_pupils', 'num_rays': n, 'grid_size': grid, 'lens': name,
                     'traced_samples': _dist_count(n), 'python_error': str(e)[:100]}]
        raise
    opd, inten = p.data[0][0]
    w = oracle_psf(n, grid, opd, inten, p)
    if w:
        w['lens'] = name
        out.append(w)
        if w['kind'] in ('pad-parity', 'psf-shape'):
            return out
    if not np.all(np.isfinite(p.psf)):
        return out
    if perfect and not w and abs(p.strehl_ratio() - 1) > 1e-6 and not np.any(inten == 0):
        out.append({'kind': 'perfect-strehl', 'site': 'FFTPSF', 'lens': name, 'num_rays': n, 'grid_size': grid,
                    'strehl': float(p.strehl_ratio())})
    m = FFTMTF(o, fields=[fld], wavelength=lam, num_rays=n, grid_size=grid)
    for nm, cv in (('tangential', m.mtf[0][0]), ('sagittal', m.mtf[0][1])):
        if not np.all(np.isfinite(cv)):
            continue
        if abs(cv[0] - 1) > 1e-9 or cv.min() < -1e-12 or cv.max() > 1 + 1e-9:
            out.append({'kind': 'mtf-range', 'site': 'FFTMTF', 'lens': name, 'curve': nm, 'first': float(cv[0]),
                        'min': float(cv.min()), 'max': float(cv.max())})
    # working F-number, stated independently of _get_fno
    px = o.paraxial
    wf = float(px.FNO())
    im = None
    if not o.object_surface.is_infinite:
        im = independent_magnification(o, lam)          # matrix optics, not Paraxial.magnification
        mg = im[0] if im else float(px.magnification())
        wf *= 1 + abs(mg) / (float(px.XPD()) / float(px.EPD()))
    if math.isfinite(wf) and wf != 0 and (abs(float(m.FNO) - wf) > 1e-9 * abs(wf) or abs(float(m.max_freq) - 1.0 / (lam * 1e-3 * wf)) > 1e-9 / (lam * 1e-3 * abs(wf))):
        out.append({'kind': 'working-fno', 'site': 'FFTMTF._get_fno', 'lens': name, 'class': media_class(o), 'FNO': float(m.FNO),
                    'expected': wf, 'max_freq': float(m.max_freq),
                    'magnification_impl': (float(px.magnification()) if im else None),
                    'magnification_independent': (im[0] if im else None)})
    # frequency axis: cut-off index num_rays must sit at 1/(lambda_mm * working FNO)
    dx = float(m._get_mtf_units())
    want = 1.0 / (lam * 1e-3 * float(m.FNO))
    if abs(dx * n - want) > 1e-9 * want:
        out.append({'kind': 'freq-axis', 'site': 'FFTMTF._get_mtf_units', 'lens': name, 'grid_size': grid, 'num_rays': n,
                    'wavelength': float(lam), 'FNO': float(m.FNO), 'cutoff_reported': dx * n, 'cutoff_expected': want,
                    'ratio': dx * n / want})
    curves = None
    if np.all(np.isfinite(m.mtf[0][0])):
        try:
            curves = _axis_from_view(m)
        except ValueError as e:
            out.append({'kind': 'view-axis-length', 'site': 'FFTMTF.view', 'lens': name, 'num_rays': n, 'grid_size': grid,
                        'axis_len': grid // 2, 'curve_len': int(len(m.mtf[0][0])), 'python_error': str(e)[:100]})
    if perfect and p.psf.shape == (grid, grid) and np.all(np.isfinite(m.mtf[0][0])):
        # sampled MTF of the unaberrated circular pupil against (2/pi)(phi - cos phi sin phi): index s is a shift of s pupil
        # samples, i.e. nu = s/num_rays; the observed sampling error is below 0.9/num_rays
        for nm, cv in (('tangential', m.mtf[0][0]), ('sagittal', m.mtf[0][1])):
            nu = np.clip(np.arange(len(cv)) / n, 0, 1)
            phi = np.arccos(nu)
            err = float(np.max(np.abs(cv - 2 / np.pi * (phi - np.cos(phi) * np.sin(phi)))))
            if err > 1.0 / n:
                out.append({'kind': 'mtf-vs-closed-form', 'site': 'FFTMTF', 'lens': name, 'curve': nm, 'num_rays': n,
                            'grid_size': grid, 'max_abs_error': err, 'allowed': 1.0 / n})
                break
    return out


def oracle_defocus_pair(n, grid):
    """same pupil, two focus settings: total PSF energy must not change; aberrated MTF must not exceed the perfect one"""
    from optiland.psf import FFTPSF
    from optiland.mtf import FFTMTF
    out = []
    a = FFTPSF(paraboloid(), (0, 0), 0.55, num_rays=n, grid_size=grid)
    b = FFTPSF(paraboloid(defocus=0.05), (0, 0), 0.55, num_rays=n, grid_size=grid)
    if a.psf.shape == b.psf.shape and np.all(np.isfinite(a.psf)) and np.all(np.isfinite(b.psf)):
        ea, eb = float(a.psf.sum()), float(b.psf.sum())
        if np.array_equal(a.data[0][0][1], b.data[0][0][1]) and abs(ea - eb) > 1e-7 * abs(ea):
            out.append({'kind': 'energy-depends-on-aberration', 'site': 'FFTPSF', 'num_rays': n, 'grid_size': grid, 'energies': [ea, eb]})
        if a.psf.shape == (grid, grid):
            ma = FFTMTF(paraboloid(), fields=[(0, 0)], wavelength=0.55, num_rays=n, grid_size=grid).mtf[0]
            mb = FFTMTF(paraboloid(defocus=0.05), fields=[(0, 0)], wavelength=0.55, num_rays=n, grid_size=grid).mtf[0]
            for nm, x, y in (('tangential', ma[0], mb[0]), ('sagittal', ma[1], mb[1])):
                if np.max(y - x) > 1e-9:
                    out.append({'kind': 'mtf-above-diffraction-limit', 'site': 'FFTMTF', 'curve': nm, 'num_rays': n,
                                'grid_size': grid, 'excess': float(np.max(y - x))})
    return out


def search(ctx, broken, disagreements):
    """state C11 directly on the real implementation and sweep (seeded) for failing inputs; returns every distinct kind"""
    _quiet()
    import lensgen
    r = random.Random(ctx.seed + 101)
    found = {}
    ctx.c11_oracle_evals = 0

    def add(ws):
        ctx.c11_oracle_evals += 1
        for w in ws:
            found.setdefault((w['kind'], w.get('site')), w)
    for (n, grid) in [(16, 32), (16, 33), (17, 32), (17, 33), (16, 34), (15, 37), (24, 64), (32, 64)] + ([(64, 256), (33, 128)] if not ctx.quick() else []):
        try:
            add(oracle_lens(paraboloid(), n, grid, perfect=True, name='paraboloid'))
            add(oracle_lens(paraboloid(clip=7.0), n, grid, name='paraboloid-clipped'))
            add(oracle_defocus_pair(n, grid))
        except Exception as e:     # noqa
            ctx.notes.append(f'search: paraboloid {n},{grid} raised {type(e).__name__}: {str(e)[:80]}')
    for n in (21, 31):
        try:
            add(oracle_lens(paraboloid(), n, 64, perfect=True, name='paraboloid'))
        except Exception as e:     # noqa
            ctx.notes.append(f'search: paraboloid {n} raised {type(e).__name__}: {str(e)[:80]}')
    try:
        add(oracle_lens(finite_singlet(), 16, 32, name='finite-singlet'))
    except Exception as e:     # noqa
        ctx.notes.append(f'search: finite singlet raised {type(e).__name__}')
    for name, o in immersed_lenses(random.Random(ctx.seed + 103), ctx.n(4, 30)):
        try:
            add(oracle_lens(o, 16, 32, name=name))
        except Exception:    # noqa
            continue
    # pupils of non-uniform amplitude: clipped away from the stop (on axis and vignetted off axis), obscured, absorbing glass
    for kind in ('rear-aperture', 'obscuration', 'absorbing', 'absorbing-clipped'):
        for fs in ((0.0,), (0.0, 3.0)):
            try:
                add(oracle_lens(apodised_singlet(kind, fields=fs), 16, 32, name=f'apodised-{kind}-{"offaxis" if len(fs) > 1 else "axis"}'))
            except Exception as e:    # noqa
                ctx.notes.append(f'search: apodised {kind} raised {type(e).__name__}: {str(e)[:80]}')
    for t in range(ctx.n(10, 80)):
        try:
            o = lensgen.build(lensgen.simple_spec(r, n=r.choice([1, 2, 3, 4, 6])))
            add(oracle_lens(o, r.choice([16, 20, 32]), r.choice([32, 48, 64]), name=f'gen{t}'))
        except Exception:    # noqa
            continue
    # cut-off of the geometric MTF
    try:
        res = check_cutoff(ctx)
        add([d for d in res.get('disagreements', []) if d.get('violates_property')])
    except Exception as e:     # noqa
        ctx.notes.append(f'search: cutoff raised {type(e).__name__}')
    if broken or disagreements:      # called by the runner (check_oracle calls with empty lists; the other sweeps are checks of their own)
        for fn_ in (check_multifield, check_routes):
            try:
                res = fn_(ctx)
                add([d for d in res.get('disagreements', []) if d.get('violates_property')])
            except Exception as e:     # noqa
                ctx.notes.append(f'search: {fn_.__name__} raised {type(e).__name__}')
    ws = list(found.values())
    try:            # unlisted witnesses first
        known = vlib.load_known_findings(PROP)
        ws.sort(key=lambda w_: any(matches_finding(w_, f) for f in known))
    except Exception:    # noqa
        pass
    return ws or None


# ----------------------------------------------------------------------------------------------
# known findings
# ----------------------------------------------------------------------------------------------
def matches_finding(w, f):
    m = f.get('match', {})
    if w.get('kind') != m.get('kind'):
        return False
    k = m['kind']
    if k == 'pad-parity':
        return (w.get('grid_size', 0) - w.get('num_rays', 0)) % 2 == 1 and w.get('shape') == [w['grid_size'] - 1] * 2
    if k == 'strehl-gt-1':
        return w.get('zero_intensity_samples', 0) > 0 and w.get('shape') == [w.get('grid_size')] * 2
    if k == 'freq-axis':
        return w.get('site') == m['site'] and abs(w.get('ratio', 0) - w.get('grid_size', 0) / 1000.0) < 1e-9 * w.get('grid_size', 1)
    if k == 'mask-mismatch':
        return w.get('site') == m['site'] and w.get('num_rays') is not None and _mask_counts(w['num_rays'])[0] != _mask_counts(w['num_rays'])[1] \
            and w.get('traced_samples') == _mask_counts(w['num_rays'])[0]
    if k == 'cutoff-fno':
        return w.get('site') == m['site'] and w.get('object_infinite') is False and bool(w.get('uses_paraxial_fno'))
    if k == 'view-axis-length':
        g = w.get('grid_size', 0)
        return w.get('site') == m['site'] and g % 2 == 1 and w.get('axis_len') == g // 2 and w.get('curve_len') == g - g // 2
    if k == 'geo-mtf-vs-line-spread':
        # only the deviation that is EXACTLY "intensity ignored": the curve is the transform of the unweighted line spread and
        # the traced rays do not all carry the same intensity
        return w.get('site') == m['site'] and bool(w.get('equals_unweighted_line_spread')) and \
            (w.get('zero_intensity_rays', 0) > 0 or w.get('uniform_intensity') is False)
    if k == 'geo-mtf-max-freq-arg':
        return w.get('site') == m['site'] and "no attribute 'max_freq'" in str(w.get('python_error', ''))
    return False


def _mask_counts(n):
    x = np.linspace(-1, 1, n)
    X, Y = np.meshgrid(x, x)
    return int(((X ** 2 + Y ** 2) <= 1).sum()), int((np.sqrt(X ** 2 + Y ** 2) <= 1).sum())


def replay_finding(ctx, f):
    _quiet()
    m = f.get('match', {})
    k = m.get('kind')
    rp = m.get('replay', {})
    if k == 'pad-parity':
        ws = oracle_lens(paraboloid(), rp.get('num_rays', 33), rp.get('grid_size', 64), perfect=True)
        return any(matches_finding(w, f) for w in ws)
    if k == 'strehl-gt-1':
        ws = oracle_lens(paraboloid(clip=rp.get('clip_radius', 7.0)), rp.get('num_rays', 32), rp.get('grid_size', 64))
        return any(matches_finding(w, f) for w in ws)
    if k == 'freq-axis':
        ws = oracle_lens(paraboloid(), rp.get('num_rays', 32), rp.get('grid_size', 64), perfect=True)
        return any(matches_finding(w, f) for w in ws)
    if k == 'mask-mismatch':
        ws = oracle_lens(paraboloid(), rp.get('num_rays', 31), rp.get('grid_size', 64))
        return any(matches_finding(w, f) for w in ws)
    if k == 'view-axis-length':
        ws = oracle_lens(paraboloid(), rp.get('num_rays', 17), rp.get('grid_size', 33), perfect=True)
        return any(matches_finding(w, f) for w in ws)
    if k == 'geo-mtf-vs-line-spread':
        o = paraboloid(fields=[0.0, 1.0], conic=0.0, fno=100.0 / 30.0, defocus=0.1, clip=rp.get('clip_radius', 9.0))
        ws = oracle_geo_fields(o, [o.fields.get_field_coords()[-1]], 0.55, 'spherical-mirror-clipped', scale=False)
        return any(matches_finding(w, f) for w in ws)
    if k == 'geo-mtf-max-freq-arg':
        from optiland.mtf import GeometricMTF
        try:
            GeometricMTF(paraboloid(), fields=[(0.0, 0.0)], num_rays=6, num_points=4, max_freq=rp.get('max_freq', 50.0))
            return False
        except AttributeError as e:
            return "no attribute 'max_freq'" in str(e)
    if k == 'cutoff-fno':
        from optiland.mtf import GeometricMTF, FFTMTF
        o = finite_singlet()
        gm = GeometricMTF(o, fields=[(0.0, 0.0)], num_rays=6, num_points=4)
        fm = FFTMTF(o, fields=[(0.0, 0.0)], num_rays=6, grid_size=8)
        return bool(abs(gm.max_freq - fm.max_freq) > 1e-9 * fm.max_freq and
                    abs(gm.max_freq * o.paraxial.FNO() - fm.max_freq * fm.FNO) < 1e-9 * fm.max_freq * fm.FNO)
    return None


def broken_explained(b, known, witnesses):
    return False

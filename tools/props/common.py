"""Defaults shared by the property modules."""
BASE_TRUSTED = [
    'Coq 8.16.1 kernel (coqc; vm_compute used for model evaluation; native_compute not used)',
    'axioms (Print Assumptions allow-list): ClassicalDedekindReals.sig_not_dec, ClassicalDedekindReals.sig_forall_dec, FunctionalExtensionality.functional_extensionality_dep, Classical_Prop.classic (all from the Coq standard library, via Reals); PrimFloat primitives',
    'translator tools/py2coq.py (Python AST -> Gallina under NumPy per-ray scalar semantics), validated on every run by executing each kernel against the Python function it came from',
    'correspondence harness tools/vlib.py (case generation, exact binary64 literals, comparison inside Coq)',
    'binary64 rounding/overflow/signed zero are not covered by the theorems (exact reals / extended reals); the correspondence check runs the same terms in PrimFloat',
]


def no_findings_match(w, f):
    return False

"""C19 - saving and reloading a lens preserves its behaviour."""
import contextlib
import io
import json
import random

from props.common import BASE_TRUSTED
import kernels_C19

PROP = 'C19'
KERNELS = ['c19_ap_scale', 'c19_coat_init', 'c19_get_thickness', 'codec_flags'] + kernels_C19.CODEC_KERNELS
THEOREMS = ['C19_dict_roundtrip_partial', 'C19_file_roundtrip_partial', 'C19_to_dict_json_safe_iff',
            'C19_dict_fixpoint_partial', 'C19_same_behaviour_partial', 'C19_reload_traces_identically_partial',
            'C19_to_dict_injective_partial', 'C19_serialisable_after_edits', 'C19_reloadable_after_edits_partial',
            'C19_fixed_serialisable', 'C19_fixed_file_roundtrip', 'C19_decode_to_dict', 'C19_replay_waves_id',
            'C19_d_cs_e_cs', 'C19_coat_init_energy', 'C19_ap_scale_compose', 'C19_ap_scale_inverse']
COQ_TARGETS = ['Lemmas/L_C19_Pins.vo', 'Lemmas/L_C19_Ex.vo', 'Lemmas/L_C19_Trace.vo', 'Model/M_C19_Run.vo']
TRUSTED_BASE = BASE_TRUSTED + [
    'hand model Model/M_C19.v of every to_dict/from_dict/__init__ triple (typed state = primary attributes); tied to the '
    'code by (1) Lemmas/L_C19_Pins.v: the codec tables regenerated from the sources by tools/py2coq_codec.py equal the '
    'pinned ones by reflexivity, (2) evaluation of to_dict/decode/json_safe/apply_edit in Coq (binary64) against the real '
    'dictionaries and reloaded objects, the state being read from object ATTRIBUTES',
    'defect-site behaviour of the model is selected by flags regenerated from the sources (k_flag_*), so theorems are '
    'stated for every flag value and the harness runs the model with the current ones',
    'assumed, validated on every generated dictionary: json.load(json.dump(d)) == d for dictionaries without live objects '
    '(float repr round trip, Infinity/NaN literals, key order)',
    'modelled as parameters: Material._retrieve_file (catalogue lookup, C18), str.lower, PickupManager.add arithmetic '
    '(apply_pickups), values written by edits (the edit model quantifies over them)',
    'derived attributes (SimpleCoating.absorptance, Wavelength._value_in_um, FresnelCoating.jones, parsed material data, '
    'Surface.semi_aperture, SurfaceFactory.last_thickness, trace records) are recomputed or reset by the constructors and are '
    'not part of the state; that they do not change behaviour is checked by the bitwise ray/paraxial comparison of the oracle',
]
RULE = ('lenses: tools/lensgen.gen_spec prescriptions (all surface types, catalogue/ideal media, mirrors, decentres, '
        'apertures, simple coatings, 1-3 fields and wavelengths, 3 aperture types) decorated by tools/c19lib.gen_recipe with '
        'BSDFs, Abbe/file/catalogue/Mirror materials, reference frames, wavelength units, telecentric flags, Fresnel '
        'coatings, polarization states, ImageSurface instances, missing aperture, then 0-5 edits out of set_radius/conic/'
        'thickness/index/asphere_coeff, scale_system, image_solve, pickups (radius/conic/thickness, also left stale), '
        'marginal-ray solves, update(), short optimisations, remove_surface(k), mid-lens add_surface(index=k), conic on a flat surface; every lens: load the same dictionary twice and compare it with a deep copy taken before, apply a fixed edit history to the original and to the reloaded lens, overwrite the reloaded lens and the dictionary in place and re-read the original; non-trivial = lens with at least one decoration or edit')
PARTIAL = [
    'round-trip theorems carry the hypothesis `reloadable`: wavelength-list invariant kept by add_wavelength, a reload path '
    'for every class in the lens (image_from_dict / aperture_none_ok flags), and - while PickupManager.from_dict re-applies '
    'pickups - that the lens is at a fixed point of its pickups; file round trip additionally needs live_free (no Fresnel '
    'coating / polarization state unless their encoders exist).  With all listed defects repaired (impl_fixed) the only '
    'remaining hypothesis is the wavelength invariant (C19_fixed_file_roundtrip, C19_fixed_serialisable).',
    'loadable also asks for plane_conic when a flat surface carries a conic (open finding plane-conic-dropped); '
    'C19_reloadable_after_edits_partial therefore excludes, while that flag is false, edit histories that leave a conic on a flat surface',
    'object identity is outside the typed model: that from_dict leaves its argument untouched, that a second load gives the same '
    'lens and that the reloaded lens, the dictionary and the original share no mutable value (open finding '
    'evenasphere-coeff-aliasing) are checked by the oracle only (scribble over the copy and the dictionary, re-read the original)',
    'state read only by a later add_surface (SurfaceFactory.last_thickness) is not saved: the post-reload edit comparison leaves add_surface out',
    'ndarray-valued vertex positions (set_thickness / solves) are outside the typed state: detected by the harness '
    '(unrepresentable / json.dumps fails), not by a theorem',
    'the model is claimed on well-typed dictionaries only (a value of the wrong JSON type makes decode return None)',
    'semi_aperture (update_paraxial) and SurfaceFactory.last_thickness are not serialised; they affect drawing and a '
    'subsequent add_surface only, not rays or paraxial data of the reloaded lens',
]


@contextlib.contextmanager
def quiet():
    with contextlib.redirect_stdout(io.StringIO()):
        yield


# --------------------------------------------------------------------------------------------------
def kernel_cases(ctx):
    g = ctx.gen
    n = ctx.n(200, 2000)
    sc, co, th = [], [], []
    for i in range(n):
        s = g.special(0.04)
        sc.append([g.uni(0.1, 5) if s is None else s, g.uni(0.5, 30), g.uni(0, 3)])
        co.append([g.uni(0, 1), g.uni(0, 1)])
        m = g.r.randrange(2, 12)
        z = [g.uni(-50, 50) for _ in range(m)]
        if i % 10 == 0:
            z[0] = float('-inf')
        th.append([g.r.randrange(0, m - 1), z])
    yield 'c19_ap_scale', sc, {}
    yield 'c19_coat_init', co, {}
    yield 'c19_get_thickness', th, {'plain_self': True, 'arrays': ['self.positions']}


# --------------------------------------------------------------------------------------------------
def _flags(ctx):
    man = ctx.manifests.get('codec_flags')
    if man and man.get('flags'):
        return man['flags']
    # translation failed: fall back to extracting directly (the failure itself is already an obligation failure)
    import py2coq_codec
    import vlib
    k = py2coq_codec.CodecKernel(dict(name='codec_flags', file='optiland/optic.py', mode='flags'), {}, vlib.REPO)
    k.translate()
    return k.flags


def _cases(ctx, n, seed_mul=11, with_corpus=True):
    """(recipe, optic, origin) for buildable recipes"""
    import c19lib as L
    rng = random.Random(ctx.seed * seed_mul + 19)
    out = []
    hist = {'recipes': 0, 'build_errors': {}}
    recipes = (L.corpus() if with_corpus else []) + [L.gen_recipe(rng, i) for i in range(n)]
    hist['corpus'] = len(L.corpus()) if with_corpus else 0
    for rec in recipes:
        hist['recipes'] += 1
        try:
            with quiet():
                o, origin = L.array_origin(rec)
        except Exception as e:   # noqa: the recipe asks for something the API refuses
            k = type(e).__name__
            hist['build_errors'][k] = hist['build_errors'].get(k, 0) + 1
            continue
        out.append((rec, o, origin))
    return out, hist


def _edit_list(L, b, a):
    """edits (Coq text) that turn state b into state a if the real edit only wrote where the model allows"""
    es = []
    sb, sa = b[3], a[3]
    if len(sb) != len(sa):
        return None

    def geom(s):
        return s[1]
    for j, (x, y) in enumerate(zip(sb, sa)):
        gy = geom(y)
        if gy[0] == 'GPlane' and geom(x)[0] == 'GStd':
            es.append(f'ESetFlat {j}%nat {L.copt(L.cfl, gy[2])}')
        elif gy[0] == 'GPlane' and geom(x)[0] == 'GPlane' and L.canon(gy[2]) != L.canon(geom(x)[2]):
            es.append(f'ESetPlaneConic {j}%nat {L.copt(L.cfl, gy[2])}')
        if gy[0] != 'GPlane':
            es.append(f'ESetRadius {j}%nat {L.cfl(gy[2])}')
            es.append(f'ESetConic {j}%nat {L.cfl(gy[3])}')
        if gy[0] == 'GEven':
            for i, c in enumerate(gy[6]):
                es.append(f'ESetCoeff {j}%nat {i}%nat {L.cfl(c)}')
        es.append(f'ESetPos {j}%nat {L.cfl(gy[1][1])} {L.cfl(gy[1][2])} {L.cfl(gy[1][3])}')
        if y[0] == 'SStandard' and y[5] is not None:
            es.append(f'ESetPhysAperture {j}%nat {L.cfl(y[5][1])} {L.cfl(y[5][2])}')
        if y[0] == 'SImage' and y[3] is not None:
            es.append(f'ESetPhysAperture {j}%nat {L.cfl(y[3][1])} {L.cfl(y[3][2])}')
        if x[0] == 'SStandard' and y[0] == 'SStandard' and L.canon(x[3]) != L.canon(y[3]) and y[3][0] == 'MIdeal':
            es.append(f'ESetIndex {j}%nat {L.cfl(y[3][1])}')
    if a[1] is not None:
        es.append(f'ESetApertureValue {L.cfl(a[1][2])}')
    for p in a[8][len(b[8]):]:
        es.append(f'EAddPickup {L.c_state(p)}')
    for s in a[9][len(b[9]):]:
        es.append(f'EAddSolve {L.c_state(s)}')
    return '[' + '; '.join(es) + ']'


def system_checks(ctx):
    import c19lib as L
    import vlib
    from optiland.optic import Optic
    flags = _flags(ctx)
    cases, hist = _cases(ctx, ctx.n(70, 700))
    hist.update({'lenses': len(cases), 'decorated_or_edited': 0, 'json_ok': 0, 'json_fails': 0, 'reload_raises': 0,
                 'dec_skipped_pickups_reapplied': 0, 'unrepresentable': 0, 'features': {}})
    # ---------------- (1) codec model against the implementation, evaluated in Coq
    res = {'name': 'codec-model-vs-implementation', 'n': 0, 'nontrivial': 0, 'histogram': hist, 'samples': [],
           'disagreements': []}
    oracle_res = {'name': 'roundtrip-oracle-on-implementation', 'n': 0, 'nontrivial': 0, 'samples': [], 'disagreements': [],
                  'histogram': {}}
    lines, owner, viols = [], [], {}
    defs = []
    for ci, (rec, o, origin) in enumerate(cases):
        with quiet():
            v = L.oracle(o, origin)
        viols[ci] = v
        nontriv = bool(rec['extras'] or rec['edits'])
        hist['decorated_or_edited'] += int(nontriv)
        for k in list(rec['extras']) + [e[0] for e in rec['edits']]:
            hist['features'][k] = hist['features'].get(k, 0) + 1
        oracle_res['n'] += 1
        oracle_res['nontrivial'] += int(nontriv)
        for x in v:
            oracle_res['histogram'][x['site']] = oracle_res['histogram'].get(x['site'], 0) + 1
            oracle_res['disagreements'].append({'site': x['site'], 'stage': x['stage'], 'detail': x.get('detail'),
                                                'recipe': rec, 'violates_property': True})
        try:
            st, issues, cat = L.extract(o)
            with quiet():
                d = o.to_dict()
            try:
                json.dumps(d)
                jok = True
            except Exception:   # noqa
                jok = False
            hist['json_ok' if jok else 'json_fails'] += 1
            try:
                with quiet():
                    o2 = Optic.from_dict(d)
                st2, _, cat2 = L.extract(o2)
                cat.update(cat2)
            except L.Unrepresentable:
                raise
            except Exception:   # noqa
                st2 = None
                hist['reload_raises'] += 1
            cl, cd = L.c_state(st), L.c_json(d)
        except L.Unrepresentable as e:
            hist['unrepresentable'] += 1
            res['disagreements'].append({'recipe': rec, 'what': 'state not representable in the model', 'detail': str(e),
                                         'violates_property': bool(v), 'site': v[0]['site'] if v else None})
            continue
        defs.append(f'Definition cat{ci} := {L.c_cat(cat)}.\nDefinition l{ci} : lens float := {cl}.\n'
                    f'Definition d{ci} : fJ := {cd}.')
        I = L.c_impl(flags)
        lines.append(f'chk_enc {I} cat{ci} l{ci} d{ci}')
        owner.append((ci, 'enc'))
        skip_dec = (flags['pickups_applied_on_load'] and len(st[8]) > 0 and st2 is not None
                    and L.canon(st2) != L.canon(st))
        if skip_dec:
            hist['dec_skipped_pickups_reapplied'] += 1
        else:
            l2 = 'None' if st2 is None else f'(Some {L.c_state(st2)})'
            lines.append(f'chk_dec {I} cat{ci} d{ci} {l2}')
            owner.append((ci, 'dec'))
        lines.append(f'chk_safe {I} cat{ci} l{ci} {L.cbool(jok)}')
        owner.append((ci, 'safe'))
        res['n'] += 1
        res['nontrivial'] += int(nontriv)
        if len(res['samples']) < 2:
            res['samples'].append({'recipe_edits': rec['edits'], 'extras': rec['extras'], 'json_ok': jok,
                                   'surfaces': [s[0] + ':' + s[1][0] for s in st[3]]})
    chunk = 12
    bodies = []
    idx = []
    # definitions are per lens; put each lens's checks in the same body as its definitions
    per = {}
    for ln, (ci, kind) in zip(lines, owner):
        per.setdefault(ci, []).append((ln, kind))
    cis = sorted(per)
    dmap = {}
    for dtext in defs:
        dmap[int(dtext.split(' ')[1][3:])] = dtext
    for s in range(0, len(cis), chunk):
        part = cis[s:s + chunk]
        body = '\n'.join(dmap[c] for c in part)
        flat = [(c, ln, kind) for c in part for (ln, kind) in per[c]]
        body += '\nEval vm_compute in (report [\n' + ';\n'.join(ln for _, ln, _ in flat) + '\n]).\n'
        bodies.append(body)
        idx.append(flat)
    try:
        out = vlib.run_cases('C19codec', 'From OV Require Import Spec.S_C19 Model.M_C19 Lemmas.L_C19 Model.M_C19_Run.',
                             bodies) if bodies else []
    except Exception as e:   # noqa
        res['error'] = str(e)
        out = []
    for flat, r in zip(idx, out):
        if r[0] == 'error':
            res['error'] = r[1]
            break
        for i in r[2]:
            ci, ln, kind = flat[i]
            rec = cases[ci][0]
            v = viols.get(ci, [])
            stages = {'safe': ('json.dumps',), 'dec': ('from_dict', 'state', 'reloaded-state'), 'enc': ()}[kind]
            expl = [x for x in v if x['stage'].split('(')[0] in stages]
            res['disagreements'].append({'recipe': rec, 'what': f'model check {kind} fails', 'violates_property': bool(expl),
                                         'site': expl[0]['site'] if expl else None,
                                         'detail': expl[0].get('detail') if expl else 'model and implementation disagree'})
        if r[1] > len(r[2]):
            res['disagreements'].append({'what': f'{r[1] - len(r[2])} further failing checks in a shard',
                                         'violates_property': False})
    yield res
    if oracle_res['disagreements']:
        # one witness per site is enough for the verdict; keep the evidence small
        seen, keep = set(), []
        for dd in oracle_res['disagreements']:
            if dd['site'] not in seen:
                seen.add(dd['site'])
                keep.append(dd)
        oracle_res['disagreements'] = keep
    oracle_res['samples'] = [{'sites_seen': dict(oracle_res['histogram'])}]
    yield oracle_res

    # ---------------- (2) the edit model: a real edit writes only where apply_edit does
    eres = {'name': 'edit-model-vs-implementation', 'n': 0, 'nontrivial': 0, 'samples': [], 'disagreements': [],
            'histogram': {}}
    bodies, idx = [], []
    steps = []
    for ci, (rec, _, _) in enumerate(cases):
        if not rec['edits'] or len(steps) >= ctx.n(60, 600):
            continue
        states = []

        def on_step(o, j, op, states=states):
            try:
                states.append((j, op, L.extract(o)))
            except L.Unrepresentable:
                states.append((j, op, None))
        try:
            with quiet():
                L.build_recipe(rec, on_step=on_step)
        except Exception:   # noqa
            continue
        for (j0, _, x0), (j1, op, x1) in zip(states, states[1:]):
            if x0 is None or x1 is None:
                continue
            es = _edit_list(L, x0[0], x1[0])
            if es is None:
                continue
            cat = dict(x0[2])
            cat.update(x1[2])
            steps.append((rec, op, f'chk_edit {L.c_impl(flags)} {L.c_cat(cat)} {L.c_state(x0[0])} {es} {L.c_state(x1[0])}'))
            eres['histogram'][op[0]] = eres['histogram'].get(op[0], 0) + 1
    for s in range(0, len(steps), 15):
        part = steps[s:s + 15]
        bodies.append('Eval vm_compute in (report [\n' + ';\n'.join(t for _, _, t in part) + '\n]).\n')
        idx.append(part)
    try:
        out = vlib.run_cases('C19edit', 'From OV Require Import Spec.S_C19 Model.M_C19 Lemmas.L_C19 Model.M_C19_Run.',
                             bodies) if bodies else []
    except Exception as e:   # noqa
        eres['error'] = str(e)
        out = []
    for part, r in zip(idx, out):
        if r[0] == 'error':
            eres['error'] = r[1]
            break
        eres['n'] += r[0]
        eres['nontrivial'] += r[0]
        for i in r[2]:
            rec, op, _ = part[i]
            eres['disagreements'].append({'recipe': rec, 'op': op, 'what': 'edit wrote outside the components the edit '
                                          'model allows', 'violates_property': False})
    if steps:
        eres['samples'].append({'op': steps[0][1]})
    yield eres


# --------------------------------------------------------------------------------------------------
def search(ctx, broken, disagreements):
    """the property itself as an oracle on the implementation: to_dict -> json -> from_dict on generated lenses
    (state, dictionary fix-point, bitwise rays, paraxial data), one witness per distinct call site"""
    import c19lib as L
    cases, _ = _cases(ctx, ctx.n(160, 1200), seed_mul=29)
    found = {}
    for rec, o, origin in cases:
        with quiet():
            v = L.oracle(o, origin)
        for x in v:
            if x['site'] not in found:
                found[x['site']] = {'site': x['site'], 'stage': x['stage'], 'detail': x.get('detail'), 'recipe': rec,
                                    'violates_property': True}
    return list(found.values()) or None


def matches_finding(w, f):
    return bool(w.get('site')) and w.get('site') == f.get('match', {}).get('site')


def replay_finding(ctx, f):
    import c19lib as L
    m = f.get('match', {})
    rec = m.get('recipe')
    if not rec:
        return None
    with quiet():
        o, origin = L.array_origin(rec)
        v = L.oracle(o, origin)
    return any(x['site'] == m.get('site') for x in v)


def broken_explained(b, known, witnesses):
    return False

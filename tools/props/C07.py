"""C07 - results transform correctly under symmetries and re-descriptions of the lens."""
import copy
import math
import os
import random
import re
import types
import warnings

import vlib
from props.common import BASE_TRUSTED

PROP = 'C07'
KERNELS = ['c07_cs_localize', 'c07_cs_globalize', 'c07_ap_scale', 'c07_ideal_n', 'c07_ideal_k',
           'c07_get_thickness', 'c07_is_rotsym', 'c07_origins_inf', 'c07_z_offset', 'c07_origins',
           # shared kernels the C07 theorems are stated over
           'translate', 'rotate_x', 'rotate_y', 'rotate_z', 'refract', 'reflect', 'propagate', 'align',
           'std_distance', 'std_normal', 'std_sag', 'plane_distance', 'radial_clip', 'rr_clip',
           'surf_trace_paraxial']
COQ_TARGETS = ['Model/Trace.vo', 'Model/M_C07.vo', 'Model/Paraxial.vo']


def _theorems():
    p = os.path.join(vlib.COQ, 'Props', 'C07.v')
    if not os.path.exists(p):
        return []
    return re.findall(r'Print Assumptions\s+([A-Za-z0-9_\']+)\s*\.', open(p).read())


THEOREMS = _theorems()
TRUSTED_BASE = BASE_TRUSTED + [
    'hand model coq/Model/Trace.v (plumbing of the sequential trace; its frame changes are PROVED equal to the regenerated '
    'CoordinateSystem.localize/globalize kernels) and coq/Model/M_C07.v (transformations of ray/prescription, model of '
    'Optic.scale_system/set_thickness): tied to the implementation by the correspondence checks',
    'modelled, not verified: n(w), k(w) of the media are inputs of the trace model; the paraxial launch data EPL/EPD are '
    'inputs of the ray-generator kernels',
    'implementation-level oracle tools/c07lib.py + search(): metamorphic relations stated directly on optiland',
]
RULE = ('seeded lenses of 1-12 planes/spheres/conics (catalogue and ideal media, mirrors, radial apertures, coatings, finite and '
        'infinite objects, EPD/imageFNO/objectNA, angle/height fields); relations: mirror x / y / both (fields along y and x, '
        'random pupil points; every second lens has fields carrying vignetting factors vx/vy and gets all three mirrors incl. an '
        'off-axis field of either sign with an off-axis pupil point), tilt of a spherical surface about its centre of curvature |a| <= 0.3 rad about x or y, dummy plane '
        'at a random interior split of a random gap for every ray and at the two contact splits f = 0 / f = 1 (zero thickness) of '
        'EVERY gap from behind surface 1 to the image AND of the object gap (the dummy becomes surface 1 and the vertex list is '
        're-based) for one ray per lens; the transformed lens of the dummy and scale relations is built by a random public route '
        '(direct / ready-made Surface objects / reused Optic after reset() / to_dict-from_dict); a fixed corpus of 8 lenses (finite '
        'conjugates with the stop on and behind surface 1 under EPD / imageFNO / objectNA, an infinite-conjugate lens with planes) is '
        'added to every seed, wavelength change of an all-ideal lens, scale factors 10^u, u in [-2,2] '
        '(half of them powers of two) by an independently built scaled lens and by Optic.scale_system (planes/conics, angular '
        'fields, with and without decentres); argument forms of trace_generic: on 15 fixed all-ideal lenses (7 with non-integer '
        'pupil position / EPD / object distance / field, stop inside, on surface 1 and behind the lens, infinite and finite '
        'objects, EPD / imageFNO / objectNA) and 3 random ones (one with vignetting factors) the chief and rim rays of the '
        'fields H = (0,+-1), (0,0), (1,1) are written as float64 arrays, int64 / int32 arrays, Python int and float scalars and '
        'mixtures on ONE live Optic (float form, other forms, float form again): launch record against the prescription '
        '(independently computed entrance-pupil position), scale s = 0.01 / 100 / random, mirrors, equality of all forms; '
        'non-trivial = relation evaluated on a ray that reaches the image with finite data')
PARTIAL = [
    'tilt about the centre of curvature: proved that both descriptions denote the same sphere (same quadric value for every '
    'global point) and that the frame changes are the translated kernels; that the kernel then selects the same root '
    '("closest to local z = 0" is frame dependent) and the full equality of the outgoing ray are checked by correspondence '
    'and searched for counterexamples, not proved; the relation is evaluated only for hits on the cap of the sphere that '
    'is the sag sheet in both frames (within 90 deg - |tilt| - 6 deg of the vertex as seen from the centre): beyond it the '
    'library normal is that of the other sheet (sheet hypothesis of C02)',
    'dummy surface: proved that the dummy only advances the ray (equal-media refraction is the identity, propagation and '
    'path add) and that a following PLANE sees the same intersection; for a following conic the shift-invariance of the '
    'quadric along the ray is proved, the root selection (hit between the two surfaces) is a hypothesis checked numerically',
    'homogeneity / mirror covariance of the whole trace are proved for planes and conics (exact reals and extended reals for '
    'the mirrors, exact reals for scaling); aspheres are covered by correspondence only',
    'scale_system: proved for EVERY prescription with real vertex positions (any number of surfaces, decentres included) '
    'that the model of the operation equals "every length times s" (scale_system_is_scaling); for an object at infinity the '
    'exact-real instance cannot express the isinf test, so the theorem is stated on the loop entered after the skipped object '
    'gap (scale_pos_infinite_object: object entry untouched, every other vertex times s) and the test itself is covered by '
    'executing the model (binary64, -inf object) against optiland on every run',
    'launch (RayGenerator): homogeneity of the launch point is PROVED over the regenerated kernels of _get_starting_z_offset / '
    '_get_ray_origins (z_offset_homogeneous, origins_homogeneous: infinite and finite objects, both field types); its mirror '
    'covariance and the direction cosines of generate_rays are checked on optiland (launch record of every pair), not proved',
    'first/third-order homogeneity (f2, Seidel sums scale by s): checked on optiland and on the paraxial model, not proved',
]

INF = float('inf')


# ----------------------------------------------------------------------------------------------
# 3a. translated kernels against the Python methods
# ----------------------------------------------------------------------------------------------
def _order(ctx, name, d):
    """case values in the order of the kernel's inputs (derived from /repo's read order)"""
    man = ctx.manifests[name]
    return [d[i['path']] for i in man['inputs']]


def kernel_cases(ctx):
    import numpy as np
    warnings.simplefilter('ignore')
    g = ctx.gen
    n = ctx.n(200, 2000)
    # CoordinateSystem.localize / globalize on REAL rays: run the real methods on real RealRays
    if 'c07_cs_localize' in ctx.manifests and 'c07_cs_globalize' in ctx.manifests:
        from optiland.coordinate_system import CoordinateSystem
        from optiland.rays import RealRays
        for kname, meth in (('c07_cs_localize', 'localize'), ('c07_cs_globalize', 'globalize')):
            cases, pyres = [], []
            for i in range(n):
                d = g.unit3()
                ang = [g.uni(-0.4, 0.4) if (i >> b) & 1 else 0.0 for b in range(3)]
                if i % 11 == 0:
                    ang = [g.uni(-3, 3), g.uni(-3, 3), g.uni(-3, 3)]
                v = {'self.x': g.uni(-2, 2) if i % 3 else 0.0, 'self.y': g.uni(-2, 2) if i % 4 else 0.0,
                     'self.z': g.uni(-50, 50), 'self.rx': ang[0], 'self.ry': ang[1], 'self.rz': ang[2],
                     'rays.x': g.uni(-20, 20), 'rays.y': g.uni(-20, 20), 'rays.z': g.uni(-60, 60),
                     'rays.L': d[0], 'rays.M': d[1], 'rays.N': d[2]}
                cases.append(_order(ctx, kname, v))
                try:
                    cs = CoordinateSystem(v['self.x'], v['self.y'], v['self.z'], v['self.rx'], v['self.ry'], v['self.rz'])
                    r = RealRays(v['rays.x'], v['rays.y'], v['rays.z'], v['rays.L'], v['rays.M'], v['rays.N'], 1.0, 0.55)
                    getattr(cs, meth)(r)
                    pyres.append({'ok': [float(np.ravel(a)[0]).hex() for a in (r.x, r.y, r.z, r.L, r.M, r.N)]})
                except Exception as e:   # noqa
                    pyres.append({'err': type(e).__name__})
            yield kname, cases, {'pyres': pyres, 'tol': 1e-12}
    if 'c07_ap_scale' in ctx.manifests:
        cases = [_order(ctx, 'c07_ap_scale', {'scale_factor': 10 ** g.uni(-2, 2), 'self.r_max': g.uni(0.1, 50),
                                              'self.r_min': g.r.choice([0.0, g.uni(0, 5)])}) for _ in range(n)]
        yield 'c07_ap_scale', cases, {'scalars': ['scale_factor', 'self.r_max', 'self.r_min']}
    if 'c07_ideal_n' in ctx.manifests:
        yield 'c07_ideal_n', [[g.uni(1, 4)] for _ in range(n // 4)], {'scalars': ['self.index']}
    if 'c07_ideal_k' in ctx.manifests:
        yield 'c07_ideal_k', [[g.uni(0, 1e-3)] for _ in range(n // 4)], {'scalars': ['self.absorp']}
    if 'c07_get_thickness' in ctx.manifests:
        cases = []
        for i in range(n // 2):
            m = g.r.randrange(2, 9)
            pos = [-INF if i % 3 == 0 else -g.uni(10, 400), 0.0]
            for _ in range(m):
                pos.append(pos[-1] + g.uni(-3, 30))
            k = g.r.randrange(0, len(pos) - 1)
            cases.append(_order(ctx, 'c07_get_thickness', {'surface_number': k, 'self.positions': pos}))
        yield 'c07_get_thickness', cases, {'shadow': ['positions'], 'arrays': ['self.positions']}
    if 'c07_is_rotsym' in ctx.manifests:
        cases = []
        for i in range(n // 2):
            z = lambda: g.r.choice([0.0, 0.0, 0.0, g.uni(-1, 1)])
            cases.append(_order(ctx, 'c07_is_rotsym', {'self.geometry.is_symmetric': bool(i % 5), 'self.geometry.cs.rx': z(),
                                                       'self.geometry.cs.ry': z(), 'self.geometry.cs.x': z(),
                                                       'self.geometry.cs.y': z()}))
        yield 'c07_is_rotsym', cases, {'scalars': ['self.geometry.cs.rx', 'self.geometry.cs.ry', 'self.geometry.cs.x',
                                                   'self.geometry.cs.y']}
    if 'c07_origins_inf' in ctx.manifests:
        from optiland.rays.ray_generator import RayGenerator
        cases, pyres = [], []
        for i in range(n):
            ft = 'angle' if i % 9 else 'object_height'
            tele = (i % 13 == 0)
            v = {'Hx': g.uni(-1, 1), 'Hy': g.uni(-1, 1), 'Px': g.uni(-1, 1), 'Py': g.uni(-1, 1),
                 'vx': g.uni(0.6, 1), 'vy': g.uni(0.6, 1), 'self.optic.fields.max_field': g.uni(0, 30),
                 'self.optic.field_type': ft, 'self.optic.obj_space_telecentric': tele,
                 'self.optic.paraxial.EPL()': g.uni(-20, 40), 'self.optic.paraxial.EPD()': g.uni(1, 20),
                 'self._get_starting_z_offset()': g.uni(1, 60),
                 'self.optic.surface_group.positions': [-INF, 0.0, g.uni(1, 9), g.uni(10, 60)]}
            cases.append(_order(ctx, 'c07_origins_inf', v))
            try:
                rg = object.__new__(RayGenerator)
                rg.optic = types.SimpleNamespace(
                    object_surface=types.SimpleNamespace(is_infinite=True),
                    fields=types.SimpleNamespace(max_field=v['self.optic.fields.max_field']), field_type=ft,
                    obj_space_telecentric=tele,
                    paraxial=types.SimpleNamespace(EPL=lambda v=v: v['self.optic.paraxial.EPL()'],
                                                   EPD=lambda v=v: v['self.optic.paraxial.EPD()']),
                    surface_group=types.SimpleNamespace(positions=np.array(v['self.optic.surface_group.positions'])))
                rg._get_starting_z_offset = lambda v=v: v['self._get_starting_z_offset()']
                x0, y0, z0 = rg._get_ray_origins(v['Hx'], v['Hy'], np.array([v['Px']]), np.array([v['Py']]), v['vx'], v['vy'])
                pyres.append({'ok': [float(np.ravel(a)[0]).hex() for a in (x0, y0, z0)]})
            except Exception as e:   # noqa
                pyres.append({'err': type(e).__name__})
        yield 'c07_origins_inf', cases, {'pyres': pyres, 'tol': 1e-12}


    if 'c07_z_offset' in ctx.manifests and 'c07_origins' in ctx.manifests:
        # the REAL RayGenerator methods on a stub optic (real object geometry, real _get_starting_z_offset)
        from optiland.rays.ray_generator import RayGenerator
        from optiland.coordinate_system import CoordinateSystem
        from optiland.geometries import StandardGeometry
        zc, zp, oc, op_ = [], [], [], []
        for i in range(n):
            inf = (i % 2 == 0)
            ft = 'other' if i % 31 == 5 else 'object_height' if (i % 4 == 3 or i % 16 == 2) else 'angle'
            tele = (i % 13 == 0)
            sc = 10 ** g.uni(-2, 2)               # micro-optics to large lenses: EPD from 0.03 to 900
            z0 = -INF if inf else -g.uni(10, 400) * sc
            pos = [z0, 0.0] + sorted(g.uni(-5, 60) * sc for _ in range(g.r.randrange(1, 6))) + [g.uni(60, 120) * sc]
            if i % 5 == 0:
                pos[2] = -g.uni(0.5, 5) * sc      # a vertex left of surface 1 (mirror systems)
            EPL, EPD = g.uni(-40, 40) * sc, g.uni(1, 9) * sc
            Robj, kobj = g.uni(50, 500) * sc * g.r.choice([-1, 1]), g.r.choice([0.0, -1.0, g.uni(-1, 0.5)])
            v = {'Hx': g.uni(-1, 1), 'Hy': g.uni(-1, 1), 'Px': g.uni(-1, 1), 'Py': g.uni(-1, 1),
                 'vx': g.uni(0.6, 1), 'vy': g.uni(0.6, 1),
                 'self.optic.fields.max_field': g.uni(0, 30) if ft != 'object_height' else g.uni(0, 20) * sc,
                 'self.optic.object_surface.is_infinite': inf, 'self.optic.field_type': ft,
                 'self.optic.obj_space_telecentric': tele,
                 'self.optic.paraxial.EPL()': EPL, 'self.optic.paraxial.EPD()': EPD,
                 'self.optic.surface_group.positions': pos,
                 'self.optic.object_surface.geometry.radius': Robj, 'self.optic.object_surface.geometry.k': kobj,
                 'self.optic.object_surface.geometry.cs.z': 0.0 if inf else z0}
            rg = object.__new__(RayGenerator)
            geo = StandardGeometry(CoordinateSystem(z=v['self.optic.object_surface.geometry.cs.z']), Robj, kobj)
            rg.optic = types.SimpleNamespace(
                object_surface=types.SimpleNamespace(is_infinite=inf, geometry=geo),
                fields=types.SimpleNamespace(max_field=v['self.optic.fields.max_field']), field_type=ft,
                obj_space_telecentric=tele,
                paraxial=types.SimpleNamespace(EPL=lambda EPL=EPL: EPL, EPD=lambda EPD=EPD: EPD),
                surface_group=types.SimpleNamespace(positions=np.array(pos)))
            zc.append(_order(ctx, 'c07_z_offset', v))
            try:
                zp.append({'ok': [float(np.ravel(rg._get_starting_z_offset())[0]).hex()]})
            except Exception as e:   # noqa
                zp.append({'err': type(e).__name__})
            oc.append(_order(ctx, 'c07_origins', v))
            try:
                x0, y0, z0_ = rg._get_ray_origins(v['Hx'], v['Hy'], np.array([v['Px']]), np.array([v['Py']]), v['vx'], v['vy'])
                op_.append({'ok': [float(np.ravel(a)[0]).hex() for a in (x0, y0, z0_)]})
            except Exception as e:   # noqa
                op_.append({'err': type(e).__name__})
        yield 'c07_z_offset', zc, {'pyres': zp, 'tol': 1e-12}
        yield 'c07_origins', oc, {'pyres': op_, 'tol': 1e-12}


# ----------------------------------------------------------------------------------------------
# metamorphic cases on generated lenses
# ----------------------------------------------------------------------------------------------
def _rays(rng, k):
    out = []
    for i in range(k):
        Hy = rng.choice([0.0, 1.0, -1.0, rng.uniform(-1, 1)])
        Hx = rng.choice([0.0, 0.0, rng.uniform(-1, 1)])
        rr, th = rng.choice([0.0, 0.4, 0.8, 1.0]), rng.uniform(0, 2 * math.pi)
        out.append((Hx, Hy, rr * math.cos(th), rr * math.sin(th)))
    return out


def _finite(rec):
    return all(math.isfinite(v) for v in rec[:6])


def _on_near_cap(rec, surf, ang):
    """the hit point is seen from the centre of curvature within 90 deg - |tilt| - margin of the vertex direction"""
    if not _finite(rec) or surf['shape'][0] != 'std':
        return not _finite(rec)      # a ray that already failed is compared as it is (NaN pattern)
    R = surf['shape'][1]
    cz = surf['z'] + R
    ux, uy, uz = (rec[0] - surf['x']) / abs(R), (rec[1] - surf['y']) / abs(R), (rec[2] - cz) / abs(R)
    cos_t = -uz * (1 if R > 0 else -1)
    return cos_t > math.sin(abs(ang)) + 0.1


def _rel_opd(recs):
    """records with the path measured from the first real surface (the launch plane of an object at infinity is a
    convention that legitimately moves with the vertex list)"""
    base = recs[1][7] if len(recs) > 1 else 0.0
    return [r[:7] + [r[7] - base] for r in recs]


def gen_cases(ctx, nl, rays_per, seed_mul=11):
    """list of metamorphic cases; each: dict(kind, spec, params, ray, w, base=(launch, recs) of the original lens,
    timpl=(launch, recs) of the transformed lens from optiland, surfs0 = model surfaces of the original lens,
    direct = discrepancy of the relation measured on the implementation alone, tol)"""
    import numpy as np
    import c07lib as L
    import lensgen
    warnings.simplefilter('ignore')
    rng = random.Random(ctx.seed * seed_mul + 7)
    cases = []
    hist = {'lenses': 0, 'build_errors': 0, 'kinds': {}, 'skipped_precondition': {}, 'trace_errors': 0,
            'lenses_with_vignetting_factors': 0,
            'mirror_pairs': {'vignetted_field_and_offaxis_pupil': 0, 'with_negative_Hx': 0, 'with_negative_Hy': 0,
                             'mx': 0, 'my': 0, 'mx_my': 0},
            'scale_factor_s': {'[0.01,0.1)': 0, '[0.1,1)': 0, '[1,10)': 0, '[10,100]': 0, 'end 0.01': 0, 'end 100': 0},
            'EPD_times_s': {'infinite object': {'<0.1': 0, '[0.1,1)': 0, '[1,10)': 0, '>=10': 0},
                            'finite object': {'<0.1': 0, '[0.1,1)': 0, '[1,10)': 0, '>=10': 0}},
            'dummy_split': {'interior': 0, 'contact_previous_vertex(f=0)': 0, 'contact_next_vertex(f=1)': 0},
            'dummy_gap': {'object gap (dummy becomes surface 1)': 0, 'first': 0, 'inner': 0, 'last(before image)': 0},
            'corpus_lenses': 0, 'system_aperture': {}, 'stop_on_first_surface': 0,
            'build_route_of_transformed_lens': {'direct': 0, 'handbuilt': 0, 'reuse': 0, 'roundtrip': 0},
            'dummy_skipped_plane_outside_gap': {'interior': 0, 'contact_previous_vertex(f=0)': 0, 'contact_next_vertex(f=1)': 0}}

    def add(kind, **kw):
        hist['kinds'][kind] = hist['kinds'].get(kind, 0) + 1
        cases.append(dict(kind=kind, **kw))

    def skip(kind):
        hist['skipped_precondition'][kind] = hist['skipped_precondition'].get(kind, 0) + 1

    rng_main = rng
    rng_corpus = random.Random(ctx.seed * seed_mul + 101)
    fixed = L.corpus()
    for li in range(nl + len(fixed)):
        is_corpus = li >= nl
        rng = rng_corpus if is_corpus else rng_main
        # draws introduced after the first release come from their own stream, so the lenses and rays of the main stream
        # (and what they were shown to catch) do not move when a class is added
        rngn = random.Random(ctx.seed * seed_mul + 1000 + li)
        ideal = is_corpus or (li % 3 == 0)
        spec = copy.deepcopy(fixed[li - nl]) if is_corpus else L.sym_spec(rng, ideal_only=ideal, angle_only=(li % 2 == 0))
        if ideal:
            for s_ in spec['surfaces']:
                if isinstance(s_.get('material'), list) and s_['material'][0] == 'ideal':
                    s_['material'][2] = 0.0
        vign = (li % 2 == 1) and not is_corpus
        if vign:
            # fields along y that carry vignetting factors (vx, vy), growing with the field as in a real lens
            mf = max(f[0] for f in spec['fields']) or rng.uniform(1.0, 8.0)
            nf = rng.choice([2, 3, 4])
            spec['fields'] = [[mf * j / (nf - 1), 0.0,
                               (rng.uniform(0.0, 0.3) * j / (nf - 1)) if j else rng.choice([0.0, 0.0, 0.05]),
                               (rng.uniform(0.05, 0.45) * j / (nf - 1)) if j else rng.choice([0.0, 0.0, 0.05])]
                              for j in range(nf)]
            hist['lenses_with_vignetting_factors'] += 1
        try:
            o = L.build(spec)
        except Exception:   # noqa
            hist['build_errors'] += 1
            continue
        hist['lenses'] += 1
        hist['corpus_lenses'] += int(is_corpus)
        hist['system_aperture'][spec['aperture'][0]] = hist['system_aperture'].get(spec['aperture'][0], 0) + 1
        hist['stop_on_first_surface'] += int(bool(spec['surfaces'][0].get('is_stop')))
        w = [x for x, p in spec['wavelengths'] if p][0]
        surfs0 = lensgen.model_surfaces(o, w)
        nS = len(spec['surfaces'])
        contact_done = False
        ends_done = False
        obj_inf = math.isinf(spec['object_thickness'])
        try:
            epd0 = abs(float(np.ravel(o.paraxial.EPD())[0]))
        except Exception:   # noqa
            epd0 = float('nan')
        rays = _rays(rng, 2 if is_corpus else rays_per)
        if vign:
            # an off-axis field point (either sign) with an off-axis pupil point, where the vignetting factors act
            rays.append((rng.choice([0.0, 0.0, 0.4, -0.4]), rng.choice([1.0, -1.0, 0.6, -0.6]),
                         rng.choice([0.0, 0.5, -0.5]), rng.choice([1.0, -1.0, 0.7, -0.7])))
        for (Hx, Hy, Px, Py) in rays:
            r0 = L.trace(o, Hx, Hy, Px, Py, w)
            if r0[0] != 'ok':
                hist['trace_errors'] += 1
                continue
            recs0 = r0[1]
            common = dict(spec=spec, ray=[Hx, Hy, Px, Py], w=w, surfs0=surfs0, base=recs0)
            # ---- mirrors
            kinds3 = [(True, False), (False, True), (True, True)]
            for bx, by in (kinds3 if vign else [rng.choice(kinds3)]):
                Hx1, Hy1 = (-Hx if bx else Hx), (-Hy if by else Hy)
                r1 = L.trace(o, Hx1, Hy1, -Px if bx else Px, -Py if by else Py, w)
                if r1[0] == 'ok':
                    d = max(L.rec_diff(L.mirror_rec(a, bx, by), b) for a, b in zip(recs0, r1[1]))
                    add('mirror', params={'mx': bx, 'my': by}, timpl=r1[1], direct=d, tol=1e-12, **common)
                    mp = hist['mirror_pairs']
                    mp['mx' if (bx and not by) else 'my' if (by and not bx) else 'mx_my'] += 1
                    mp['with_negative_Hx'] += int(min(Hx, Hx1) < 0)
                    mp['with_negative_Hy'] += int(min(Hy, Hy1) < 0)
                    mp['vignetted_field_and_offaxis_pupil'] += int(bool(vign and (Hx or Hy) and (Px or Py)))
            # ---- scaling: every length times s, s log-uniform over the whole stated range [0.01, 100] (half of the draws
            #      snapped to a power of two, where binary64 scales exactly) for every ray, plus both ENDS of the range
            #      for the first ray of the lens; by an independently built scaled lens and by Optic.scale_system
            #      (angular fields); every record incl. the launch point, path length at every surface
            s_rand = 10 ** rng.uniform(-2, 2)
            if rng.random() < 0.5:
                s_rand = min(64.0, max(2.0 ** -6, 2.0 ** round(math.log2(s_rand))))
            s_plan = [s_rand]
            if not ends_done:
                ends_done = True
                s_plan += [0.01, 100.0]
            for s in s_plan:
                exact = (math.log2(s) == int(math.log2(s)))
                tol_s = 1e-11 if exact else 1e-8
                for kind in (['scale', 'scale_system_rays'] if spec['field_type'] == 'angle' else ['scale']):
                    try:
                        if kind == 'scale':
                            route2 = rngn.choice(['direct', 'handbuilt', 'reuse', 'roundtrip'])
                            o2 = L.build(L.scaled_spec(spec, s), route2, rngn)
                            hist['build_route_of_transformed_lens'][route2] += 1
                        else:
                            o2 = L.build(spec)
                            o2.scale_system(s)
                        r2 = L.trace(o2, Hx, Hy, Px, Py, w)
                    except Exception:   # noqa
                        r2 = ('err',)
                    if r2[0] != 'ok':
                        continue
                    # compared in the units of the original lens: positions and paths of the scaled lens divided by s
                    d = max(L.rec_diff(a, L.scale_rec(b, 1.0 / s), fields=['x', 'y', 'z', 'L', 'M', 'N', 'opd'], scale=100)
                            for a, b in zip(recs0, r2[1]))
                    add(kind, params={'s': s, 'EPD_times_s': epd0 * s, 'object': 'infinite' if obj_inf else 'finite'},
                        timpl=r2[1], direct=d, tol=tol_s, **common)
                    if kind == 'scale':
                        lg = math.log10(s)
                        hist['scale_factor_s'][('[0.01,0.1)' if lg < -1 else '[0.1,1)' if lg < 0 else '[1,10)' if lg < 1 else '[10,100]')] += 1
                        hist['scale_factor_s']['end 0.01'] += int(s == 0.01)
                        hist['scale_factor_s']['end 100'] += int(s == 100.0)
                        e_ = epd0 * s
                        hist['EPD_times_s']['infinite object' if obj_inf else 'finite object'][
                            '<0.1' if e_ < 0.1 else '[0.1,1)' if e_ < 1 else '[1,10)' if e_ < 10 else '>=10'] += 1
            # ---- dummy surface: a random interior split of a random gap for every ray and, for the first ray of the
            #      lens, the two CONTACT splits (f = 0: dummy on the previous vertex, f = 1: on the next vertex, i.e. a
            #      zero thickness in the prescription) of EVERY gap from behind surface 1 to the image
            plan = [(rng.randrange(nS), rng.uniform(0.05, 0.95), 'interior')]
            if not contact_done:
                contact_done = True
                for g_ in range(nS):
                    plan.append((g_, 0.0, 'contact_previous_vertex(f=0)'))
                    plan.append((g_, 1.0, 'contact_next_vertex(f=1)'))
                # the OBJECT gap (-1): the dummy becomes surface 1, so every vertex is re-based and every first-order
                # quantity that is measured "from the first surface" is put to the test
                plan.append((-1, rngn.uniform(0.1, 0.9), 'interior'))
                if not obj_inf:
                    plan.append((-1, 1.0, 'contact_next_vertex(f=1)'))
                    plan.append((-1, 0.0, 'contact_previous_vertex(f=0)'))
            for gap, frac, cls in plan:
                sp = L.dummy_spec(spec, gap, frac, front=rngn.uniform(1.0, 30.0))
                if sp is None:
                    continue
                route = rngn.choice(['direct', 'handbuilt', 'reuse', 'roundtrip'])
                try:
                    o3 = L.build(sp, route, rngn)
                    r3 = L.trace(o3, Hx, Hy, Px, Py, w)
                except Exception as e:   # noqa
                    r3 = ('err', type(e).__name__, str(e)[:100])
                if r3[0] != 'ok':
                    hist.setdefault('dummy_lens_errors', {}).setdefault(f'{route}:{r3[1]}', 0)
                    hist['dummy_lens_errors'][f'{route}:{r3[1]}'] += 1
                    continue
                hist['build_route_of_transformed_lens'][route] += 1
                drec = r3[1][gap + 2]
                a, b = recs0[gap + 1], recs0[gap + 2]
                # precondition: the dummy plane is met between the two neighbouring intersections (a plane through the
                # vertex of a curved neighbour cuts into it; for that ray it is not "in the gap")
                t_tot = (b[7] - a[7])
                if gap == -1 and obj_inf:
                    t_tot = r3[1][2][7] - r3[1][0][7]        # the launch plane of an infinite object moves with the vertices
                t_1 = (drec[7] - r3[1][gap + 1][7]) if _finite(drec) else float('nan')
                ok_pre = _finite(a) and _finite(b) and _finite(drec) and -1e-9 <= t_1 <= t_tot + 1e-9
                # a dummy in contact with a CURVED neighbour is tangent to it at the vertex: for a ray through (or within
                # rounding of) the vertex the plane is in the gap or beyond the surface by ~r^2/2R ~ 1e-30, which binary64
                # cannot tell; such rays are outside the precondition (a plane neighbour is an exact contact and is kept)
                if ok_pre and frac == 0.0 and gap >= 0 and surfs0[gap]['shape'][0] != 'plane':
                    ok_pre = t_1 > 1e-7
                if ok_pre and frac == 1.0 and surfs0[gap + 1]['shape'][0] != 'plane':
                    ok_pre = t_tot - t_1 > 1e-7
                if not ok_pre:
                    skip('dummy')
                    hist['dummy_skipped_plane_outside_gap'][cls] += 1
                    continue
                recs = r3[1][:gap + 2] + r3[1][gap + 3:]
                shift = float(o3.surface_group.surfaces[2 if gap == -1 else 1].geometry.cs.z) if gap == -1 else 0.0
                if shift:
                    recs = [r_[:2] + [r_[2] - shift] + r_[3:] for r_ in recs]
                # from the first real surface on: the launch PLANE of an infinite object is placed from the vertex
                # list (in front of every vertex), so the same ray may be recorded at another point of its line;
                # a FINITE object launches from the object surface: launch point and absolute path are compared too
                if obj_inf:
                    d = max(L.rec_diff(x, y, scale=100) for x, y in zip(_rel_opd(recs0)[1:], _rel_opd(recs)[1:]))
                else:
                    d = max(L.rec_diff(x, y, scale=100) for x, y in zip(recs0, recs))
                zd = float(o3.surface_group.surfaces[gap + 2].geometry.cs.z)
                nd = surfs0[gap]['n2'] if gap >= 0 else surfs0[0]['n1']
                hist['dummy_split'][cls] += 1
                hist['dummy_gap']['object gap (dummy becomes surface 1)' if gap == -1 else 'first' if gap == 0 and nS > 1
                                  else 'last(before image)' if gap == nS - 1 else 'inner'] += 1
                cm = common
                if gap == -1:
                    # the model is given the re-based vertex list of the lens with the dummy (dummy removed) and re-inserts it
                    ms = lensgen.model_surfaces(o3, w)
                    cm = dict(common, surfs0=ms[1:])
                add('dummy', params={'gap': gap, 'frac': frac, 'split': cls, 'zd': zd, 'n': nd, 'route': route,
                                     'shift': 0.0, 'rebased_by': shift},
                    timpl=r3[1], direct=d, tol=1e-9, **cm)
            # ---- tilt about the centre of curvature (same ray in, same ray out)
            idx = rng.randrange(nS)
            ang = rng.uniform(-0.3, 0.3)
            axis = rng.choice(['x', 'y'])
            spec0 = copy.deepcopy(spec)
            spec0['surfaces'][idx].pop('aperture', None)
            sp = L.tilt_centre_spec(spec0, idx, ang, axis)
            if sp is not None:
                try:
                    oa, ob = L.build(spec0), L.build(sp)
                    ra, rb = L.trace_from(oa, recs0[0], w), L.trace_from(ob, recs0[0], w)
                except Exception:   # noqa
                    ra = rb = ('err',)
                if ra[0] == 'ok' and rb[0] == 'ok' and not _on_near_cap(ra[1][idx], surfs0[idx], ang):
                    # the hit is not on the cap of the sphere that is the sag sheet in BOTH frames (beyond or near the
                    # hemisphere edge): the library's normal is that of the sag sheet only (C02, sheet hypothesis)
                    skip('tilt')
                elif ra[0] == 'ok' and rb[0] == 'ok':
                    d = max(L.rec_diff(x, y, scale=100) for x, y in zip(ra[1], rb[1]))
                    add('tilt', params={'idx': idx, 'angle': ang, 'axis': axis, 'R': spec['surfaces'][idx]['radius']},
                        timpl=[recs0[0]] + rb[1], direct=d, tol=1e-9,
                        **dict(common, surfs0=lensgen.model_surfaces(oa, w), base=[recs0[0]] + ra[1]))
            # ---- wavelength of a dispersion-free lens
            if ideal:
                w2 = w * rng.uniform(0.6, 1.6)
                r4 = L.trace(o, Hx, Hy, Px, Py, w2)
                if r4[0] == 'ok':
                    d = max(L.rec_diff(a, b) for a, b in zip(recs0, r4[1]))
                    add('wavelength', params={'w2': w2}, timpl=r4[1], direct=d, tol=1e-12, **common)
    return cases, hist


def _coq_ray(rec, w):
    import tracecorr
    return tracecorr.coq_ray(rec, w)


def _model_line(c, name):
    """Coq boolean: the model traced on the TRANSFORMED prescription (transformation applied inside Coq by the
    definitions of Model/M_C07.v) reproduces optiland's trace of the transformed lens"""
    fh = vlib.fhex
    k = c['kind']
    w = c['w']
    r0 = _coq_ray(c['base'][0], w)
    tol = max(c['tol'], 1e-9)
    exp = c['timpl'][1:]
    if k == 'mirror':
        b = lambda v: 'true' if v else 'false'
        call = f'trace {name} (mirror_ray {b(c["params"]["mx"])} {b(c["params"]["my"])} {r0})'
        launch = f'close_list {fh(1e-12)} (ray_fields (mirror_ray {b(c["params"]["mx"])} {b(c["params"]["my"])} {r0})) {vlib.flist(c["timpl"][0])}'
    elif k in ('scale', 'scale_system_rays'):
        s = c['params']['s']
        call = f'trace (map (scale_surf (O:=FOps) {fh(s)}) {name}) (scale_ray (O:=FOps) {fh(s)} {r0})'
        flat = [v / s if j in (0, 1, 2, 7) else v for rec in c['timpl'] for j, v in enumerate(rec)]
        return (f'match {call} with None => false | Some l => close_list {fh(tol)} '
                f'(flat_map (fun r : ray FOps => [rx r / {fh(s)}; ry r / {fh(s)}; rz r / {fh(s)}; rL r; rM r; rN r; ri r; ropd r / {fh(s)}]) '
                f'(scale_ray (O:=FOps) {fh(s)} {r0} :: l)) {vlib.flist(flat)} end')
    elif k == 'dummy':
        p = c['params']
        # the vertex list of the lens with the dummy may be re-based (surface 1 at z = 0): same lens shifted by `shift`
        # launched as optiland launches in the lens WITH the dummy (the launch plane follows the vertex list)
        call = f'trace (insert_at {p["gap"] + 1} (dummy_surf (O:=FOps) {fh(p["zd"])} {fh(p["n"])}) {name}) {_coq_ray(c["timpl"][0], w)}'
        launch = 'true'
        if abs(p.get('shift', 0.0)) > 0 or c['surfs0'][p['gap'] + 1]['k1'] != 0:
            return None     # re-based vertex list / absorbing medium: outside dummy_surf (k = 0)
    elif k == 'tilt':
        p = c['params']
        f = 'tilt_x_surf' if p['axis'] == 'x' else 'tilt_y_surf'
        call = (f'trace (replace_at {p["idx"]} ({f} (O:=FOps) (nth {p["idx"]} {name} (dummy_surf (O:=FOps) 0 1)) {fh(p["R"])} {fh(p["angle"])}) {name}) {r0}')
        launch = 'true'
    elif k == 'wavelength':
        call = f'trace {name} (set_w (O:=FOps) {fh(c["params"]["w2"])} {r0})'
        launch = 'true'
    else:
        return None
    flat = [v for rec in exp for v in rec]
    return (f'({launch}) && match {call} with None => false | Some l => close_list {fh(tol)} '
            f'(flat_map ray_fields l) {vlib.flist(flat)} end')


def run_model(cases, tag='C07meta', chunk=40):
    import lensgen
    bodies, index = [], []
    for start in range(0, len(cases), chunk):
        defs, lines, keys = [], [], []
        for ci in range(start, min(start + chunk, len(cases))):
            c = cases[ci]
            ln = _model_line(c, f'l{ci}')
            if ln is None:
                continue
            defs.append(f'Definition l{ci} := [' + ';\n  '.join(lensgen.coq_surf(s, vlib.fhex) for s in c['surfs0']) + '].')
            lines.append(ln)
            keys.append(ci)
        if not lines:
            continue
        bodies.append('\n'.join(defs) + '\nEval vm_compute in (report [\n' + ';\n'.join(lines) + '\n]).\n')
        index.append(keys)
    res = vlib.run_cases(tag, 'From OV Require Import Model.Trace Model.M_C07.', bodies)
    bad, n = set(), 0
    for keys, r in zip(index, res):
        if r[0] == 'error':
            raise RuntimeError(r[1])
        n += r[0]
        for i in r[2]:
            bad.add(keys[i])
        if r[1] > len(r[2]):
            bad.add(-1)
    return bad, n


def _witness(c):
    return {'relation': c['kind'], 'params': c['params'], 'spec': c['spec'], 'ray': c['ray'], 'wavelength': c['w'],
            'discrepancy': c['direct'], 'tolerance': c['tol'], 'violates_property': True}


# ----------------------------------------------------------------------------------------------
# Optic.scale_system
# ----------------------------------------------------------------------------------------------
def _presc_coq(p):
    fh = vlib.fhex
    rows = p['rows']
    fl = lambda xs: '[' + '; '.join(fh(x) for x in xs) + ']'
    aps = '[' + '; '.join('None' if r['ap'] is None else f'Some ({fh(r["ap"][0])}, {fh(r["ap"][1])})' for r in rows) + ']'
    return (f'(mkPresc (O:=FOps) {fl([r["R"] for r in rows])} {fl([r["z"] for r in rows])} {fl([r["x"] for r in rows])} '
            f'{fl([r["y"] for r in rows])} {aps} {"true" if p["ap_type"] == "EPD" else "false"} {fh(p["ap_value"])})')


def _presc_flat(p):
    rows = p['rows']
    out = [r['R'] for r in rows] + [r['z'] for r in rows] + [r['x'] for r in rows] + [r['y'] for r in rows]
    for r in rows:
        if r['ap'] is not None:
            out += r['ap']
    return out + [p['ap_value']]


def scale_system_cases(ctx, nl, seed_mul=17, decentre=None):
    import c07lib as L
    warnings.simplefilter('ignore')
    rng = random.Random(ctx.seed * seed_mul + 3)
    out = []
    # regression cases, present for every seed: the decentred singlet of the repaired finding scale-system-decentre
    # (infinite object) and the same lens with a finite object distance and an apertured second surface
    fin = copy.deepcopy(REPLAY_SPEC)
    fin['object_thickness'] = 250.0
    fin['surfaces'][1]['aperture'] = [4.0, 0.5]
    fixed = [(REPLAY_SPEC, 2.0, True), (fin, 0.5, True)] if decentre is None else []
    for li in range(nl):
        if li < len(fixed):
            spec, s, dec = copy.deepcopy(fixed[li][0]), fixed[li][1], fixed[li][2]
        else:
            spec = L.sym_spec(rng, angle_only=True)
            if spec['aperture'][0] != 'EPD' and li % 2:
                spec['aperture'] = ['EPD', rng.uniform(3, 9)]
            dec = (li % 3 == 0) if decentre is None else decentre
            if dec:
                for s_ in spec['surfaces']:
                    if rng.random() < 0.5:
                        s_['dx'], s_['dy'] = rng.uniform(-0.3, 0.3), rng.uniform(-0.3, 0.3)
            s = 2.0 ** rng.randint(-6, 6) if rng.random() < 0.5 else 10 ** rng.uniform(-2, 2)
        try:
            o = L.build(spec)
            p0 = L.prescription(o)
            o.scale_system(s)
            p1 = L.prescription(o)
            p2 = L.prescription(L.build(L.scaled_spec(spec, s)))
        except Exception as e:   # noqa
            out.append(dict(spec=spec, s=s, error=type(e).__name__ + ': ' + str(e)[:100]))
            continue
        out.append(dict(spec=spec, s=s, p0=p0, p1=p1, p2=p2, dec=dec))
    return out


def _presc_diff(a, b, s):
    """largest relative discrepancy between two prescriptions; which column it is in"""
    worst, where = 0.0, None
    for col in ('R', 'z', 'x', 'y', 'k', 'rx', 'ry'):
        for i, (ra, rb) in enumerate(zip(a['rows'], b['rows'])):
            u, v = ra[col], rb[col]
            if math.isinf(u) or math.isinf(v):
                d = 0.0 if u == v else INF
            else:
                d = abs(u - v) / max(1.0, abs(u), abs(v)) if col in ('R', 'z') else abs(u - v) / max(1e-9, s)
            if d > worst:
                worst, where = d, (col, i)
    for i, (ra, rb) in enumerate(zip(a['rows'], b['rows'])):
        if (ra['ap'] is None) != (rb['ap'] is None):
            return INF, ('ap', i)
        if ra['ap'] is not None:
            for u, v in zip(ra['ap'], rb['ap']):
                d = abs(u - v) / max(1e-9, s)
                if d > worst:
                    worst, where = d, ('ap', i)
    d = abs(a['ap_value'] - b['ap_value']) / max(1.0, abs(a['ap_value']))
    if d > worst:
        worst, where = d, ('ap_value', 0)
    return worst, where


def _scale_system_ray_check(spec, s, rng):
    """implementation-level confirmation: rays through the lens scaled by scale_system are s times the original rays"""
    import c07lib as L
    o = L.build(spec)
    o3 = L.build(spec)
    o3.scale_system(s)
    w = [x for x, p in spec['wavelengths'] if p][0]
    worst = 0.0
    for (Hx, Hy, Px, Py) in _rays(rng, 4):
        r0, r3 = L.trace(o, Hx, Hy, Px, Py, w), L.trace(o3, Hx, Hy, Px, Py, w)
        if r0[0] != 'ok' or r3[0] != 'ok':
            continue
        worst = max(worst, max(L.rec_diff(L.scale_rec(a, s), b, fields=['x', 'y', 'z', 'L', 'M', 'N', 'opd'], scale=s * 100)
                               for a, b in zip(r0[1], r3[1])))
    return worst


# ----------------------------------------------------------------------------------------------
# 3b. system checks
# ----------------------------------------------------------------------------------------------
def system_checks(ctx):
    # (a) metamorphic pairs: model on the transformed prescription vs optiland on the transformed lens,
    #     and the relation itself on optiland
    cases, hist = gen_cases(ctx, ctx.n(14, 200), ctx.n(2, 4))
    res = {'name': 'metamorphic-relations-model-and-implementation', 'n': len(cases), 'histogram': hist,
           'nontrivial': sum(1 for c in cases if _finite(c['base'][-1])), 'samples': [], 'disagreements': []}
    try:
        bad, n = run_model(cases)
    except RuntimeError as e:
        res['error'] = str(e)
        yield res
        bad = None
    if bad is not None:
        for ci, c in enumerate(cases):
            rel_bad = not (c['direct'] <= c['tol'])
            if rel_bad:
                res['disagreements'].append(_witness(c))
            elif ci in bad:
                res['disagreements'].append({'relation': c['kind'], 'params': c['params'], 'spec': c['spec'], 'ray': c['ray'],
                                             'note': 'model on the transformed prescription differs from optiland on the transformed lens',
                                             'violates_property': False})
        if -1 in bad:
            res['disagreements'].append({'note': 'further model mismatches', 'violates_property': False})
        if cases:
            c = cases[0]
            res['samples'].append({'relation': c['kind'], 'params': c['params'], 'ray(Hx,Hy,Px,Py)': c['ray'],
                                   'image_record': c['base'][-1], 'discrepancy': c['direct']})
        yield res

    # (b) Optic.scale_system: Coq model of the loop vs optiland, and vs the specification "every length times s"
    sc = scale_system_cases(ctx, ctx.n(24, 300))
    res = {'name': 'scale-system-model-vs-implementation-vs-spec', 'n': len(sc), 'nontrivial': 0, 'samples': [],
           'disagreements': [], 'histogram': {'decentred': sum(1 for c in sc if c.get('dec')), 'errors': sum(1 for c in sc if 'error' in c)}}
    lines, keys = [], []
    for i, c in enumerate(sc):
        if 'error' in c:
            res['disagreements'].append({'relation': 'scale_system', 'spec': c['spec'], 's': c['s'], 'error': c['error'],
                                         'violates_property': True})
            continue
        s = c['s']
        lines.append(f'close_list {vlib.fhex(1e-12)} (presc_flat (scale_system (O:=FOps) {vlib.fhex(s)} {_presc_coq(c["p0"])})) '
                     f'{vlib.flist(_presc_flat(c["p1"]))}')
        keys.append(i)
    body = 'Eval vm_compute in (report [\n' + ';\n'.join(lines) + '\n]).\n'
    try:
        r = vlib.run_cases('C07ss', 'From OV Require Import Model.Trace Model.M_C07.', [body])[0] if lines else (0, 0, [])
        if r[0] == 'error':
            raise RuntimeError(r[1])
    except RuntimeError as e:
        res['error'] = str(e)
        yield res
        return
    badm = {keys[i] for i in r[2]}
    rng = random.Random(ctx.seed + 99)
    for i, c in enumerate(sc):
        if 'error' in c:
            continue
        res['nontrivial'] += 1
        d, where = _presc_diff(c['p1'], c['p2'], c['s'])
        if d > 1e-9:
            ray = _scale_system_ray_check(c['spec'], c['s'], rng)
            res['disagreements'].append({'relation': 'scale_system', 'spec': c['spec'], 's': c['s'], 'column': where,
                                         'prescription_discrepancy': d, 'ray_discrepancy': ray,
                                         'violates_property': True})
        elif i in badm:
            res['disagreements'].append({'relation': 'scale_system', 'spec': c['spec'], 's': c['s'],
                                         'note': 'Coq model of scale_system differs from optiland', 'violates_property': False})
    if sc and 'p0' in sc[0]:
        res['samples'].append({'s': sc[0]['s'], 'positions_before': [r_['z'] for r_ in sc[0]['p0']['rows']],
                               'positions_after': [r_['z'] for r_ in sc[0]['p1']['rows']]})
    yield res

    # (c) first-order and third-order quantities of the scaled lens
    yield _paraxial_seidel(ctx, ctx.n(16, 200))

    # (d) the same rays written in every argument form of trace_generic (Python ints / floats, integer arrays)
    yield _argument_forms(ctx)


def _argument_forms(ctx, seed_mul=31, n_random=3):
    """Relations of the property for rays whose normalized coordinates are given in every accepted container
    (chief and rim rays written 0, 1, -1 as Python ints, int64 / int32 arrays, floats): on one live Optic per lens
    (query in float form, query in the other forms, query in float form again)
    - launch oracle: the launch record of every ray against the prescription (independent entrance-pupil position,
      prescribed EPD, field angle / object height), for all-ideal lenses;
    - scale: every length times s (s = 0.01, 100 and one random), same form on the independently built scaled lens;
    - mirror about the x axis and about both axes, same form;
    - form: every form gives the records of the float64-array form."""
    import c07lib as L
    warnings.simplefilter('ignore')
    rng = random.Random(ctx.seed * seed_mul + 13)
    hist = {'lenses': 0, 'fixed_corpus_lenses': 0, 'random_lenses': 0, 'lenses_with_vignetting_factors': 0,
            'form': {f: 0 for f in L.ARG_FORMS}, 'relation': {'launch_oracle': 0, 'scale': 0, 'mirror': 0, 'form': 0, 'requery': 0},
            'object': {'infinite': 0, 'finite': 0}, 'field_type': {}, 'system_aperture': {}, 'field_H': {},
            'launch_oracle_rays': 0, 'trace_errors': {}, 'scale_factor_s': {'0.01': 0, '100': 0, 'random': 0}}
    res = {'name': 'argument-forms-of-trace_generic-under-the-relations', 'n': 0, 'nontrivial': 0, 'samples': [],
           'disagreements': [], 'histogram': hist}

    def bad(relation, spec, form, H, P, d, tol, **kw):
        if sum(1 for d_ in res['disagreements'] if d_['relation'] == relation) < 3:
            res['disagreements'].append(dict(relation=relation, argument_form=form, spec=spec, field_H=list(H),
                                             pupil_points=[list(p) for p in P], discrepancy=d, tolerance=tol,
                                             violates_property=True, **kw))

    lenses = [(sp, 'corpus') for sp in L.form_corpus() + L.corpus()]
    for li in range(n_random):
        sp = L.sym_spec(rng, ideal_only=True, angle_only=(li % 2 == 0))
        if li % 3 == 2:
            mf = max(f[0] for f in sp['fields']) or 3.0
            sp['fields'] = [[0.0, 0.0, 0.0, 0.0], [mf, 0.0, rng.uniform(0.05, 0.3), rng.uniform(0.05, 0.4)]]
        lenses.append((sp, 'random'))
    for spec, origin in lenses:
        try:
            o = L.build(spec)
        except Exception:   # noqa
            continue
        w = [x for x, p in spec['wavelengths'] if p][0]
        epl = L.independent_EPL(spec)
        hist['lenses'] += 1
        hist['fixed_corpus_lenses' if origin == 'corpus' else 'random_lenses'] += 1
        hist['lenses_with_vignetting_factors'] += int(any(f[2] or f[3] for f in spec['fields']))
        hist['object']['infinite' if math.isinf(spec['object_thickness']) else 'finite'] += 1
        hist['field_type'][spec['field_type']] = hist['field_type'].get(spec['field_type'], 0) + 1
        hist['system_aperture'][spec['aperture'][0]] = hist['system_aperture'].get(spec['aperture'][0], 0) + 1
        s_rand = 10 ** rng.uniform(-2, 2)
        scaled = []
        for s, lab in ((0.01, '0.01'), (100.0, '100'), (s_rand, 'random')):
            try:
                scaled.append((s, lab, L.build(L.scaled_spec(spec, s))))
            except Exception:   # noqa
                pass
        for H, P in (((0, 1), L.PUPIL_FAN), ((0, -1), L.PUPIL_STAR), ((0, 0), L.PUPIL_STAR), ((1, 1), L.PUPIL_STAR)):
            ref = L.trace_form(o, 'float64_arrays', H, P, w)
            if ref[0] != 'ok':
                hist['trace_errors'][ref[1]] = hist['trace_errors'].get(ref[1], 0) + 1
                continue
            hist['field_H'][str(H)] = hist['field_H'].get(str(H), 0) + 1
            for form in L.ARG_FORMS:
                r = L.trace_form(o, form, H, P, w)
                if r is None:
                    continue
                res['n'] += 1
                hist['form'][form] += 1
                if r[0] != 'ok':
                    # the float form of the same rays traced: the form is accepted by the signature, so it must too
                    hist['trace_errors'][r[1]] = hist['trace_errors'].get(r[1], 0) + 1
                    bad('form', spec, form, H, P, INF, 0.0, error=list(r[1:]))
                    continue
                if any(_finite(rr[-1]) for rr in r[1]):
                    res['nontrivial'] += 1
                # -- every form denotes the same rays
                d = max(L.rec_diff(a, b, scale=100) for ra, rb in zip(ref[1], r[1]) for a, b in zip(ra, rb))
                hist['relation']['form'] += 1
                if not d <= 1e-12:
                    bad('form', spec, form, H, P, d, 1e-12)
                # -- the launch of every ray against the prescription
                if epl is not None:
                    for p, rr in zip(P, r[1]):
                        lo = L.launch_oracle(spec, H, p, rr[0], epl)
                        if lo is None:
                            continue
                        hist['launch_oracle_rays'] += 1
                        if not lo[0] <= 1e-9 * max(1.0, abs(epl)):
                            bad('launch_oracle', spec, form, H, [p], lo[0], 1e-9, clause=lo[1], launch_record=rr[0],
                                independent_EPL=epl)
                            break
                    hist['relation']['launch_oracle'] += 1
                # -- every length times s
                for s, lab, o2 in scaled:
                    r2 = L.trace_form(o2, form, H, P, w)
                    if r2[0] != 'ok':
                        bad('scale', spec, form, H, P, INF, 0.0, s=s, error=list(r2[1:]))
                        continue
                    d = max(L.rec_diff(a, L.scale_rec(b, 1.0 / s), fields=['x', 'y', 'z', 'L', 'M', 'N', 'opd'], scale=100)
                            for ra, rb in zip(r[1], r2[1]) for a, b in zip(ra, rb))
                    hist['relation']['scale'] += 1
                    hist['scale_factor_s'][lab] += 1
                    if not d <= 1e-8:
                        bad('scale', spec, form, H, P, d, 1e-8, s=s)
                # -- mirrors (about the x axis; about both axes for a field with an x component)
                for bx, by in ([(False, True), (True, True)] if H[0] else [(False, True)]):
                    H1 = (-H[0] if bx else H[0], -H[1] if by else H[1])
                    P1 = [(-a if bx else a, -b if by else b) for a, b in P]
                    r1 = L.trace_form(o, form, H1, P1, w)
                    if r1[0] != 'ok':
                        bad('mirror', spec, form, H, P, INF, 0.0, mx=bx, my=by, error=list(r1[1:]))
                        continue
                    d = max(L.rec_diff(L.mirror_rec(a, bx, by), b) for ra, rb in zip(r[1], r1[1]) for a, b in zip(ra, rb))
                    hist['relation']['mirror'] += 1
                    if not d <= 1e-12:
                        bad('mirror', spec, form, H, P, d, 1e-12, mx=bx, my=by)
            # -- history: the float form again on the same object after the other forms
            again = L.trace_form(o, 'float64_arrays', H, P, w)
            hist['relation']['requery'] += 1
            if again[0] != 'ok' or again[1] != ref[1]:
                if not (again[0] == 'ok' and max(L.rec_diff(a, b) for ra, rb in zip(ref[1], again[1]) for a, b in zip(ra, rb)) == 0.0):
                    bad('requery', spec, 'float64_arrays', H, P, INF, 0.0)
            if not res['samples']:
                res['samples'].append({'field_H': list(H), 'pupil_points': [list(p) for p in P],
                                       'image_record_first_ray_float64_arrays': ref[1][0][-1]})
    # the clause of the property first: scaled copy, then the prescription oracle, mirrors, equality of the forms
    order = ['scale', 'launch_oracle', 'mirror', 'form', 'requery']
    res['disagreements'].sort(key=lambda d_: order.index(d_['relation']))
    return res


def _paraxial_seidel(ctx, nl):
    import numpy as np
    import c07lib as L
    import paraxcorr
    warnings.simplefilter('ignore')
    rng = random.Random(ctx.seed * 5 + 1)
    res = {'name': 'paraxial-and-seidel-homogeneity', 'n': 0, 'nontrivial': 0, 'samples': [], 'disagreements': []}
    lines, keys, data = [], [], []
    for li in range(nl):
        spec = L.sym_spec(rng, angle_only=True)
        s = 2.0 ** rng.randint(-6, 6) if rng.random() < 0.5 else 10 ** rng.uniform(-2, 2)
        try:
            o, o2 = L.build(spec), L.build(L.scaled_spec(spec, s))
            o3 = L.build(spec)
            o3.scale_system(s)
            f0, f2, f3 = (float(np.ravel(x.paraxial.f2())[0]) for x in (o, o2, o3))
            S0, S2, S3 = (np.ravel(x.aberrations.seidels()).astype(float) for x in (o, o2, o3))
            ps2 = paraxcorr.psurfs(o2)
        except Exception:   # noqa
            continue
        res['n'] += 1
        if not (math.isfinite(f0) and abs(f0) < 1e7):
            continue
        res['nontrivial'] += 1
        sc = max(1e-12, float(np.max(np.abs(S0))) * s)
        errs = {'f2_scaled_lens': abs(f2 - s * f0) / abs(s * f0), 'f2_scale_system': abs(f3 - s * f0) / abs(s * f0),
                'seidel_scaled_lens': float(np.max(np.abs(S2 - s * S0))) / sc,
                'seidel_scale_system': float(np.max(np.abs(S3 - s * S0))) / sc}
        badk = {k: v for k, v in errs.items() if not v <= 1e-9}
        if badk:
            res['disagreements'].append({'relation': 'first/third order scaling', 'spec': spec, 's': s, 'errors': badk,
                                         'violates_property': True})
        # the paraxial model on the scaled prescription gives s * f2 of the original lens
        lines.append(f'close {vlib.fhex(1e-9)} (f2 [' + '; '.join(paraxcorr.coq_psurf(p) for p in ps2) + f'] / {vlib.fhex(s * f0)}) 1')
        keys.append((spec, s))
        if not res['samples']:
            res['samples'].append({'s': s, 'f2': f0, 'f2_scaled': f2, 'seidels': [float(v) for v in S0]})
    if lines:
        r = vlib.run_cases('C07par', 'From OV Require Import Model.Paraxial.',
                           ['Eval vm_compute in (report [\n' + ';\n'.join(lines) + '\n]).\n'])[0]
        if r[0] == 'error':
            res['error'] = r[1]
        else:
            for i in r[2]:
                res['disagreements'].append({'relation': 'paraxial model f2 on the scaled prescription', 'spec': keys[i][0],
                                             's': keys[i][1], 'violates_property': False})
    return res


# ----------------------------------------------------------------------------------------------
# 4. search: the property stated directly on the implementation
# ----------------------------------------------------------------------------------------------
def search(ctx, broken, disagreements):
    """seeded sweep of every metamorphic relation on optiland alone (no model involved)"""
    found = []
    cases, hist = gen_cases(ctx, ctx.n(40, 400), ctx.n(3, 5), seed_mul=23)
    for c in cases:
        if not (c['direct'] <= c['tol']):
            found.append(_witness(c))
            break
    rng = random.Random(ctx.seed + 5)
    for c in scale_system_cases(ctx, ctx.n(40, 300), seed_mul=29):
        if 'error' in c:
            found.append({'relation': 'scale_system', 'spec': c['spec'], 's': c['s'], 'error': c['error'], 'violates_property': True})
            break
        d, where = _presc_diff(c['p1'], c['p2'], c['s'])
        ray = _scale_system_ray_check(c['spec'], c['s'], rng)
        if d > 1e-9 or ray > 2e-6:
            found.append({'relation': 'scale_system', 'spec': c['spec'], 's': c['s'], 'column': where,
                          'prescription_discrepancy': d, 'ray_discrepancy': ray, 'violates_property': True})
            if not _only_decentre(found[-1]):
                break
    r = _paraxial_seidel(ctx, ctx.n(30, 200))
    found += [d for d in r['disagreements'] if d.get('violates_property')][:1]
    # witnesses that are not the listed finding first
    found.sort(key=lambda w_: _only_decentre(w_))
    return found[:3] or None


# ----------------------------------------------------------------------------------------------
# 5. findings.  scale-system-decentre (decentres left unscaled) was repaired in /repo (4400cbe) and is listed as
#    fixed: it is no longer consulted, so the same discrepancy is a plain VIOLATION again (regression alarm).
#    The matcher is kept for the case the finding is re-opened.
# ----------------------------------------------------------------------------------------------
def _only_decentre(w):
    """True iff the witness is a scale_system discrepancy that disappears when (and only when) the decentres of the
    scaled lens are multiplied by s by hand: exactly the listed call site"""
    if w.get('relation') != 'scale_system' or 'error' in w:
        return False
    import c07lib as L
    try:
        spec, s = w['spec'], w['s']
        if not any(su.get('dx') or su.get('dy') for su in spec['surfaces']):
            return False
        o = L.build(spec)
        o.scale_system(s)
        for su in o.surface_group.surfaces:
            su.geometry.cs.x *= s
            su.geometry.cs.y *= s
        p1 = L.prescription(o)
        p2 = L.prescription(L.build(L.scaled_spec(spec, s)))
        d, _ = _presc_diff(p1, p2, s)
        return d <= 1e-9
    except Exception:   # noqa
        return False


def matches_finding(w, f):
    if f['id'] != 'scale-system-decentre':
        return False
    return _only_decentre(w)


REPLAY_SPEC = {
    'object_thickness': INF,
    'surfaces': [{'type': 'standard', 'radius': 50.0, 'thickness': 4.0, 'is_stop': True, 'material': ['ideal', 1.5, 0.0],
                  'dx': 0.2, 'dy': -0.1},
                 {'type': 'standard', 'radius': -50.0, 'thickness': 45.0, 'material': 'air'}],
    'aperture': ['EPD', 6.0], 'field_type': 'angle', 'fields': [[0.0, 0.0, 0.0, 0.0], [3.0, 0.0, 0.0, 0.0]],
    'wavelengths': [[0.55, True]], 'telecentric': False}


def replay_finding(ctx, f):
    if f['id'] != 'scale-system-decentre':
        return None
    import c07lib as L
    warnings.simplefilter('ignore')
    o = L.build(REPLAY_SPEC)
    o.scale_system(2.0)
    cs = o.surface_group.surfaces[1].geometry.cs
    ray = _scale_system_ray_check(REPLAY_SPEC, 2.0, random.Random(1))
    return bool(abs(float(cs.x) - 0.4) > 1e-12 and ray > 1e-6)


def broken_explained(b, known, witnesses):
    return False

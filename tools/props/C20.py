"""C20 - Zemax import reproduces the prescription written in the file."""
import json
from props.common import BASE_TRUSTED
import vlib
import c20_lib as L

PROP = 'C20'
KERNELS = ['zmx_radius', 'zmx_conic', 'zmx_config', 'zmx_primary', 'zmx_wavelength', 'zmx_xfields', 'zmx_yfields']
THEOREMS = ['C20_import_roundtrip_partial', 'C20_import_roundtrip_xr_partial', 'C20_import_paraxial_partial',
            'C20_nonsequential_rejected', 'C20_unknown_operand_ignored', 'C20_glass_resolution',
            'C20_radius_finite', 'C20_radius_zero', 'C20_kernel_radius', 'C20_kernel_conic', 'C20_kernel_config',
            'C20_kernel_primary', 'C20_kernel_wavelength', 'C20_kernel_fields']
COQ_TARGETS = ['Model/M_C20_exec.vo', 'Gen/Zemax.vo']
TRUSTED_BASE = BASE_TRUSTED + [
    'text decoding is numeric: a token carries what Python float()/int() return for its text (filled in by the harness '
    'by calling Python; built by ntok/itok in the theorems); Python text decoding of UTF-8 / UTF-16 files and str.split '
    'are exercised by the correspondence runs only',
    'modelled, not verified: Material(name[, reference]) finding a catalogue entry is an oracle argument of the model '
    '(C18 covers the lookup); catalogue data of the reference glasses (n_d, V_d) are the published data-sheet values',
    'hand model coq/Model/M_C20.v of ZemaxFileReader / ZemaxToOpticConverter / add_surface glue, tied to the code by the '
    'model-vs-importer run (lens compared inside Coq, bitwise) and by the kernel theorems C20_kernel_*',
]
RULE = ('seeded .zmx texts: 1-30 lens surfaces (plus object and image), STANDARD/EVENASPH, curvature 0 in several '
        'spellings, INFINITY / finite / (wild) negative and infinite inner thicknesses, ENPD/FNUM/OBNA, angle and '
        'object-height fields (1-12, padded lines, wild: unsorted / duplicated), 1-12 wavelengths with 0-23 unused '
        'WAVM lines, any primary index, PWAV before or after WAVM, catalogue and unknown glass names, GCAT lists, '
        'noise operands, LF / CRLF; encodings UTF-8, UTF-8 with BOM, UTF-16 LE with BOM, UTF-16 BE with BOM in rotation plus a '
        'fixed corpus (each encoding x MODE|VERS first line x sequential|non-sequential, and two model glasses sharing one '
        'unknown name; every GLAS line form x UTF-8 / UTF-16 on a d-line doublet+singlet whose focal length is also compared '
        'with an independent y-nu trace of the written numbers and published n_d); GLAS forms, whitespace styles and WAVM without '
        'weight also vary in two thirds of the random files; number tokens in repr / %.15E / %.9g / %.17g; '
        'non-trivial = the file loads and has at least one curved surface')
PARTIAL = [
    'image surface: the round-trip theorem assumes the last SURF block is a plain image plane (listed finding D22: '
    'that block is never stored; refutation Findings/F_C20.v image_surface_refuted)',
    'glass lookup: the theorem assumes the catalogue lookup finds exactly the catalogue names (listed finding D21: '
    'substring search; refutation unknown_substring_refuted)',
    'encodings: that Python yields the same lines for the UTF-8 and UTF-16 encodings of a text is checked by the '
    'correspondence runs, not proved',
    'field points are compared as a set sorted by y (the importer de-duplicates and sorts them)',
]

FINDING_GLASS_CLASSES = ('catalogue-entry-contradicts-file-index', 'catalogue-entry-for-unknown-name')
LAST_BLOCK_CLAUSES = ('radius', 'conic', 'coefficients', 'medium', 'stop')


# ------------------------------------------------------------------------------------------------
def kernel_cases(ctx):
    """the C20 kernels read and write dict entries of the reader; the generic attribute-based runner cannot
    build those, so their correspondence (same rule: real method vs k_<name> FOps, compared inside Coq) is
    run by system_checks ('kernel:<name>')."""
    return []


KRUN = r'''
import sys, json, warnings
import numpy as np
warnings.simplefilter('ignore')
job = json.load(open(sys.argv[1]))
from optiland.fileio.zemax_handler import ZemaxFileReader
out = []
for c in job['cases']:
    r = object.__new__(ZemaxFileReader)
    r.data = {'aperture': {}, 'fields': dict(c.get('fields', {})), 'wavelengths': dict(c.get('wavelengths', {})), 'surfaces': {}}
    if 'data' in r.data['wavelengths']:
        r.data['wavelengths']['data'] = [float.fromhex(x) for x in r.data['wavelengths']['data']]
    r._current_surf_data = {}
    try:
        getattr(r, c['func'])(list(c['tokens']))
        k = c['kernel']
        if k == 'zmx_radius':
            res = float(r._current_surf_data['radius']).hex()
        elif k == 'zmx_conic':
            res = float(r._current_surf_data['conic']).hex()
        elif k == 'zmx_config':
            f, w = r.data['fields'], r.data['wavelengths']
            res = [f['num_fields'], f['type'], w['num_wavelengths'], bool(f['object_space_telecentric']), bool(f['afocal_image_space'])]
        elif k == 'zmx_primary':
            res = r.data['wavelengths']['primary_index']
        elif k == 'zmx_wavelength':
            res = [float(x).hex() for x in r.data['wavelengths']['data']]
        elif k == 'zmx_xfields':
            res = [float(x).hex() for x in r.data['fields']['x']]
        elif k == 'zmx_yfields':
            res = [float(x).hex() for x in r.data['fields']['y']]
        out.append({'ok': res})
    except Exception as e:
        out.append({'err': type(e).__name__, 'msg': str(e)[:80]})
json.dump(out, open(sys.argv[2], 'w'))
'''


def _kernel_checks(ctx):
    g = ctx.gen
    r = g.r
    n = ctx.n(60, 600)
    H = vlib.fhex

    def ftoks(k):
        return [L.fmt(g, r.uniform(-30, 30)) for _ in range(k)]
    cases = []
    zeros = ['0', '0.0', '-0.0', '0.', '0E+0', '0.000000000000000E+000', '1e-320', '-1e-310', '1e308', 'nan', 'inf', '-inf']
    for i in range(n):
        c = zeros[i] if i < len(zeros) else L.fmt(g, r.choice([-1, 1]) / r.uniform(1e-3, 1e4))
        cases.append({'kernel': 'zmx_radius', 'func': '_read_radius', 'tokens': ['CURV', c] + (['0', '0', '0', '0', '""'] if i % 2 else [])})
        cases.append({'kernel': 'zmx_conic', 'func': '_read_conic', 'tokens': ['CONI', zeros[i] if i < len(zeros) else L.fmt(g, r.uniform(-5, 5))]})
        ints = [r.randrange(0, 7), r.randrange(0, 3), r.randrange(0, 13), r.randrange(0, 25), r.randrange(0, 3), r.randrange(0, 3), r.randrange(0, 3)] + \
               [r.randrange(0, 3) for _ in range(r.randrange(0, 4))]
        cases.append({'kernel': 'zmx_config', 'func': '_read_config_data', 'tokens': ['FTYP'] + [str(v) for v in ints]})
        cases.append({'kernel': 'zmx_primary', 'func': '_read_primary_wave', 'tokens': ['PWAV', str(r.randrange(-2, 30))]})
        nw = r.randrange(0, 13)
        have = [r.uniform(0.3, 2.0) for _ in range(r.randrange(0, nw + 3))]
        cases.append({'kernel': 'zmx_wavelength', 'func': '_read_wavelength',
                      'tokens': ['WAVM', str(len(have) + 1), L.fmt(g, r.uniform(0.3, 2.0)), '1'],
                      'wavelengths': {'num_wavelengths': nw, 'data': [float(x).hex() for x in have]}})
        nf = r.randrange(0, 15) if i % 9 else r.randrange(-3, 1)
        for k, fn in (('zmx_xfields', '_read_x_fields'), ('zmx_yfields', '_read_y_fields')):
            cases.append({'kernel': k, 'func': fn, 'tokens': [k[4].upper() + 'FLN'] + ftoks(r.choice([1, 3, 12])),
                          'fields': {'num_fields': nf}})
    py = vlib.run_python(KRUN, {'cases': cases})
    by = {}
    for c, p in zip(cases, py):
        by.setdefault(c['kernel'], []).append((c, p))
    names = sorted(by)
    bodies = []
    for k in names:
        lines = []
        for c, p in by[k]:
            t = c['tokens']
            if 'err' in p:
                lines.append('false')
                continue
            o = p['ok']
            if k in ('zmx_radius', 'zmx_conic'):
                lines.append(f'same (k_{k} FOps [0; {H(float(t[1]))}]) {H(float.fromhex(o))}')
            elif k == 'zmx_config':
                ints = '; '.join(vlib.zlit(int(v)) for v in t[1:])
                lines.append(f"(let '(a, b, c, d, e) := k_zmx_config FOps [0%Z; {ints}] in (a =? {vlib.zlit(o[0])})%Z && "
                             f'String.eqb b {L.cstr(o[1])} && (c =? {vlib.zlit(o[2])})%Z && Bool.eqb d {"true" if o[3] else "false"} '
                             f'&& Bool.eqb e {"true" if o[4] else "false"})')
            elif k == 'zmx_primary':
                lines.append(f'(k_zmx_primary FOps [0%Z; {vlib.zlit(int(t[1]))}] =? {vlib.zlit(o)})%Z')
            elif k == 'zmx_wavelength':
                data = '[0; ' + '; '.join(H(float(v)) for v in t[1:]) + ']'
                have = '[' + '; '.join(H(float.fromhex(v)) for v in c['wavelengths']['data']) + ']'
                exp = '[' + '; '.join(H(float.fromhex(v)) for v in o) + ']'
                lines.append(f'all2 same (k_zmx_wavelength FOps {data} {vlib.zlit(c["wavelengths"]["num_wavelengths"])} {have}) {exp}')
            else:
                data = '[0; ' + '; '.join(H(float(v)) for v in t[1:]) + ']'
                exp = '[' + '; '.join(H(float.fromhex(v)) for v in o) + ']'
                lines.append(f'all2 same (k_{k} FOps {data} {vlib.zlit(c["fields"]["num_fields"])}) {exp}')
        bodies.append('Eval vm_compute in (report [\n' + ';\n'.join(lines) + '\n]).\n')
    res = vlib.run_cases('c20k', 'From OV Require Import Gen.Zemax Model.M_C20 Model.M_C20_exec.', bodies)
    out = []
    for k, rr in zip(names, res):
        d = {'name': 'kernel:' + k, 'n': len(by[k]), 'nontrivial': sum(1 for _, p in by[k] if 'ok' in p),
             'samples': [{'tokens': by[k][0][0]['tokens'], 'python': by[k][0][1]}], 'disagreements': []}
        if rr[0] == 'error':
            d['error'] = rr[1]
        else:
            for i in rr[2]:
                c, p = by[k][i]
                d['disagreements'].append({'kernel': k, 'tokens': c['tokens'], 'state': {x: c[x] for x in ('fields', 'wavelengths') if x in c},
                                           'python': p, 'violates_property': False})
            if rr[1] > len(rr[2]):
                d['disagreements'].append({'kernel': k, 'note': f'{rr[1] - len(rr[2])} more', 'violates_property': False})
        out.append(d)
    return out


# ------------------------------------------------------------------------------------------------
def _corpus(ctx):
    """the fixed part of every run: each encoding x (MODE | VERS on the first line) x (sequential | non-sequential),
    and a file whose two model glasses share one unknown name"""
    g = ctx.gen
    ps = []
    k = 900000
    for enc in L.ENCODINGS:
        for first in ('MODE', 'VERS'):
            for mode in ('sane', 'nsc'):
                p = L.gen_prescription(g, k, mode, n=g.r.choice([1, 2, 3]))
                p['mode_first'] = first == 'MODE'
                if mode == 'sane':
                    p['seqline'] = 'MODE SEQ'
                p['encoding'] = enc
                p['corpus'] = True
                ps.append(p)
                k += 1
    p = L.gen_prescription(g, k, 'dupglass', n=4)
    p['encoding'] = 'utf-8'
    p['corpus'] = True
    ps.append(p)
    # every GLAS line form (as saved by Zemax, name only as in vendor files, name + codes, cut after n_d, model
    # glass) x two encodings, whitespace styles in rotation; d line primary so the independent y-nu oracle applies
    j = 0
    for form in L.GLAS_FORMS + ['model']:
        for enc in ('utf-8', 'utf-16-le-bom'):
            q = L.fixed_prescription(950000 + j, 'full' if form == 'model' else form, L.WS_STYLES[j % 4], model=form == 'model')
            q['encoding'] = enc
            q['corpus'] = True
            ps.append(q)
            j += 1
    return ps


def _make_cases(ctx, n, start=0, modes=True, corpus=True):
    g = ctx.gen
    ps = _corpus(ctx) if corpus else []
    for j in range(n):
        i = start + j
        mode = None
        if modes:
            if i % 12 == 7:
                mode = 'd21'
            elif i % 12 == 8:
                mode = 'd22'
            elif i % 12 == 9:
                mode = 'nsc'
            elif i % 12 == 10:
                mode = 'dupglass'
        p = L.gen_prescription(g, i, mode)
        p['encoding'] = L.ENCODINGS[i % 4]
        p['mode_first'] = (i // 4) % 3 == 0
        if i % 3 != 0:
            L.add_variants(p)
        ps.append(p)
    codecs = L.importer_encodings(vlib.REPO)
    cases = []
    for p in ps:
        lines = L.emit_lines(p)
        text = L.emit_text(p)
        exp = L.expected_lens(p)
        cases.append({'text': text, 'encoding': p['encoding'], 'parax': p['mode'] == 'sane',
                      'expected': exp, 'efl_independent': L.ynu_focal_length(exp) if p['mode'] == 'sane' else None, 'lookups': L.lookups_of(lines), 'lines': lines,
                      # what the importer's line loop is handed: decoding follows the codec list in the source
                      'model_lines': L.decoded_lines(L.encode_text(text, p['encoding']), codecs)})
    obs = L.run_loader(vlib, [{k: v for k, v in c.items() if k not in ('lines', 'model_lines')} for c in cases])
    return ps, cases, obs


def _witnesses(p, case, o):
    """property-level violations of one loaded file (the property stated directly on the implementation)"""
    ws = []
    brief = {'idx': p['idx'], 'mode': p['mode'], 'encoding': p['encoding'], 'seed': p['seed'],
             'first_line': 'MODE' if (p.get('mode_first') and p['seqline']) else 'VERS',
             'whitespace': p.get('ws', 'plain'),
             'glas_forms': sorted({(s['glass'] or {}).get('form', 'full') for s in p['surfs'] if s['glass']})}
    if p['mode'] == 'nsc':
        if o.get('ok') or o.get('err') != 'ValueError':
            ws.append({'kind': 'nonsequential-accepted', 'clause': 'nonsequential', 'class': 'nonsequential-accepted',
                       'detail': f'file says "{p["seqline"]}" and was not rejected with ValueError: {o.get("err")}',
                       'encoding': p['encoding'], 'first_line': brief['first_line'],
                       'case': brief, 'text': case['text'], 'violates_property': True})
        return ws
    for d in L.compare(p, case['expected'], o):
        ws.append({'kind': 'import-differs', **d, 'case': brief, 'text': case['text'], 'violates_property': True})
    if not ws and o.get('ok') and 'parax' in o and o['parax'] != o.get('parax_ref'):
        ws.append({'kind': 'paraxial-differs', 'clause': 'paraxial', 'class': 'paraxial',
                   'detail': f'imported {o["parax"]} vs lens built from the written numbers {o.get("parax_ref")}',
                   'case': brief, 'text': case['text'], 'violates_property': True})
    fi = case.get('efl_independent')
    if fi is not None and o.get('ok') and 'parax' in o:
        f2 = o['parax'].get('f2')
        if not (isinstance(f2, float) and abs(f2 - fi) <= 2e-3 * abs(fi)):
            ws.append({'kind': 'paraxial-differs', 'clause': 'paraxial', 'class': 'efl-vs-independent-ynu',
                       'detail': f'focal length {f2!r} imported, {fi!r} from a y-nu trace of the written curvatures, '
                                 'thicknesses and the published n_d of the named glasses',
                       'case': brief, 'text': case['text'], 'violates_property': True})
    return ws


def system_checks(ctx):
    out = []
    try:
        out += _kernel_checks(ctx)
    except Exception as e:
        import traceback
        out.append({'name': 'kernel:all', 'n': 0, 'error': traceback.format_exc()[-1500:]})
    ps, cases, obs = _make_cases(ctx, ctx.n(36, 480))
    n = len(ps)
    # ---- 1. the hand model (evaluated in Coq, PrimFloat) against the real importer
    chunk = 4
    bodies, index = [], []
    for s in range(0, n, chunk):
        items = []
        for p, c, o in list(zip(ps, cases, obs))[s:s + chunk]:
            model = f'(fload ({L.resolve_term(o["lookups"])}) {L.lines_term(vlib, c["model_lines"])})'
            ob = f'(Some ({L.obs_lens_term(vlib, o, p["gcat"])}))' if o['ok'] else 'None'
            items.append(f'agrees {model} {ob}')
        bodies.append('Eval vm_compute in (report [\n' + ';\n'.join(items) + '\n]).\n')
        index.append(s)
    res = vlib.run_cases('c20m', 'From OV Require Import Model.M_C20 Model.M_C20_exec.', bodies)
    m = {'name': 'model-vs-importer', 'n': n, 'disagreements': [],
         'nontrivial': sum(1 for o in obs if o.get('ok') and any(s['geom'] != 'Plane' for s in o['surfs'])),
         'histogram': {**{'encoding:' + e: sum(1 for p in ps if p['encoding'] == e) for e in L.ENCODINGS},
                       **{f'nonsequential:{e}': sum(1 for p in ps if p['encoding'] == e and p['mode'] == 'nsc') for e in L.ENCODINGS},
                       'first_line:MODE': sum(1 for p in ps if p.get('mode_first') and p['seqline']),
                       'first_line:VERS': sum(1 for p in ps if not (p.get('mode_first') and p['seqline'])),
                       'importer_codecs': L.importer_encodings(vlib.REPO),
                       **{'glas_line:' + f: sum(1 for p in ps for s_ in p['surfs'] if s_['glass'] and s_['glass']['class'] == 'catalogue'
                                                and s_['glass'].get('form', 'full') == f) for f in L.GLAS_FORMS},
                       'glas_line:model': sum(1 for p in ps for s_ in p['surfs'] if s_['glass'] and s_['glass']['class'] == 'model'),
                       **{'whitespace:' + w: sum(1 for p in ps if p.get('ws', 'plain') == w) for w in L.WS_STYLES},
                       'wavm_without_weight': sum(1 for p in ps if p.get('wavm_weight') is False),
                       'focal_length_vs_independent_ynu': sum(1 for c in cases if c.get('efl_independent') is not None),
                       'surfaces_max': max(len(p['surfs']) for p in ps), 'load_raised': sum(1 for o in obs if not o.get('ok'))},
         'note': 'every run holds the fixed corpus: UTF-8 without and with BOM, UTF-16 LE and BE with BOM, each with MODE and '
                 'with VERS on the first line, each sequential and non-sequential; the model is fed the lines produced by the '
                 'codec list read from _read_file; GLAS lines are written as saved by Zemax, name only (vendor files), name + codes, '
                 'cut after n_d, and as model glass; whitespace as single blanks, tabs, runs of blanks, trailing blanks',
         'samples': [{'file': ps[0]['idx'], 'encoding': ps[0]['encoding'], 'first_lines': cases[0]['lines'][:6],
                      'python': {k: obs[0].get(k) for k in ('ap', 'ftype', 'waves', 'prim')}}]}
    errs = [r[1] for r in res if r[0] == 'error']
    if errs:
        m['error'] = errs[0]
    else:
        for s, r in zip(index, res):
            for i in r[2]:
                p, c, o = ps[s + i], cases[s + i], obs[s + i]
                ws = _witnesses(p, c, o)
                m['disagreements'].append({'case': {'idx': p['idx'], 'mode': p['mode'], 'encoding': p['encoding']},
                                           'text': c['text'], 'python': {k: v for k, v in o.items() if k != 'lookups'},
                                           'note': 'model lens differs from the lens the importer built',
                                           'violates_property': False})
    out.append(m)
    # ---- 2. the property itself on the implementation: lens == what the written numbers describe
    sp = {'name': 'written-numbers-vs-importer', 'n': n, 'nontrivial': m['nontrivial'], 'disagreements': [],
          'histogram': {}, 'samples': []}
    par = {'name': 'paraxial-vs-written-numbers', 'n': 0, 'nontrivial': 0, 'disagreements': [], 'samples': []}
    ns = {'name': 'nonsequential-rejected', 'n': 0, 'nontrivial': 0, 'disagreements': [], 'samples': []}
    for p, c, o in zip(ps, cases, obs):
        ws = _witnesses(p, c, o)
        if p['mode'] == 'nsc':
            ns['n'] += 1
            ns['nontrivial'] += 1
            ns['disagreements'] += ws
            if not ns['samples']:
                ns['samples'].append({'mode_line': p['seqline'], 'python': {k: o.get(k) for k in ('ok', 'err', 'msg')}})
            continue
        for w in ws:
            key = w['clause'] + ':' + w['class']
            sp['histogram'][key] = sp['histogram'].get(key, 0) + 1
            (par if w['kind'] == 'paraxial-differs' else sp)['disagreements'].append(w)
        if o.get('ok') and 'parax' in o:
            par['n'] += 1
            if isinstance(o['parax'].get('f2'), float) and o['parax']['f2'] == o['parax']['f2'] and abs(o['parax']['f2']) != float('inf'):
                par['nontrivial'] += 1
            if not par['samples']:
                par['samples'].append({'file': p['idx'], 'python': o['parax'], 'reference': o.get('parax_ref')})
    sp['samples'].append({'file': ps[1]['idx'], 'expected_surface_1': cases[1]['expected']['surfs'][1],
                          'python_surface_1': obs[1]['surfs'][1] if obs[1].get('ok') else obs[1]})
    out += [sp, par, ns]
    return out


def search(ctx, broken, disagreements):
    """state the property directly on the implementation and sweep seeded files for a failing one"""
    n = ctx.n(96, 600)
    ps, cases, obs = _make_cases(ctx, n, start=100000, modes=False)
    ws = []
    for p, c, o in zip(ps, cases, obs):
        ws += _witnesses(p, c, o)
        if len(ws) >= 5:
            break
    # also the fixed probes of every clause
    return ws or None


def matches_finding(w, f):
    m = f.get('match', {})
    if m.get('kind') == 'last-surf-block-dropped':
        return (w.get('kind') == 'import-differs' and w.get('is_last_surf_block') is True
                and w.get('clause') in LAST_BLOCK_CLAUSES and w.get('class') not in FINDING_GLASS_CLASSES
                and w.get('class') != 'model-glass-wrong')
    if m.get('kind') == 'bom-glued-to-first-token':
        return (w.get('kind') == 'nonsequential-accepted' and w.get('encoding') == m.get('encoding')
                and w.get('first_line') == m.get('first_line'))
    if m.get('kind') == 'glass-name-lookup':
        return (w.get('kind') == 'import-differs' and w.get('clause') == 'medium'
                and w.get('class') in FINDING_GLASS_CLASSES and w.get('glass') in m.get('names', []))
    return False


D21_TEXT = """MODE SEQ
ENPD 10.0
FTYP 0 0 1 1 0 0 0
XFLN 0
YFLN 0
WAVM 1 0.5875618 1
PWAV 1
SURF 0
  TYPE STANDARD
  CURV 0.0
  DISZ INFINITY
SURF 1
  STOP
  TYPE STANDARD
  CURV 0.02
  DISZ 5.0
  GLAS {name} 0 0 {nd} {vd}
SURF 2
  TYPE STANDARD
  CURV -0.02
  DISZ 95.0
SURF 3
  TYPE STANDARD
  CURV {imgc}
  DISZ 0
"""


def replay_finding(ctx, f):
    m = f.get('match', {})
    if m.get('kind') == 'glass-name-lookup':
        nm = m['names'][0]
        o = L.run_loader(vlib, [{'text': D21_TEXT.format(name=nm, nd='1.6', vd='50.0', imgc='0.0'), 'encoding': 'utf-8', 'lookups': []}])[0]
        med = o['surfs'][1]['med'] if o.get('ok') else None
        return bool(med and med[0] == 'cat' and abs(med[3] - 1.6) > 2e-3)
    if m.get('kind') == 'bom-glued-to-first-token':
        text = D21_TEXT.format(name='N-BK7', nd='1.5168', vd='64.17', imgc='0.0').replace('MODE SEQ', 'MODE NSC')
        o = L.run_loader(vlib, [{'text': text, 'encoding': m['encoding'], 'lookups': []}])[0]
        return bool(o.get('ok'))
    if m.get('kind') == 'last-surf-block-dropped':
        o = L.run_loader(vlib, [{'text': D21_TEXT.format(name='N-BK7', nd='1.5168', vd='64.17', imgc='-0.01'), 'encoding': 'utf-16-le-bom', 'lookups': []}])[0]
        return bool(o.get('ok') and o['surfs'][-1]['geom'] == 'Plane')
    return None


def broken_explained(b, known, witnesses):
    return False

"""C12 - geometric analyses are faithful functions of the traced rays."""
import math
import random
import types

from props.common import BASE_TRUSTED

PROP = 'C12'
KERNELS = ['fc_tangential', 'fc_sagittal', 'distortion_ftan', 'distortion_ftheta', 'distortion_height', 'grid_distortion', 'op_rms_spot',
           'rayfan_init', 'pupilab_init']
THEOREMS = ['C12_centroid_is_zero_first_moment',
            'C12_nan_reductions_skip',
            'C12_nanmean_clean',
            'C12_centroid1_is_centroid',
            'C12_reference_index_rule',
            'C12_centroid_reference_rule',
            'C12_centroid_ignores_failed_ray',
            'C12_rms_radius_spec',
            'C12_geo_radius_spec',
            'C12_geo_radius_bounds',
            'C12_center_spots_spec',
            'C12_ee_properties',
            'C12_ee_curve_reaches_total',
            'C12_op_rms_spot_is_rms_about_centroid',
            'C12_fan_samples_odd',
            'C12_linspace_mid_zero',
            'C12_rayfan_reference_rule',
            'C12_rayfan_field_spec',
            'C12_pupil_err_spec',
            'C12_distortion_ftan_value',
            'C12_distortion_ftan_ideal',
            'C12_distortion_ftheta_value',
            'C12_distortion_height_value',
            'C12_distortion_height_ideal',
            'C12_invalid_type_raises',
            'C12_grid_tail_spec',
            'C12_grid_distortion_height_spec',
            'C12_grid_distortion_angle_spec',
            'C12_parabasal_crossing',
            'C12_fc_crossing',
            'C12_evens_odds_interleave']
COQ_TARGETS = ['Model/Trace.vo', 'Model/M_C12.vo', 'Lemmas/L_C12_float.vo']
TRUSTED_BASE = BASE_TRUSTED + [
    'py2coq extension tools/py2coq_c12.py (1-D NumPy arrays as lists, elementwise arithmetic, np.mean / np.max as fold-based reductions; '
    'the reads of the trace records are kernel INPUTS); validated by running each kernel against the real method on a stub optic',
    'hand model coq/Model/M_C12.v (nested-list / dictionary plumbing of SpotDiagram, EncircledEnergy, RayFan, PupilAberration, meshgrid order of '
    'GridDistortion, pairing of the parabasal rays): tied to the implementation by evaluating it on independently traced rays',
    'the rays themselves come from optic.trace_generic (properties C02/C03/C16) and Paraxial.trace (C04); the Coq trace model Model/Trace.v is '
    'composed with the spot model on a subset of the lenses',
    'Coddington comparison is numerical (independent NumPy trace along the chief ray, spheres and planes), not a theorem',
    'np.mean / np.nansum use pairwise summation, the model a left fold: compared to 1e-9',
]
RULE = ('seeded rotationally symmetric lenses (planes, spheres, conics, a share of even aspheres; finite and infinite objects; angle and '
        'object-height fields; 2-3 y fields, 1-3 wavelengths, apertures, coatings, vignetting factors); every analysis at the lens\'s own '
        'lists and at explicit wavelength lists with / without the primary wavelength; distributions hexapolar, uniform, cross, line, random; '
        'both distortion types, odd and even grids; non-trivial = lens on which every analysis produced finite, non-constant output. '
        'About a third of the refracting lenses have a curved image surface; every query is repeated and .data re-read after the radius queries. '
        'Lens classes: refracting, single mirror, three mirrors, lens + mirror (odd mirror counts: light reaches the image travelling to -z, image '
        'defocused from both astigmatic foci); field-list classes: ascending, reordered, all negative, largest magnitude negative, mixed. '
        'Construction routes: direct, stop re-declared by an iris handed over as a Surface object, surfaces as objects, reused Optic, to_dict/from_dict, '
        'ImageSurface object; the stop index and the prescription are taken from the generated spec, never from the object. Every named pupil '
        'distribution is compared with its documented samples and used for a spot recomputation on every lens; the first 6 lenses of every oracle sweep '
        'are a fixed corpus (independent of VERIF_SEED).')
PARTIAL = ['Coddington agreement of the field-curvature data is checked numerically (independent trace), the theorem covers the finite-delta crossing algebra',
           'blocked rays (intensity 0) are counted in centroid / RMS / geometric radius exactly as the implementation does (documented behaviour); '
           'failed rays (NaN) are ignored (theorems C12_nanmean_skip / C12_centroid_ignores_failed_ray hold for every arithmetic instance)',
           'YYbar has only a plotting method: checked at implementation level (segments = consecutive (chief, marginal) paraxial heights)',
           'distortion f-theta ideal-lens statement is not proved exactly (the code divides by tan(1e-10 theta) instead of 1e-10 theta)']

FINDING_IDS = ['explicit-wavelengths-reference', 'distortion-object-height-tan', 'grid-distortion-object-height-x-flip',
               'grid-distortion-centre-sample', 'pupil-aberration-nan-first-surface-stop', 'nan-ray-poisons-spot-statistics']


# ==============================================================================================
# kernel correspondence: run the REAL methods on a stub optic holding the trace records
# ==============================================================================================
def _stub_optic(**arrays):
    import numpy as np
    sg = types.SimpleNamespace(**{k: np.array(v, dtype=float) for k, v in arrays.items()})
    o = types.SimpleNamespace(surface_group=sg, trace_generic=lambda *a, **k: None, trace=lambda *a, **k: None)
    return o


def _hx(v):
    import numpy as np
    return [float(t).hex() for t in np.ravel(np.asarray(v, dtype=float))]


def _fc_py(cases, sagittal):
    import numpy as np
    from optiland.analysis import FieldCurvature
    out = []
    for (A1, N1, A2, N2, p1, z1, p2, z2) in cases:
        try:
            n = len(A1)
            il = lambda a, b: np.ravel(np.column_stack([a, b]))     # noqa: E731  interleave (-delta, +delta) pairs
            rec = {'N': [np.zeros(2 * n), il(N1, N2)], 'z': [np.zeros(2 * n), il(z1, z2)]}
            if sagittal:
                rec['L'] = [np.zeros(2 * n), il(A1, A2)]
                rec['x'] = [np.zeros(2 * n), il(p1, p2)]
            else:
                rec['M'] = [np.zeros(2 * n), il(A1, A2)]
                rec['y'] = [np.zeros(2 * n), il(p1, p2)]
            me = types.SimpleNamespace(num_points=n, optic=_stub_optic(**rec))
            fn = FieldCurvature._intersection_parabasal_sagittal if sagittal else FieldCurvature._intersection_parabasal_tangential
            out.append({'ok': [_hx(fn(me, 0.55))]})
        except Exception as e:   # noqa
            out.append({'err': type(e).__name__})
    return out


def _dist_py(cases, ty, height=False):
    import numpy as np
    from optiland.analysis import Distortion
    out = []
    for case in cases:
        Hy, ws, yr = case[:3]
        maxf = case[3] if len(case) > 3 else 7.0
        try:
            o = _stub_optic(y=[np.zeros(len(yr)), yr])
            o.fields = types.SimpleNamespace(max_field=maxf)
            o.field_type = 'object_height' if height else 'angle'
            me = types.SimpleNamespace(num_points=len(yr), wavelengths=list(ws), distortion_type=ty, optic=o)
            assert [float(v) for v in np.linspace(1e-10, 1, len(yr))] == [float(v) for v in Hy]
            r = Distortion._generate_data(me)
            out.append({'ok': [[_hx(row) for row in r]]})
        except Exception as e:   # noqa
            out.append({'err': type(e).__name__})
    return out


def _grid_py(cases):
    import numpy as np
    from optiland.analysis import GridDistortion
    out = []
    for (y_ref, x_ref, ty, fty, Hx, Hy, maxf, xr, yr) in cases:
        try:
            n = int(round(math.sqrt(len(Hx))))
            o = _stub_optic(x=[[0.0], [0.0]], y=[[0.0], [0.0]])
            state = {'calls': 0}

            def tg(*a, _o=o, _s=state, _xr=xr, _yr=yr, _x0=x_ref, _y0=y_ref, **k):
                _s['calls'] += 1
                if _s['calls'] == 1:
                    _o.surface_group.y = np.array([[0.0], [_y0]], dtype=float)
                elif _s['calls'] == 2:
                    _o.surface_group.x = np.array([[0.0], [_x0]], dtype=float)
                else:
                    _o.surface_group.x = np.array([np.zeros(len(_xr)), _xr], dtype=float)
                    _o.surface_group.y = np.array([np.zeros(len(_yr)), _yr], dtype=float)
            o.trace_generic = tg
            o.fields = types.SimpleNamespace(max_field=maxf)
            o.field_type = fty
            me = types.SimpleNamespace(num_points=n, wavelength=0.55, distortion_type=ty, optic=o)
            d = GridDistortion._generate_data(me)
            out.append({'ok': [_hx(d['xr']), _hx(d['yr']), _hx(d['xp']), _hx(d['yp']), float(d['max_distortion']).hex()]})
        except Exception as e:   # noqa
            out.append({'err': type(e).__name__})
    return out


def _rms_py(cases):
    import numpy as np
    from optiland.optimization.operand.ray import RayOperand
    out = []
    for (xs, ys) in cases:
        try:
            o = _stub_optic(x=[np.zeros(len(xs)), xs, np.ones(len(xs))], y=[np.zeros(len(ys)), ys, np.ones(len(ys))])
            out.append({'ok': [float(RayOperand.rms_spot_size(o, 1, 0.0, 0.3, 3, 0.55, 'hexapolar')).hex()]})
        except Exception as e:   # noqa
            out.append({'err': type(e).__name__})
    return out


def _init_py(cases, which):
    from optiland.analysis import RayFan, PupilAberration
    base = RayFan if which == 'rayfan' else PupilAberration
    cls = type('X', (base,), {'_generate_data': lambda self: None})
    out = []
    for (n,) in cases:
        try:
            a = cls(types.SimpleNamespace(), fields=[(0.0, 0.0)], wavelengths=[0.55], num_points=n)
            out.append({'ok': [int(a.num_points)]})
        except Exception as e:   # noqa
            out.append({'err': type(e).__name__})
    return out


def kernel_cases(ctx):
    import numpy as np
    g = ctx.gen
    n = ctx.n(40, 400)
    fc = []
    for i in range(n):
        m = g.r.choice([1, 2, 3, 5, 8])
        col = lambda f: [f() for _ in range(m)]      # noqa: E731
        A1 = col(lambda: g.uni(-0.2, 0.2))
        A2 = [a + g.uni(-1e-3, 1e-3) for a in A1]
        N1 = [math.sqrt(1 - a * a) for a in A1]
        N2 = [math.sqrt(1 - a * a) for a in A2]
        p1 = col(lambda: g.uni(-5, 5))
        p2 = [p + g.uni(-1e-3, 1e-3) for p in p1]
        z1 = col(lambda: g.uni(40, 60))
        z2 = list(z1) if i % 3 else [z + g.uni(-1e-4, 1e-4) for z in z1]
        if i % 11 == 0:
            A2[0], N2[0] = A1[0], N1[0]              # parallel pair: 0-division
        fc.append([A1, N1, A2, N2, p1, z1, p2, z2])
    yield 'fc_tangential', fc, {'pyres': _fc_py(fc, False)}
    yield 'fc_sagittal', fc, {'pyres': _fc_py(fc, True)}
    ds = []
    for i in range(n):
        m = g.r.choice([2, 3, 5, 9])
        Hy = [float(v) for v in np.linspace(1e-10, 1, m)]
        maxf = g.uni(0.5, 30)
        f = g.uni(20, 200) * g.r.choice([-1, 1])
        yr = [f * math.tan(h * math.radians(maxf)) * (1 + g.uni(-0.05, 0.05) * h * h) for h in Hy]
        ws = [0.55] if i % 2 else [0.48, 0.55, 0.65][:g.r.choice([1, 2, 3])]
        ds.append([Hy, ws, yr, maxf])
    yield 'distortion_ftan', ds, {'tol': 1e-10, 'scalars': ['self.optic.fields.max_field'], 'pyres': _dist_py(ds, 'f-tan')}
    yield 'distortion_ftheta', ds, {'tol': 1e-10, 'scalars': ['self.optic.fields.max_field'], 'pyres': _dist_py(ds, 'f-theta')}
    dh = [c[:3] for c in ds]
    yield 'distortion_height', dh, {'tol': 1e-10, 'pyres': _dist_py(dh, g.r.choice(['f-tan', 'f-theta']), height=True)}
    gd = []
    for i in range(n):
        m = g.r.choice([2, 3, 4, 5])
        ext = np.linspace(-math.sqrt(2) / 2, math.sqrt(2) / 2, m)
        Hx, Hy = np.meshgrid(ext, ext)
        Hx, Hy = [float(v) for v in Hx.flatten()], [float(v) for v in Hy.flatten()]
        maxf = g.uni(0.5, 30)
        f = g.uni(20, 200)
        ty = 'bogus' if i % 13 == 0 else g.r.choice(['f-tan', 'f-theta'])
        fty = g.r.choice(['angle', 'object_height'])
        sx_ = -1 if fty == 'angle' else 1           # angle fields are launched with x mirrored
        xr = [sx_ * f * math.tan(h * math.radians(maxf)) * (1 + g.uni(-0.03, 0.03)) for h in Hx]
        yr = [f * math.tan(h * math.radians(maxf)) * (1 + g.uni(-0.03, 0.03)) for h in Hy]
        y_ref = f * math.tan(1e-10 * math.radians(maxf))
        if i % 7 == 0:
            xr, yr, y_ref = [0.0] * len(Hx), [0.0] * len(Hy), 0.0     # nothing off the axis: max_distortion = nan
        gd.append([y_ref, sx_ * y_ref, ty, fty, Hx, Hy, maxf, xr, yr])
    yield 'grid_distortion', gd, {'tol': 1e-10, 'pyres': _grid_py(gd)}
    rs = []
    for i in range(n):
        m = g.r.choice([1, 2, 7, 19, 37])
        cx, cy = g.uni(-20, 20), g.uni(-20, 20)
        rs.append([[cx + g.uni(-0.1, 0.1) for _ in range(m)], [cy + g.uni(-0.1, 0.1) for _ in range(m)]])
    yield 'op_rms_spot', rs, {'tol': 1e-11, 'pyres': _rms_py(rs)}
    ns = [[k] for k in range(1, 41)] + [[g.r.randrange(2, 2000)] for _ in range(n)]
    yield 'rayfan_init', ns, {'pyres': _init_py(ns, 'rayfan')}
    yield 'pupilab_init', ns, {'pyres': _init_py(ns, 'pupil')}


# ==============================================================================================
# system level: the hand model (evaluated in Coq on independently traced rays) against the implementation
# ==============================================================================================
def _fl(xs):
    import vlib
    return '[' + '; '.join(vlib.fhex(float(x)) for x in xs) + ']'


def _spot(x, y, i):
    return f'(mkSpot (O:=FOps) {_fl(x)} {_fl(y)} {_fl(i)})'


def _data(spots):
    return '[' + ';\n '.join('[' + '; '.join(_spot(*s) for s in fd) + ']' for fd in spots) + ']'


TOL = '0x1p-30'      # ~1e-9, relative-or-absolute (FloatInst.close)

HELPERS = '''
Notation centroid := (M_C12.centroid (O:=FOps)).
Notation centroid1 := (M_C12.centroid1 (O:=FOps)).
Notation center1 := (M_C12.center1 (O:=FOps)).
Notation geo1 := (M_C12.geo1 (O:=FOps)).
Notation rms1 := (M_C12.rms1 (O:=FOps)).
Notation geometric_spot_radius := (M_C12.geometric_spot_radius (O:=FOps)).
Notation rms_spot_radius := (M_C12.rms_spot_radius (O:=FOps)).
Notation center_spots := (M_C12.center_spots (O:=FOps)).
Notation ee_curve := (M_C12.ee_curve (O:=FOps)).
Notation rayfan := (M_C12.rayfan (O:=FOps)).
Notation pupil_err := (M_C12.pupil_err (O:=FOps)).
Notation distortion := (M_C12.distortion (O:=FOps)).
Notation distortion_Hy := (M_C12.distortion_Hy (O:=FOps)).
Notation grid_distortion := (M_C12.grid_distortion (O:=FOps)).
Notation field_curvature_T := (M_C12.field_curvature_T (O:=FOps)).
Notation field_curvature_S := (M_C12.field_curvature_S (O:=FOps)).
Notation op_rms_all := (M_C12.op_rms_all (O:=FOps)).
Notation max_list := (OpsC12.max_list (O:=FOps)).
Notation nanmax_list := (OpsC12.nanmax_list (O:=FOps)).
Notation spot_centroid := (M_C12.spot_centroid (O:=FOps)).
Notation spot_geo := (M_C12.spot_geo (O:=FOps)).
Notation spot_rms := (M_C12.spot_rms (O:=FOps)).
Definition flat2 (l : list (list float)) : list float := List.concat l.
Definition pairs (l : list (float * float)) : list float := flat_map (fun c => [fst c; snd c]) l.
Definition optlist (o : option (list float)) (e : list float) : bool :=
  match o with Some l => close_list %s l e | None => false end.
Definition isnone {A} (o : option A) : bool := match o with None => true | Some _ => false end.
Definition fan_xy (l : list (list (fan FOps))) : list float :=
  flat_map (fun fd => flat_map (fun f => fx f ++ fy f) fd) l.
''' % TOL


# every class of lens / field list / construction route appears in the first dozen lenses of a sweep; later lenses cycle
# through the products.  Routes: how the prescription reaches the Optic object (c12_impl.ROUTES).
CLASS_PLAN = [('refracting', 'ascending', 'iris_object'), ('mirror1', 'largest_negative', 'direct'), ('refracting', 'all_negative', 'handbuilt'),
              ('refracting', 'reordered', 'reuse'), ('mirror3', 'ascending', 'direct'), ('refracting', 'largest_negative', 'roundtrip'),
              ('catadioptric1', 'all_negative', 'iris_object'), ('refracting', 'mixed_largest_positive', 'image_object'),
              ('refracting', 'ascending', 'direct'), ('mirror1', 'reordered', 'roundtrip'), ('refracting', 'all_negative', 'iris_object'),
              ('mirror3', 'largest_negative', 'direct')]
CORPUS_SEED = 777            # the first lenses of every oracle sweep are the SAME for every VERIF_SEED (fixed corpus)
CORPUS = 6


def _classes(k):
    import c12_impl as C
    if k < len(CLASS_PLAN):
        return CLASS_PLAN[k]
    j = k - len(CLASS_PLAN)
    lc = ('refracting', 'refracting', 'mirror1', 'refracting', 'mirror3', 'refracting', 'catadioptric1')[j % 7]
    return lc, C.FIELD_CLASSES[(j // 7 + j) % len(C.FIELD_CLASSES)], C.ROUTES[(j // 3 + j) % len(C.ROUTES)]


def _lens(ctx, salt, k, planned=False, fixed=False, **kw):
    import lensgen
    import c12_impl as C
    rng = random.Random((CORPUS_SEED if fixed else ctx.seed) * 7919 + salt * 101 + k)
    route = 'direct'
    if planned:
        kw['lens_class'], kw['field_class'], route = _classes(k)
        kw['clip'] = bool((k + salt) % 2)          # every other lens carries an aperture that clips the edge of the beam
    spec = C.c12_spec(rng, **kw)
    if spec.get('image_solve_defocus') is not None and route in ('handbuilt', 'reuse', 'roundtrip', 'image_object'):
        route = 'direct'                           # the solved image distance is not part of the entered prescription
    try:
        o = C.build(spec, route=route, rng=rng)
        o.paraxial.EPL()
    except Exception as e:   # noqa
        spec['build_error'] = f'{type(e).__name__}: {e}'
        return None, spec, rng
    return o, spec, rng


def _model_cases(ctx, nl):
    """returns (defs+checks per lens, labels, histogram)"""
    import numpy as np
    import vlib
    import c12_impl as C
    from optiland.analysis import (SpotDiagram, EncircledEnergy, RayFan, PupilAberration, Distortion, GridDistortion,
                                   FieldCurvature)
    from optiland.optimization.operand.ray import RayOperand
    fh = vlib.fhex
    bodies, labels = [], []
    hist = {'lenses': 0, 'build_failures': 0, 'impl_raises': {}, 'field_types': {}, 'checks': {}}
    for k in range(nl):
        o, spec, rng = _lens(ctx, 1, k, planned=True)
        if o is None:
            hist['build_failures'] += 1
            continue
        hist['lenses'] += 1
        hist['field_types'][spec['field_type']] = hist['field_types'].get(spec['field_type'], 0) + 1
        F = [tuple(map(float, f)) for f in o.fields.get_field_coords()]
        W = C.own_wavelengths(o)
        wp = float(o.primary_wavelength)
        pidx = int(o.wavelengths.primary_index)
        defs, checks, labs = [], [], []

        def add(label, expr):
            checks.append(expr)
            labs.append({'lens': k, 'check': label, 'spec': spec})
            hist['checks'][label.split(':')[0]] = hist['checks'].get(label.split(':')[0], 0) + 1

        def raised(name, e):
            hist['impl_raises'][name + ':' + type(e).__name__] = hist['impl_raises'].get(name + ':' + type(e).__name__, 0) + 1

        # ---- spot diagram: own lists and an explicit list ----
        ex = C.explicit_lists(o, rng)
        for tag, wl in (('own', W), ('explicit', ex[rng.choice(sorted(ex))])):
            nr = rng.choice([1, 2])
            spots = [[C.spot_of(o, f, w, nr, 'hexapolar') for w in wl] for f in F]
            dn = f'd_{tag}'
            defs.append(f'Definition {dn} := {_data(spots)}.')
            try:
                sd = SpotDiagram(o, fields=F, wavelengths=wl, num_rings=nr, distribution='hexapolar')
                geo, rms, cen = sd.geometric_spot_radius(), sd.rms_spot_radius(), sd.centroid()
                wsl = f'{_fl(wl)} {fh(wp)}'
                add(f'spot-centroid:{tag}', f'optlist (option_map pairs (spot_centroid {wsl} {dn})) {_fl([v for c in cen for v in c])}')
                add(f'spot-geo:{tag}', f'optlist (option_map flat2 (spot_geo {wsl} {dn})) {_fl([v for r in geo for v in r])}')
                add(f'spot-rms:{tag}', f'optlist (option_map flat2 (spot_rms {wsl} {dn})) {_fl([v for r in rms for v in r])}')
                # the stored intersections after the queries are still the traced ones
                add(f'spot-data:{tag}', f'close_list {TOL} (flat_map (fun fd => flat_map (fun s => sx s ++ sy s) fd) {dn}) '
                                        f'{_fl([v for fd in sd.data for sp in fd for c in (0, 1) for v in sp[c]])}')
            except (IndexError, KeyError) as e:
                raised('SpotDiagram', e)
                add(f'spot-raises:{tag}', f'isnone (spot_centroid {_fl(wl)} {fh(wp)} {dn})')
        # ---- encircled energy ----
        try:
            nr, npts = rng.choice([1, 2]), rng.choice([5, 9])
            ee = EncircledEnergy(o, fields=F, wavelength='primary', num_rays=nr, distribution='hexapolar', num_points=npts)
            curves, _ = C.ee_view_curves(ee)
            spots = [[C.spot_of(o, f, wp, nr, 'hexapolar')] for f in F]
            defs.append(f'Definition d_ee := {_data(spots)}.')
            defs.append('Definition ee_axis := match geometric_spot_radius 0%Z d_ee with Some g => nanmax_list (flat2 g) | None => nan end.')
            for fi in range(len(F)):
                r_step, e_step = curves[fi]
                # a sample radius that coincides with the radius of a ray (the chief ray sits AT the centroid: radius 0 or 1e-17,
                # depending on the summation order of the mean) is a knife edge for `radii <= r`: compared elsewhere only
                sx_, sy_, _ = spots[fi][0]
                fin = np.isfinite(sx_) & np.isfinite(sy_)
                rad = np.sqrt((sx_[fin] - np.mean(sx_[fin])) ** 2 + (sy_[fin] - np.mean(sy_[fin])) ** 2) if np.any(fin) else np.array([])
                scale = 1.0 + (float(np.max(rad)) if len(rad) else 0.0)
                safe = [bool(len(rad) == 0 or np.min(np.abs(rad - r)) > 1e-9 * scale) for r in r_step]
                mask = '[' + '; '.join('true' if b else 'false' for b in safe) + ']'
                add('ee-curve', f'match center_spots 0%Z d_ee with Some c => match nth_error c {fi} with Some [s] => '
                                f'let \'(rs, es) := ee_curve s ee_axis {fh(1.2)} {npts} in close_list {TOL} rs {_fl(r_step)} && '
                                f'close_list {TOL} (lmask (O:=FOps) es {mask}) {_fl([e for e, b in zip(e_step, safe) if b])} '
                                f'| _ => false end | None => false end')
        except Exception as e:   # noqa
            raised('EncircledEnergy', e)
        # ---- ray fan ----
        for tag, wl in (('own', W), ('explicit', ex[rng.choice(sorted(ex))])):
            np0 = rng.choice([4, 5, 8])
            n = np0 + 1 if np0 % 2 == 0 else np0
            P = np.linspace(-1, 1, n)
            fans = []
            for f in F:
                vx, vy = o.fields.get_vig_factor(f[0], f[1])
                row = []
                for w in wl:
                    rx = C.tg(o, f[0], f[1], P * (1 - vx), 0.0, w)
                    ry = C.tg(o, f[0], f[1], 0.0, P * (1 - vy), w)
                    row.append(f'(mkFan (O:=FOps) {_fl(rx["x"][-1])} {_fl(rx["intensity"][-1])} {_fl(ry["y"][-1])} {_fl(ry["intensity"][-1])})')
                fans.append('[' + '; '.join(row) + ']')
            dn = f'fan_{tag}'
            defs.append(f'Definition {dn} := [' + ';\n '.join(fans) + '].')
            try:
                a = RayFan(o, fields=F, wavelengths=wl, num_points=np0)
                flat = []
                for f in F:
                    for w in wl:
                        d = a.data[f'{f}'][f'{w}']
                        flat += list(d['x']) + list(d['y'])
                add(f'rayfan:{tag}', f'optlist (option_map fan_xy (rayfan {_fl(wl)} {fh(wp)} {np0}%Z {dn})) {_fl(flat)}')
            except KeyError as e:
                raised('RayFan', e)
                add(f'rayfan-raises:{tag}', f'isnone (rayfan {_fl(wl)} {fh(wp)} {np0}%Z {dn})')
        # ---- pupil aberration (paraxial reference taken from Paraxial.trace, property C04) ----
        try:
            np0 = rng.choice([4, 7])
            n = np0 + 1 if np0 % 2 == 0 else np0
            P = np.linspace(-1, 1, n)
            a = PupilAberration(o, fields=F, wavelengths=W, num_points=np0)
            stop = C.expected_stop(spec)          # from the generated prescription, not from the object
            dpar = float(C.paraxial_y(o, 0.0, 1.0, wp, stop)[0])
            par = C.paraxial_y(o, 0.0, P, wp, stop)
            f, w = F[-1], W[0]
            vx, vy = o.fields.get_vig_factor(f[0], f[1])
            rx = C.tg(o, f[0], f[1], P * (1 - vx), 0.0, w)
            ry = C.tg(o, f[0], f[1], 0.0, P * (1 - vy), w)
            e = a.data[f'{f}'][f'{w}']
            add('pupil-x', f'close_list {TOL} (pupil_err {fh(dpar)} {_fl(par)} {_fl(rx["x"][stop])} {_fl(rx["intensity"][stop])}) {_fl(e["x"])}')
            add('pupil-y', f'close_list {TOL} (pupil_err {fh(dpar)} {_fl(par)} {_fl(ry["y"][stop])} {_fl(ry["intensity"][stop])}) {_fl(e["y"])}')
        except Exception as e:   # noqa
            raised('PupilAberration', e)
        # ---- distortion ----
        mf = float(o.fields.max_field)
        for ty in ('f-tan', 'f-theta', 'f-sin'):
            npts = rng.choice([3, 5])
            Hy = np.linspace(1e-10, 1, npts)
            yrs = [C.tg(o, 0.0, Hy, 0.0, 0.0, w)['y'][-1] for w in W]
            hb = 'true' if o.field_type == 'object_height' else 'false'
            me = f'(distortion {hb} "{ty}" {fh(mf)} (distortion_Hy {fh(1e-10)} {npts}) [' + '; '.join(_fl(y) for y in yrs) + '])'
            try:
                a = Distortion(o, wavelengths='all', num_points=npts, distortion_type=ty)
                add(f'distortion:{ty}', f'optlist (option_map flat2 {me}) {_fl([v for d in a.data for v in d])}')
            except ValueError as e:
                raised('Distortion', e)
                add(f'distortion-raises:{ty}', f'isnone {me}')
        # ---- grid distortion ----
        for ty in ('f-tan', 'f-theta'):
            npts = rng.choice([2, 3, 4, 5])
            try:
                a = GridDistortion(o, wavelength='primary', num_points=npts, distortion_type=ty)
                m = math.sqrt(2) / 2
                ext = np.linspace(-m, m, npts)
                Hx, Hy = np.meshgrid(ext, ext)
                y_ref = C.tg(o, 0.0, 1e-10, 0.0, 0.0, wp)['y'][-1, 0]
                x_ref = C.tg(o, 1e-10, 0.0, 0.0, 0.0, wp)['x'][-1, 0]
                r = C.tg(o, Hx.flatten(), Hy.flatten(), 0.0, 0.0, wp)
                exp = list(np.ravel(a.data['xp'])) + list(np.ravel(a.data['yp'])) + [float(a.data['max_distortion'])]
                add(f'grid:{ty}', f'match grid_distortion "{ty}" "{o.field_type}" {fh(x_ref)} {fh(y_ref)} {fh(mf)} {npts} {_fl(r["x"][-1])} {_fl(r["y"][-1])} with '
                                  f'Some (_, _, xp, yp, m) => close_list {TOL} (xp ++ yp ++ [m]) {_fl(exp)} | None => false end')
            except Exception as e:   # noqa
                raised('GridDistortion', e)
        # ---- field curvature ----
        try:
            npts = rng.choice([2, 3, 4])
            a = FieldCurvature(o, wavelengths=[W[0]], num_points=npts)
            dl = 1e-5
            Hx = np.zeros(2 * npts)
            Hy = np.repeat(np.linspace(0, 1, npts), 2)
            pm = np.tile(np.array([-dl, dl]), npts)
            rt = C.tg(o, Hx, Hy, np.zeros(2 * npts), pm, W[0])
            rs_ = C.tg(o, Hx, Hy, pm, np.zeros(2 * npts), W[0])
            add('fc-tangential', f'close_list {TOL} (field_curvature_T {_fl(rt["M"][-1])} {_fl(rt["N"][-1])} {_fl(rt["y"][-1])} {_fl(rt["z"][-1])}) {_fl(a.data[0][0])}')
            add('fc-sagittal', f'close_list {TOL} (field_curvature_S {_fl(rs_["L"][-1])} {_fl(rs_["N"][-1])} {_fl(rs_["x"][-1])} {_fl(rs_["z"][-1])}) {_fl(a.data[0][1])}')
        except Exception as e:   # noqa
            raised('FieldCurvature', e)
        # ---- RayOperand.rms_spot_size, all wavelengths ----
        try:
            sn = rng.randrange(1, o.surface_group.num_surfaces)
            Hyo = rng.uniform(-1, 1)
            Px, Py = C.pupil_points(o, 0.0, Hyo, 2, 'hexapolar')
            xs, ys = [], []
            for w in W:
                r = C.tg(o, 0.0, Hyo, Px, Py, w)
                xs.append(r['x'][sn])
                ys.append(r['y'][sn])
            got = RayOperand.rms_spot_size(o, sn, 0.0, Hyo, 2, 'all', 'hexapolar')
            add('op-rms-all', f'close {TOL} (op_rms_all {pidx}%Z [' + '; '.join(_fl(x) for x in xs) + '] [' + '; '.join(_fl(y) for y in ys) + f']) {fh(float(got))}')
        except Exception as e:   # noqa
            raised('RayOperand.rms_spot_size', e)
        bodies.append('\n'.join(defs) + '\nEval vm_compute in (report [\n' + ';\n'.join(checks) + '\n]).\n')
        labels.append(labs)
    return bodies, labels, hist


def _trace_spot_cases(ctx, nl):
    """Model/Trace.v (launch -> image) composed with the spot model, against SpotDiagram / RayOperand"""
    import numpy as np
    import lensgen
    import tracecorr
    import c12_impl as C
    from optiland.analysis import SpotDiagram
    from optiland.optimization.operand.ray import RayOperand
    bodies, labels = [], []
    n_ok = 0
    for k in range(nl):
        o, spec, rng = _lens(ctx, 2, k, aspheres=bool(k % 2))
        if o is None:
            continue
        W = C.own_wavelengths(o)
        w = W[int(o.wavelengths.primary_index)]
        F = [tuple(map(float, f)) for f in o.fields.get_field_coords()][-2:]
        surfs = lensgen.model_surfaces(o, w)
        defs = ['Definition lens := [' + ';\n  '.join(lensgen.coq_surf(s, __import__('vlib').fhex) for s in surfs) + '].']
        checks, labs = [], []
        try:
            sd = SpotDiagram(o, fields=F, wavelengths=[w], num_rings=1, distribution='hexapolar')
            # the primary index of the lens must address the single listed wavelength: use the model with index 0
            cens, geos, rmss = sd.centroid(), sd.geometric_spot_radius(), sd.rms_spot_radius()
        except Exception:   # noqa
            continue
        for fi, f in enumerate(F):
            Px, Py = C.pupil_points(o, f[0], f[1], 1, 'hexapolar')
            r = C.tg(o, f[0], f[1], Px, Py, w)
            sg = o.surface_group
            launch = [[float(c[0, j]) for c in (sg.x, sg.y, sg.z, sg.L, sg.M, sg.N, sg.intensity, sg.opd)] for j in range(len(Px))]
            defs.append(f'Definition rays{fi} := [' + ';\n  '.join(tracecorr.coq_ray(rec, w) for rec in launch) + '].')
            # expectations are the implementation's own answers (failed rays ignored, as the model does)
            exp = [cens[fi][0], cens[fi][1], geos[fi][0], rmss[fi][0]]
            checks.append(f'match spot_of lens rays{fi} with Some s => match centroid1 0%Z [s] with Some c => '
                          f'let sc := center1 c s in close_list {TOL} [fst c; snd c; geo1 sc; rms1 sc] {_fl(exp)} | None => false end | None => false end')
            labs.append({'lens': k, 'check': 'trace+spot', 'field': list(f), 'spec': spec})
            sn = rng.randrange(1, o.surface_group.num_surfaces)
            j = rng.randrange(len(Px))
            vx, vy = o.fields.get_vig_factor(f[0], f[1])
            try:
                # the launch rays above carry the (1 - v) scaling of trace_generic; the operand applies it itself
                ox = float(RayOperand.x_intercept(o, sn, f[0], f[1], float(Px[j]), float(Py[j]), w))
                oy = float(RayOperand.y_intercept(o, sn, f[0], f[1], float(Px[j]), float(Py[j]), w))
                oN = float(RayOperand.N(o, sn, f[0], f[1], float(Px[j]), float(Py[j]), w))
                checks.append(f'match nth_error rays{fi} {j} with Some r0 => match trace lens r0 with Some recs => '
                              f'match nth_error recs {sn - 1} with Some q => close_list {TOL} [rx q; ry q; rN q] {_fl([ox, oy, oN])} | None => false end '
                              f'| None => false end | None => false end')
                labs.append({'lens': k, 'check': 'trace+operand', 'surface': sn, 'spec': spec})
            except Exception:   # noqa
                pass
        if checks:
            n_ok += 1
            bodies.append('\n'.join(defs) + '\nEval vm_compute in (report [\n' + ';\n'.join(checks) + '\n]).\n')
            labels.append(labs)
    return bodies, labels


TRACE_HELPERS = '''
Definition last_rec (l : list (surf FOps)) (r : ray FOps) : option (ray FOps) :=
  match trace l r with Some recs => Some (last recs r) | None => None end.
Definition spot_of (l : list (surf FOps)) (rs : list (ray FOps)) : option (spot FOps) :=
  match all_some (map (last_rec l) rs) with
  | Some qs => Some (mkSpot (O:=FOps) (map (@rx FOps) qs) (map (@ry FOps) qs) (map (@ri FOps) qs))
  | None => None end.
'''


def _run_bodies(tag, imports, helpers, bodies, labels):
    import vlib
    res = vlib.run_cases(tag, imports, [helpers + b for b in bodies])
    bad, n = [], 0
    for r, labs in zip(res, labels):
        if r[0] == 'error':
            raise RuntimeError(r[1])
        n += r[0]
        for i in r[2]:
            bad.append(labs[i])
        if r[1] > len(r[2]):
            bad.append({'note': f'{r[1] - len(r[2])} further failures in lens {labs[0]["lens"]}', 'spec': labs[0]['spec'], 'check': 'more'})
    return n, bad


def _oracle_sweep(ctx, nl, salt=3, level=1, stop_after=None):
    import lensgen
    import c12_impl as C
    viol, hist = [], {'lenses': 0, 'build_failures': 0, 'analyses': 0, 'coddington_samples': 0, 'field_types': {}, 'violations_by_kind': {},
                      'classes': {}, 'routes': {}, 'distributions': list(C.DISTRIBUTIONS), 'fixed_corpus_lenses': 0, 'build_errors': {}}
    clean = 0

    def note(r, spec=None, k=None, o=None):
        r['violates_property'] = True
        if spec is not None:
            r['spec'] = spec
            r['lens'] = k
            r['stop_index'] = C.expected_stop(spec)
            r['object_infinite'] = bool(o.object_surface.is_infinite)
        key = r['analysis'].split('/')[0] + ':' + r['kind']
        hist['violations_by_kind'][key] = hist['violations_by_kind'].get(key, 0) + 1
        viol.append(r)
    # the named pupil distributions against their documented samples (independent of any lens)
    for r in C.check_distributions():
        note(r)
    hist['analyses'] += 1
    plan = [(k, True) for k in range(min(CORPUS, nl))] + [(k, False) for k in range(nl)]
    for k, fixed in plan:
        o, spec, rng = _lens(ctx, salt if not fixed else 3, k, planned=True, fixed=fixed)
        if o is None:
            hist['build_failures'] += 1
            be = spec.get('build_error', '?')[:80]
            hist['build_errors'][be] = hist['build_errors'].get(be, 0) + 1
            continue
        hist['lenses'] += 1
        hist['fixed_corpus_lenses'] += int(fixed)
        hist['field_types'][spec['field_type']] = hist['field_types'].get(spec['field_type'], 0) + 1
        ck = spec.get('lens_class', '?') + '/' + spec.get('field_class', '?')
        hist['classes'][ck] = hist['classes'].get(ck, 0) + 1
        hist['routes'][spec.get('route', '?')] = hist['routes'].get(spec.get('route', '?'), 0) + 1
        res, cnt = C.oracle_lens(o, spec, rng, level=level)
        hist['analyses'] += sum(v for kk, v in cnt.items() if kk != 'coddington_samples')
        hist['coddington_samples'] += cnt.get('coddington_samples', 0)
        if not res:
            clean += 1
        for r in res:
            note(r, spec, k, o)
        if stop_after and len(viol) >= stop_after:
            break
    hist['clean_lenses'] = clean
    return viol, hist


def _dedupe(viol, known=None):
    """one witness per (analysis, kind, finding-or-not) keeps the evidence readable"""
    seen, out = set(), []
    for w in viol:
        fid = None
        for f in (known or []):
            if matches_finding(w, f):
                fid = f['id']
                break
        key = (w['analysis'].split('/')[0], w['kind'], fid)
        if key in seen:
            continue
        seen.add(key)
        out.append(w)
    return out


def system_checks(ctx):
    import traceback
    import vlib
    imports = 'From OV Require Import Num.OpsC12 Gen.Analysis Model.M_C12.'
    # (c) FIRST: the property stated directly on the implementation (independent recomputation incl. Coddington); it does not
    # need the Coq side, so its verdict is reported even when a proof or the model no longer builds
    try:
        viol, hist = _oracle_sweep(ctx, ctx.n(8, 150), level=0 if ctx.quick() else 1)
        known = vlib.load_known_findings(PROP)
        yield {'name': 'independent-recomputation-oracle', 'n': hist['analyses'], 'nontrivial': hist['clean_lenses'] + len(viol),
               'histogram': hist, 'samples': [{'coddington_samples_compared': hist['coddington_samples']}],
               'disagreements': _order(_dedupe(viol, known), known)}
    except Exception:   # noqa
        yield {'name': 'independent-recomputation-oracle', 'n': 0, 'nontrivial': 0, 'samples': [], 'disagreements': [],
               'error': traceback.format_exc()[-800:]}
    # (a) hand model on independently traced rays vs the analyses
    res = {'name': 'analysis-models-vs-implementation', 'n': 0, 'nontrivial': 0, 'samples': [], 'disagreements': []}
    try:
        bodies, labels, hist = _model_cases(ctx, ctx.n(5, 60))
        res.update({'nontrivial': hist['lenses'], 'histogram': hist})
        n, bad = _run_bodies('C12model', imports, HELPERS, bodies, labels)
        res['n'] = n
        for b in bad:
            res['disagreements'].append({'check': b.get('check'), 'lens': b.get('lens'), 'spec': b.get('spec'),
                                         'note': b.get('note'), 'violates_property': False})
        if labels:
            res['samples'].append({'lens_checks': [l['check'] for l in labels[0]][:12]})
    except RuntimeError as e:
        res['error'] = str(e)
    except Exception:   # noqa
        res['error'] = traceback.format_exc()[-800:]
    yield res
    # (b) Coq trace model composed with the spot model
    res = {'name': 'trace-model+spot-model-vs-SpotDiagram', 'n': 0, 'nontrivial': 0, 'samples': [], 'disagreements': []}
    try:
        bodies, labels = _trace_spot_cases(ctx, ctx.n(3, 40))
        res['nontrivial'] = len(bodies)
        n, bad = _run_bodies('C12trace', 'From OV Require Import Num.OpsC12 Gen.Analysis Model.M_C12 Model.Trace.', HELPERS + TRACE_HELPERS, bodies, labels)
        res['n'] = n
        for b in bad:
            res['disagreements'].append({'check': b.get('check'), 'lens': b.get('lens'), 'spec': b.get('spec'), 'violates_property': False})
    except RuntimeError as e:
        res['error'] = str(e)
    except Exception:   # noqa
        res['error'] = traceback.format_exc()[-800:]
    yield res


def _order(ws, known):
    """unlisted witnesses first (the driver alarms on the first unlisted one)"""
    return sorted(ws, key=lambda w: any(matches_finding(w, f) for f in known))


def _slim(w):
    return {k: v for k, v in w.items()}


def search(ctx, broken, disagreements):
    """the property as an oracle on the implementation (independent traces + direct recomputation, Coddington incl. mirror
    systems), seeded sweep over every class of lens (refracting, 1 and 3 mirrors, lens + mirror) and of field list
    (ascending, reordered, all negative, largest magnitude negative, mixed).  Returns a list, unlisted witnesses first."""
    import vlib
    known = vlib.load_known_findings(PROP)
    viol, hist = _oracle_sweep(ctx, ctx.n(28, 200), salt=5, level=1)
    ws = _order(_dedupe(viol, known), known)
    fresh = [w for w in ws if not any(matches_finding(w, f) for f in known)]
    ctx.notes.append(f'search: {hist["lenses"]} lenses {hist.get("classes")}, {hist["analyses"]} analyses, {len(viol)} violations, {len(fresh)} not listed')
    if ws:
        return (fresh[:3] + [w for w in ws if w not in fresh][:2]) or None
    return None


# ==============================================================================================
# known findings
# ==============================================================================================
def matches_finding(w, f):
    a = (w.get('analysis') or '').split('/')[0].split(':')[0]
    kind = w.get('kind')
    fid = f['id']
    if fid == 'explicit-wavelengths-reference':
        return (a in ('SpotDiagram', 'RmsSpotSizeVsField', 'RayFan') and kind in ('reference-raises', 'reference-wrong')
                and bool(w.get('explicit_wavelengths'))
                and (a != 'RayFan' or (kind == 'reference-raises' and w.get('primary_listed') is False)))
    if fid == 'distortion-object-height-tan':
        return a == 'Distortion' and kind == 'value' and w.get('field_type') == 'object_height' and w.get('distortion_type') == 'f-tan'
    if fid == 'grid-distortion-object-height-x-flip':
        return a == 'GridDistortion' and kind == 'max-distortion' and w.get('field_type') == 'object_height'
    if fid == 'grid-distortion-centre-sample':
        return a == 'GridDistortion' and kind == 'max-distortion' and w.get('field_type') == 'angle' and bool(w.get('centre_sample'))
    if fid == 'pupil-aberration-nan-first-surface-stop':
        return (a == 'PupilAberration' and kind in ('x', 'y') and w.get('stop_index') == 1 and bool(w.get('object_infinite'))
                and bool(w.get('all_nan')))
    if fid == 'nan-ray-poisons-spot-statistics':
        return a in ('SpotDiagram', 'RmsSpotSizeVsField', 'EncircledEnergy') and kind == 'nan-poisoned' and (w.get('nonfinite_rays') or 0) > 0
    return False


REPLAY_INF = {'object_thickness': float('inf'),
              'surfaces': [{'type': 'standard', 'radius': 40.0, 'thickness': 5.0, 'is_stop': True, 'material': ['glass', 'N-SF11', 'schott']},
                           {'type': 'standard', 'radius': -60.0, 'thickness': 45.0, 'material': 'air'}],
              'aperture': ['EPD', 8.0], 'field_type': 'angle', 'fields': [[0.0, 0.0, 0.0, 0.0], [7.0, 0.0, 0.0, 0.0]],
              'wavelengths': [[0.48, False], [0.55, True], [0.65, False]], 'telecentric': False}
REPLAY_FIN = {'object_thickness': 120.0,
              'surfaces': [{'type': 'standard', 'radius': 40.0, 'thickness': 5.0, 'is_stop': False, 'material': ['ideal', 1.6, 0.0]},
                           {'type': 'standard', 'radius': -60.0, 'thickness': 4.0, 'is_stop': True, 'material': 'air'},
                           {'type': 'standard', 'radius': float('inf'), 'thickness': 70.0, 'material': 'air'}],
              'aperture': ['EPD', 6.0], 'field_type': 'object_height', 'fields': [[0.0, 0.0, 0.0, 0.0], [8.0, 0.0, 0.0, 0.0]],
              'wavelengths': [[0.55, True]], 'telecentric': False}
REPLAY_NAN = dict(REPLAY_INF, surfaces=[{'type': 'standard', 'radius': 5.5, 'thickness': 3.0, 'is_stop': False, 'material': ['ideal', 1.6, 0.0]},
                                        {'type': 'standard', 'radius': float('inf'), 'thickness': 3.0, 'is_stop': True, 'material': 'air'},
                                        {'type': 'standard', 'radius': float('inf'), 'thickness': 10.0, 'material': 'air'}],
                  aperture=['EPD', 12.0])


def replay_finding(ctx, f):
    import lensgen
    import c12_impl as C
    fid = f['id']
    if fid == 'explicit-wavelengths-reference':
        o = lensgen.build(REPLAY_INF)
        F = [tuple(map(float, x)) for x in o.fields.get_field_coords()]
        r = C.check_spot(o, F, [0.5], 2, 'hexapolar') + C.check_spot(o, F, [0.55, 0.48], 2, 'hexapolar') + C.check_rayfan(o, F, [0.5], 5)
        ks = {(x['analysis'], x['kind']) for x in r}
        return ('SpotDiagram', 'reference-raises') in ks and ('SpotDiagram', 'reference-wrong') in ks and ('RayFan', 'reference-raises') in ks
    if fid == 'distortion-object-height-tan':
        o = lensgen.build(REPLAY_FIN)
        return bool(C.check_distortion(o, 'all', 5, 'f-tan')[0]) and not C.check_distortion(o, 'all', 5, 'f-theta')[0]
    if fid == 'grid-distortion-object-height-x-flip':
        o = lensgen.build(REPLAY_FIN)
        return bool(C.check_grid_distortion(o, 'primary', 4, 'f-theta')[0])
    if fid == 'grid-distortion-centre-sample':
        o = lensgen.build(REPLAY_INF)
        return bool(C.check_grid_distortion(o, 'primary', 5, 'f-tan')[0]) and not C.check_grid_distortion(o, 'primary', 4, 'f-tan')[0]
    if fid == 'pupil-aberration-nan-first-surface-stop':
        o = lensgen.build(REPLAY_INF)
        F = [tuple(map(float, x)) for x in o.fields.get_field_coords()]
        return bool(C.check_pupil_aberration(o, F, [0.55], 5))
    if fid == 'nan-ray-poisons-spot-statistics':
        o = lensgen.build(REPLAY_NAN)
        r = C.check_spot(o, [(0.0, 0.0)], [0.55], 3, 'hexapolar') + C.check_encircled(o, [(0.0, 0.0)], 'primary', 3, 'hexapolar', 8)[0]
        return any(x['kind'] == 'nan-poisoned' for x in r)
    return None


def broken_explained(b, known, witnesses):
    return False

"""C10 - Zernike families are correctly indexed, normalised, and recovered by fitting."""
import math
import os
import random

import numpy as np

import vlib
from props.common import BASE_TRUSTED

PROP = 'C10'
KERNELS = ['zk_norm_std', 'zk_norm_noll', 'zk_norm_fringe', 'zk_azimuthal', 'zk_radial',
           'zk_term_std', 'zk_term_noll', 'zk_term_fringe']
THEOREMS = ['C10_' + n for n in (
    'std_indices_rule noll_indices_rule fringe_indices_rule noll_indices_N_exact fringe_sorted_N_exact '
    'noll_c_total code_numbers_are_published fringe_120_needs_n_le_19 noll_parity noll_monotone '
    'osa_j_injective noll_j_injective fringe_j_injective radial_kernel_is_poly radial_edge_one '
    'radial_orthogonal azimuthal_orthogonal std_noll_orthonormal norm_kernels_squared zernike_poly_linear '
    'zernike_fit_recovers zernike_fit_recovers_pts zernike_fit_linear zernike_fit_residual').split()]
COQ_TARGETS = ['Model/M_C10.vo', 'Spec/S_C10.vo']
TRUSTED_BASE = BASE_TRUSTED + [
    'modelled, not verified: scipy.optimize.least_squares is the section hypothesis lstsq_min (returns a minimiser of the '
    'sum of squared residuals over coefficient vectors of length num_terms); checked numerically on every run '
    '(recovery, linearity, normal equations on generated data)',
    'hand models coq/Model/M_C10.v of _generate_indices x3 (exhaustively compared with the methods\' output on every run), '
    'terms/poly/_objective (compared on seeded inputs)',
    'Coquelicot 3.x (is_RInt, auto_derive) for the azimuthal integrals',
    'int() of a dyadic int expression and math.factorial are translated to Z.quot / a Z product (py2coq); '
    'valid for |values| < 2**52 and non-negative factorial arguments, exercised by the kernel correspondence',
]
RULE = ('several fit objects alive in one process (fixed corpus, histogram fit_object_histories): three fits a, b, a+2b of one family queried after all exist (recovery, linearity, reproduction), query / later fit with other N and points / query again, the same arrays handed to several fits of the same and of another family, edit one fit\'s coefficient and edit back, ZernikeOPD for two fields of one lens with a ZernikeFit in between; expected = generating coefficients (independent basis) or numpy lstsq of the captured samples; '
        'coefficient containers (int/float/bool lists, tuples, int/float arrays, the default 36 zeros) x histories on one object (construct-evaluate, item-assign-evaluate, replace-evaluate, additivity entered term by term, second default object) x argument kinds: fixed corpus, counts in the histogram of property_oracles_on_implementation; recovery: for each family and every N = 1..37 four points/terms classes M = N (boundary), N+1, 2N, >= 2N+10, points chosen by pivoted QR of an independent design matrix, cond <= 1e3 required (reported in the histogram); recovery cases include data scaled to 1e-11 / 1e-13 (homogeneity of the fit); index lists: the three _generate_indices outputs are enumerated completely (3 x 120 positions) against the model and '
        'against the published rule evaluated in Coq; kernels: every supported (n, m) of the three lists x seeded r in [0,1] '
        '(incl. 0 and 1), phi in [-pi, pi]; poly/objective/fit: seeded coefficient vectors of length 1..37 (and up to 120 for '
        'poly), sample sets of >= 2N+10 points uniform in the unit disk; lenses from tools/lensgen.simple_spec for ZernikeOPD. '
        'non-trivial = coefficient vector with >= 2 non-zero entries / data not identically zero / finite OPD; distinct by input tuple')
PARTIAL = [
    'radial orthogonality is proved exactly on the coefficient lists with int_0^1 r^e r dr = 1/(e+2) applied termwise '
    '(Q arithmetic, exhaustive over the 3 x 120 indices); the termwise step is not connected to a Riemann integral in Coq '
    '(the azimuthal integrals are: azimuthal_orthogonal, all integer m, m\')',
    'std_noll_orthonormal combines norm^2, the radial inner product and the azimuthal factor [m=m\'](1+[m=0]) as exact '
    'rationals; the product structure of the disk integral (Fubini) is not formalised',
    'fit theorems are over exact reals with least_squares as a hypothesis; binary64 / solver tolerance (1e-8) is covered '
    'only by the numerical checks (recovery within 1e-6 relative)',
    'zernike_opd_residual: the fitted series is the least-squares best approximation of the sampled OPD (residual minimal and '
    'orthogonal to the fitted terms); that ZernikeOPD passes exactly Wavefront.data / distribution is checked on generated lenses, not proved',
]

SOLVER_FTOL = 1e-8      # scipy.optimize.least_squares default ftol = xtol = gtol
SOLVER_K = 100          # safety factor on the solver's stopping tolerance (see opd_case)
FAMS = [('standard', 'ZernikeStandard', 'std'), ('noll', 'ZernikeNoll', 'noll'), ('fringe', 'ZernikeFringe', 'fringe')]
IMPORTS = 'From OV Require Import Spec.S_C10 Model.M_C10 Gen.Zernike.'


def _zk():
    import optiland.zernike as zk
    return zk


def _real_indices():
    zk = _zk()
    out = {}
    for fam, cls, short in FAMS:
        inst = getattr(zk, cls)()
        gen = [tuple(int(v) for v in p) for p in inst._generate_indices()]
        out[short] = {'generated': gen, 'attribute': [tuple(int(v) for v in p) for p in inst.indices]}
    return out


# --------------------------------------------------------------------------------------------
# independent Python statement of the published rules (used by search / violates_property)
# --------------------------------------------------------------------------------------------
def pub_valid(n, m):
    return abs(m) <= n and (n - m) % 2 == 0


def pub_number(short, n, m):
    if short == 'std':
        return (n * (n + 2) + m) // 2          # 0-based
    if short == 'noll':
        b = n * (n + 1) // 2 + abs(m)
        if m == 0:
            return b + 1
        if m > 0:
            return b if b % 2 == 0 else b + 1
        return b if b % 2 == 1 else b + 1
    k = (n + abs(m)) // 2
    return (1 + k) ** 2 - 2 * abs(m) + (1 if m < 0 else 0)


def pub_list(short, count=120):
    """the first `count` pairs of the family in published order (searching n up to 40)"""
    pairs = [(n, m) for n in range(41) for m in range(-n, n + 1) if pub_valid(n, m)]
    pairs.sort(key=lambda p: pub_number(short, *p))
    return pairs[:count]


def oracle_indices():
    """first violation of the index clause on the real lists, or None"""
    real = _real_indices()
    for fam, cls, short in FAMS:
        exp = pub_list(short)
        for which in ('generated', 'attribute'):
            got = real[short][which]
            if got != exp:
                pos = next((i for i, (a, b) in enumerate(zip(got, exp)) if a != b), min(len(got), len(exp)))
                return {'kind': 'index-rule', 'family': fam, 'call': f'{cls}().{"_generate_indices()" if which == "generated" else "indices"}',
                        'position': pos, 'got': list(got[pos]) if pos < len(got) else None,
                        'expected': list(exp[pos]) if pos < len(exp) else None, 'length': len(got)}
    return None


def _quad_nodes(deg_r=48, nphi=96):
    xr, wr = np.polynomial.legendre.leggauss(deg_r)
    r = 0.5 * (xr + 1)
    wr = 0.5 * wr
    phi = np.arange(nphi) * 2 * np.pi / nphi
    R, P = np.meshgrid(r, phi, indexing='ij')
    W = np.outer(wr * r, np.full(nphi, 2 * np.pi / nphi))
    return R, P, W


def oracle_edge():
    zk = _zk()
    for fam, cls, short in FAMS:
        inst = getattr(zk, cls)()
        for (n, m) in inst.indices:
            v = float(inst._radial_term(int(n), int(m), 1.0))
            if not abs(v - 1.0) <= 1e-7:
                return {'kind': 'edge-value', 'family': fam, 'call': f'{cls}()._radial_term({n}, {m}, 1.0)', 'n': int(n),
                        'm': int(m), 'value': v, 'expected': 1.0}
    return None


def oracle_orthonormal():
    """Gram matrix of the Standard and Noll terms over the unit disk (exact quadrature for these polynomials)"""
    zk = _zk()
    R, P, W = _quad_nodes()
    for fam, cls, short in FAMS[:2]:
        inst = getattr(zk, cls)()
        vals = [np.asarray(inst.get_term(1.0, int(n), int(m), R, P), dtype=float) for (n, m) in inst.indices]
        B = np.array([v.ravel() for v in vals])
        G = (B * W.ravel()) @ B.T / np.pi
        E = np.abs(G - np.eye(len(vals)))
        i, j = np.unravel_index(np.argmax(E), E.shape)
        if not E[i, j] <= 1e-6:
            return {'kind': 'orthonormality', 'family': fam, 'call': f'{cls}().get_term(1, n, m, r, phi)',
                    'term_i': [int(v) for v in inst.indices[i]], 'term_j': [int(v) for v in inst.indices[j]],
                    'inner_product_over_pi': float(G[i, j]), 'expected': 1.0 if i == j else 0.0}
    return None


def _disk_points(rng, M):
    rr = np.sqrt(np.array([rng.random() for _ in range(M)]))
    th = np.array([rng.uniform(-math.pi, math.pi) for _ in range(M)])
    return rr * np.cos(th), rr * np.sin(th)


def oracle_linear(rng, trials=30):
    zk = _zk()
    for t in range(trials):
        fam, cls, short = FAMS[t % 3]
        C = getattr(zk, cls)
        N = rng.randint(1, 37)
        c1 = [rng.uniform(-1, 1) for _ in range(N)]
        c2 = [rng.uniform(-1, 1) for _ in range(N)]
        a, b = rng.uniform(-2, 2), rng.uniform(-2, 2)
        if t % 3 == 0:                      # homogeneity: all coefficient vectors, also tiny multiples
            a, b = rng.choice([1e-9, 1e-10, 1e-12]) * rng.choice([-1, 1]), 0.0
        r, phi = rng.random(), rng.uniform(-math.pi, math.pi)
        lhs = float(C([a * x + b * y for x, y in zip(c1, c2)]).poly(r, phi))
        rhs = a * float(C(c1).poly(r, phi)) + b * float(C(c2).poly(r, phi))
        # |Z_k| <= sqrt(2n+2) <= 6.33: rounding error of either side is below 1e-9 of this magnitude
        mag = 6.4 * (abs(a) * sum(abs(v) for v in c1) + abs(b) * sum(abs(v) for v in c2))
        if not abs(lhs - rhs) <= 1e-9 * mag:
            return {'kind': 'poly-not-linear', 'family': fam, 'call': f'{cls}(coeffs).poly(r, phi)', 'N': N, 'a': a, 'b': b,
                    'c1': c1, 'c2': c2, 'r': r, 'phi': phi, 'poly_of_combination': lhs, 'combination_of_poly': rhs}
    return None


def _design(C, N, x, y):
    inst = C([0.0] * N)
    rad = np.sqrt(x ** 2 + y ** 2)
    phi = np.arctan2(y, x)
    return np.array([np.asarray(inst.get_term(1.0, int(n), int(m), rad, phi), dtype=float) * np.ones_like(rad)
                     for (n, m) in inst.indices[:N]]).T


def _safe_fit(x, y, z, fam, N):
    """coefficients of the real ZernikeFit (an exception or a wrong length is reported as an empty vector)"""
    zk = _zk()
    try:
        fit = zk.ZernikeFit(x, y, z, fam, N)
        c = np.asarray(fit.coeffs, dtype=float).ravel()
        return (c if len(c) == N else np.zeros(0)), fit, None
    except Exception as e:
        return np.zeros(0), None, f'{type(e).__name__}: {str(e)[:120]}'


def pub_basis(short, N, x, y):
    """M x N design matrix of the first N terms of a family from the PUBLISHED definitions (own index list, own radial
    polynomial, own normalisation) - independent of optiland; used to choose sample points and to report the
    condition number that keeps the recovery tolerance honest (column signs do not matter for either)."""
    r = np.sqrt(x * x + y * y)
    t = np.arctan2(y, x)
    cols = []
    for (n, m) in pub_list(short, N):
        a = abs(m)
        R = np.zeros_like(r)
        for k in range((n - a) // 2 + 1):
            R = R + ((-1) ** k * math.factorial(n - k) /
                     (math.factorial(k) * math.factorial((n + a) // 2 - k) * math.factorial((n - a) // 2 - k))) * r ** (n - 2 * k)
        nrm = 1.0 if short == 'fringe' else math.sqrt((2 * n + 2) / (2 if m == 0 else 1))
        cols.append(nrm * R * (np.cos(a * t) if m >= 0 else np.sin(a * t)))
    return np.array(cols).T


RATIO_CLASSES = ('M=N', 'M=N+1', 'M=2N', 'M>=2N+10')


def ratio_points(rng, ratio, N):
    return {'M=N': N, 'M=N+1': N + 1, 'M=2N': 2 * N}.get(ratio) or (2 * N + 10 + rng.randint(0, 30))


def spread_points(rng, short, N, M):
    """M >= N distinct points of the unit disk that are well spread FOR the first N terms: N of them are picked from a
    random pool by column-pivoted QR of the (independent) design matrix, which keeps even the square case M == N well
    conditioned; the other M - N are further pool points.  Returns x, y, cond(design)."""
    from scipy.linalg import qr
    pool = max(8 * N, 40, M)
    x, y = _disk_points(rng, pool)
    _, _, piv = qr(pub_basis(short, N, x, y).T, pivoting=True)
    idx = [int(i) for i in piv[:N]]
    rest = [i for i in range(pool) if i not in idx]
    rng.shuffle(rest)
    idx += rest[:M - N]
    xs, ys = x[idx], y[idx]
    return xs, ys, float(np.linalg.cond(pub_basis(short, N, xs, ys)))


def fit_case(rng, fam, cls, N, scale=1.0, M=None, ratio=None):
    """one exact-data fitting case on the real implementation; `ratio` picks the points/terms class (the recovery clause
    is quantified over every number of points >= N, boundary included)"""
    zk = _zk()
    C = getattr(zk, cls)
    short = {f: sh for f, _, sh in FAMS}[fam]
    if ratio is not None:
        M = ratio_points(rng, ratio, N)
        x, y, cond_pub = spread_points(rng, short, N, M)
        c0 = np.array([rng.uniform(0.3, 1) * rng.choice([-1, 1]) for _ in range(N)]) * scale
        z = np.asarray(C(list(c0)).poly(np.sqrt(x ** 2 + y ** 2), np.arctan2(y, x)), dtype=float) * np.ones(M)
        chat, fit, raised = _safe_fit(x, y, z, fam, N)
        return {'family': fam, 'N': N, 'M': M, 'ratio': ratio, 'x': x, 'y': y, 'z': z, 'c0': c0, 'chat': chat, 'raised': raised,
                'fit': fit, 'cond': cond_pub}
    M = M or (2 * N + 10 + rng.randint(0, 30))
    x, y = _disk_points(rng, M)
    c0 = np.array([rng.uniform(-1, 1) for _ in range(N)]) * scale
    z = np.asarray(C(list(c0)).poly(np.sqrt(x ** 2 + y ** 2), np.arctan2(y, x)), dtype=float)
    chat, fit, raised = _safe_fit(x, y, z, fam, N)
    return {'family': fam, 'N': N, 'M': M, 'x': x, 'y': y, 'z': z, 'c0': c0, 'chat': chat, 'raised': raised,
            'fit': fit, 'cond': float(np.linalg.cond(_design(C, N, x, y)))}


def _fit_witness(c, err):
    """witness of a failed recovery; `recovered_all_zero` + `data_max_abs` identify the known small-data class"""
    return {'kind': 'fit-does-not-recover', 'family': c['family'], 'call_site': 'ZernikeFit._fit',
            'call': f'ZernikeFit(x, y, z, "{c["family"]}", {c["N"]}).coeffs', 'N': c['N'], 'M': c['M'],
            'points_terms_class': c.get('ratio') or ('M=N' if c['M'] == c['N'] else 'M>N'),
            'x': c['x'].tolist(), 'y': c['y'].tolist(), 'c0': c['c0'].tolist(), 'recovered': c['chat'].tolist(),
            'recovered_all_zero': bool(len(c['chat']) == c['N'] and not np.any(c['chat'])),
            'data_max_abs': float(np.max(np.abs(c['z']))) if c['z'].size else 0.0,
            'relative_error': err, 'design_condition_number': c['cond'], 'raised': c.get('raised')}


def _fit_err(c):
    sc = max(1e-300, float(np.max(np.abs(c['c0']))))
    return float(np.max(np.abs(c['chat'] - c['c0'])) / sc) if len(c['chat']) == c['N'] else float('inf')


def oracle_fit(rng, trials=12, tol=1e-6):
    """exact-data recovery over the families x points/terms classes; a failure outside the small-data class is preferred"""
    small = None
    for t in range(trials):
        fam, cls, short = FAMS[t % 3]
        N = rng.choice([1, 2, 3, 5, 8, 12, 22, 36, 37])
        c = fit_case(rng, fam, cls, N, scale=rng.choice([1.0, 30.0, 1e-2, 1e-11]), ratio=RATIO_CLASSES[(t // 3) % 4])
        if c['cond'] > 1e3:
            continue
        err = _fit_err(c)
        if not err <= tol:
            w = _fit_witness(c, err)
            if not (w['recovered_all_zero'] and w['data_max_abs'] < 1e-8):
                return w
            small = small or w
    return small


def oracle_fit_linear(rng, trials=6, tol=1e-6):
    zk = _zk()
    for t in range(trials):
        fam, cls, short = FAMS[t % 3]
        N = rng.choice([1, 3, 6, 11, 22, 37])
        M = 2 * N + 20
        x, y = _disk_points(rng, M)
        z1 = np.array([rng.uniform(-1, 1) for _ in range(M)])
        z2 = np.array([rng.uniform(-1, 1) for _ in range(M)])
        a, b = rng.uniform(-2, 2), rng.uniform(-2, 2)
        if np.linalg.cond(_design(getattr(zk, cls), N, x, y)) > 1e6:
            continue
        f1, f2, f3 = (_safe_fit(x, y, zz, fam, N)[0] for zz in (z1, z2, a * z1 + b * z2))
        if len(f1) == len(f2) == len(f3) == N:
            err = float(np.max(np.abs(f3 - (a * f1 + b * f2))) / (1 + float(np.max(np.abs(f3)))))
        else:
            err = float('inf')
        if not err <= tol:
            return {'kind': 'fit-not-linear-in-data', 'family': fam, 'call': f'ZernikeFit(x, y, a*z1+b*z2, "{fam}", {N}).coeffs',
                    'N': N, 'a': a, 'b': b, 'x': x.tolist(), 'y': y.tolist(), 'z1': z1.tolist(), 'z2': z2.tolist(),
                    'relative_error': err}
    return None


def oracle_terms(rng):
    """basis clauses for EVERY supported term k = 0..119 of every family, through the public evaluation path
    (`poly`): poly(c + e_k) - poly(c) must be the k-th published polynomial Z_k (independent `pub_basis`, up to the
    family's sign convention for sine terms) at sample points that include the pupil edge r = 1 and the centre; this
    covers "all 120 terms are supported", the edge value |Z_k(1, phi)| = N_k |az(phi)| and the linearity of poly in
    each coefficient.  Returns the first failing term or None."""
    zk = _zk()
    npt = 14
    rr = np.array([1.0, 1.0, 1.0, 0.0] + [math.sqrt(rng.random()) for _ in range(npt - 4)])
    th = np.array([0.3, 2.1, -1.2, 0.0] + [rng.uniform(-math.pi, math.pi) for _ in range(npt - 4)])
    x, y = rr * np.cos(th), rr * np.sin(th)
    rad, phi = np.sqrt(x * x + y * y), np.arctan2(y, x)
    for fam, cls, short in FAMS:
        C = getattr(zk, cls)
        Z = pub_basis(short, 120, x, y)                     # npt x 120, independent of optiland
        c = [rng.uniform(-1, 1) for _ in range(120)]
        base = np.asarray(C(list(c)).poly(rad, phi), dtype=float) * np.ones(npt)
        for k in range(120):
            ck = list(c)
            ck[k] += 1.0
            d = np.asarray(C(ck).poly(rad, phi), dtype=float) * np.ones(npt) - base
            err = min(float(np.max(np.abs(d - Z[:, k]))), float(np.max(np.abs(d + Z[:, k]))))
            if not err <= 1e-7 * (1 + float(np.max(np.abs(Z[:, k])))):
                n, m = pub_list(short)[k]
                return {'kind': 'term-not-evaluated', 'family': fam, 'term_index': k, 'n': int(n), 'm': int(m),
                        'call': f'{cls}(c + e_{k}).poly(r, phi) - {cls}(c).poly(r, phi)  (len(c) = 120)',
                        'r': rad.tolist(), 'phi': phi.tolist(), 'difference': d.tolist(), 'expected_Z_k': Z[:, k].tolist(),
                        'max_abs_error': err, 'len_terms': len(C(ck).terms(0.5, 0.1))}
    return None


def oracle_mean_square():
    """mean of Z_k^2 over the unit disk for every term of every family (exact quadrature): 1 for Standard / Noll,
    (1 + [m = 0]) / (2n + 2) for Fringe (unit edge value)"""
    zk = _zk()
    R, P, W = _quad_nodes()
    for fam, cls, short in FAMS:
        inst = getattr(zk, cls)()
        for k, (n, m) in enumerate(inst.indices):
            v = np.asarray(inst.get_term(1.0, int(n), int(m), R, P), dtype=float)
            ms = float(np.sum(v * v * W) / np.pi)
            exp = 1.0 if short != 'fringe' else (2.0 if m == 0 else 1.0) / (2 * n + 2)
            if not abs(ms - exp) <= 1e-7:
                return {'kind': 'mean-square', 'family': fam, 'term_index': k, 'n': int(n), 'm': int(m),
                        'call': f'{cls}().get_term(1, {n}, {m}, r, phi)', 'mean_square_over_disk': ms, 'expected': exp}
    return None


# fixed corpus (not drawn from the seeded stream, so later generator changes cannot lose these cases)
_CORPUS_VECTORS = [
    ('int-list', lambda n: [0] * 3 + [1] + [0] * (n - 4)),
    ('int-list-mixed-sign', lambda n: ([2, 0, -1, 0, 3] + [0] * n)[:n]),
    ('float-list', lambda n: [0.5 * ((-1) ** k) / (1 + k % 5) for k in range(n)]),
    ('mixed-int-float-list', lambda n: [(k % 3) if k % 2 else 0.25 * k for k in range(n)]),
    ('int-tuple', lambda n: tuple(([1, -2, 0, 3] * n)[:n])),
    ('float-tuple', lambda n: tuple(0.125 * (k - 3) for k in range(n))),
    ('int-array', lambda n: np.array(([0, 2, -1, 1] * n)[:n], dtype=np.int64)),
    ('int32-array', lambda n: np.array(([1, 0, 0, -3] * n)[:n], dtype=np.int32)),
    ('float-array', lambda n: np.linspace(-1.0, 1.0, n)),
    ('float32-array', lambda n: np.linspace(-0.5, 0.75, n).astype(np.float32)),
    ('bool-list', lambda n: [bool(k % 2) for k in range(n)]),
]
_CORPUS_EDITS = [(1, -0.5), (8, 0.25), (-1, 0.125), (3, 1.75), (0, -0.0625)]


def _eval_points():
    r = np.array([1.0, 0.0, 0.31, 0.77, 0.5, 0.93, 0.12])
    phi = np.array([0.3, 0.0, -2.2, 1.9, 3.0, -0.7, 0.45])
    return r, phi


def _signed_basis(C, short, N, r, phi):
    """independent basis (pub_basis) with the family's sign convention per term taken from a float-list unit-vector
    probe; a term that is neither +Z_k nor -Z_k is reported by oracle_terms, here the closer sign is used"""
    Z = pub_basis(short, N, r * np.cos(phi), r * np.sin(phi))
    for k in range(N):
        e = [0.0] * N
        e[k] = 1.0
        t = np.asarray(C(e).poly(r, phi), dtype=float) * np.ones(len(r))
        if np.max(np.abs(t + Z[:, k])) < np.max(np.abs(t - Z[:, k])):
            Z[:, k] = -Z[:, k]
    return Z


def oracle_containers_histories():
    """"evaluating a coefficient vector": poly must be sum_k c_k Z_k for the coefficients the user ENTERED, whatever the
    numeric container (int / float / bool lists, tuples, int and float arrays, the default 36 zeros) and whatever the
    history on the object: construct -> evaluate; construct -> item-assign -> evaluate (-> item-assign -> evaluate);
    construct -> replace the vector -> evaluate; additivity entered term by term; scalar / int / array / 2-D arguments.
    Expected values come from the entered numbers and the independent basis.  Returns (first failing history, histogram)."""
    if _CH_CACHE:
        return _CH_CACHE[0]
    zk = _zk()
    r, phi = _eval_points()
    hist = {'containers': {}, 'histories': {}, 'argument_kinds': {}}
    first = None

    def bump(d, k):
        hist[d][k] = hist[d].get(k, 0) + 1

    def fail(fam, cls, cont, history, entered, got, exp, extra=None):
        nonlocal first
        if first is None:
            first = {'kind': 'entered-coefficients-not-evaluated', 'family': fam, 'container': cont, 'history': history,
                     'call': f'{cls}(<{cont}>) ; {history}', 'entered_coefficients': [float(v) for v in entered],
                     'r': r.tolist(), 'phi': phi.tolist(), 'poly': np.ravel(got).tolist(), 'expected': np.ravel(exp).tolist(),
                     'max_abs_error': float(np.max(np.abs(np.ravel(got) - np.ravel(exp))))}
            first.update(extra or {})

    def close(got, exp, mag):
        got = np.asarray(got, dtype=float)
        return got.shape == np.shape(exp) and bool(np.all(np.abs(got - exp) <= 1e-9 * (1 + mag)))

    for fam, cls, short in FAMS:
        C = getattr(zk, cls)
        for N in (9, 22, 37):
            Z = _signed_basis(C, short, N, r, phi)
            for cont, make in _CORPUS_VECTORS:
                c0 = make(N)
                entered = np.array([float(v) for v in c0])
                mag = float(np.sum(np.abs(entered))) * 6.4
                obj = C(make(N))
                bump('containers', cont)
                # H1 construct -> evaluate
                bump('histories', 'construct,evaluate')
                got = obj.poly(r, phi)
                if not close(got, Z @ entered, mag):
                    fail(fam, cls, cont, 'poly(r, phi)', entered, got, Z @ entered)
                # H2 construct -> item-assign non-integers -> evaluate (-> again); only where the USER's container allows it
                if isinstance(c0, list):
                    ent = entered.copy()
                    for step, (k, v) in enumerate(_CORPUS_EDITS):
                        obj.coeffs[k] = v
                        ent[k] = v
                        if step in (2, 4):
                            bump('histories', 'construct,item-assign x%d,evaluate' % (step + 1))
                            got = obj.poly(r, phi)
                            if not close(got, Z @ ent, mag + 20):
                                fail(fam, cls, cont, f'coeffs[k] = v for (k, v) in {_CORPUS_EDITS[:step + 1]} ; poly(r, phi)', ent, got, Z @ ent,
                                     {'coefficients_held_by_object': [float(x) for x in np.ravel(np.asarray(obj.coeffs, dtype=float))]})
                    # additivity, the sum entered term by term into an object created from whole numbers
                    cb = np.array([0.37 * math.sin(1.0 + 2.3 * k) for k in range(N)])
                    zs = C(make(N))
                    for k in range(N):
                        zs.coeffs[k] = float(entered[k] + cb[k])
                    bump('histories', 'construct,item-assign all,evaluate (additivity)')
                    got = zs.poly(r, phi)
                    exp = np.asarray(C(make(N)).poly(r, phi), dtype=float) + np.asarray(C(list(cb)).poly(r, phi), dtype=float)
                    if not close(got, exp, mag + 20) or not close(got, Z @ (entered + cb), mag + 20):
                        fail(fam, cls, cont, 'coeffs[k] = a_k + b_k for all k ; poly(r, phi) vs poly(a) + poly(b)', entered + cb, got, Z @ (entered + cb))
                # H3 construct -> replace the whole vector (every container kind) -> evaluate
                for cont2, make2 in (_CORPUS_VECTORS[2], _CORPUS_VECTORS[0], _CORPUS_VECTORS[6], _CORPUS_VECTORS[5]):
                    new = make2(N)
                    obj.coeffs = new
                    e2 = np.array([float(v) for v in new])
                    bump('histories', 'construct,replace vector,evaluate')
                    got = obj.poly(r, phi)
                    if not close(got, Z @ e2, 6.4 * float(np.sum(np.abs(e2)))):
                        fail(fam, cls, cont, f'coeffs = <{cont2}> ; poly(r, phi)', e2, got, Z @ e2)
            # argument kinds: python float / int scalars, int array, 2-D array
            cf = [0.5 * ((-1) ** k) / (1 + k % 5) for k in range(N)]
            ent = np.array(cf)
            for kind, rr, pp in (('float scalars', 0.5, 0.25), ('int scalars', 1, 0), ('int scalar r=0', 0, 0),
                                 ('int arrays', np.array([0, 1, 1]), np.array([0, 0, 2])),
                                 ('2-D arrays', np.array([[0.2, 0.9], [1.0, 0.6]]), np.array([[0.1, -2.0], [2.5, 1.0]]))):
                bump('argument_kinds', kind)
                ra, pa = np.asarray(rr, dtype=float), np.asarray(pp, dtype=float)
                Zs = _signed_basis(C, short, N, np.ravel(ra), np.ravel(pa))
                exp = (Zs @ ent).reshape(ra.shape)
                got = np.asarray(C(list(cf)).poly(rr, pp), dtype=float)
                if not (got.shape == exp.shape and np.all(np.abs(got - exp) <= 1e-9 * (1 + 6.4 * np.sum(np.abs(ent))))):
                    fail(fam, cls, 'float-list', f'poly(r, phi) with {kind}: r = {np.ravel(ra).tolist()}, phi = {np.ravel(pa).tolist()}', ent, got, exp)
        # H4 the default coefficient vector (36 zeros): item-assign on one object, then a SECOND default object
        a = C()
        bump('containers', 'default')
        bump('histories', 'default,item-assign,evaluate')
        Z36 = _signed_basis(C, short, 36, r, phi)
        held = [float(v) for v in a.coeffs]
        ent = np.zeros(36)
        saved = {}
        for k, v in _CORPUS_EDITS[:3]:
            saved[k] = a.coeffs[k]
            a.coeffs[k] = v
            ent[k] = v
        got = a.poly(r, phi)
        ok_a = len(held) == 36 and not any(held) and close(got, Z36 @ ent, 10)
        b = C()
        bump('histories', 'default,item-assign ; second default object,evaluate')
        got_b = np.asarray(b.poly(r, phi), dtype=float) * np.ones(len(r))
        held_b = [float(v) for v in b.coeffs]
        for k, v in saved.items():          # undo, so that a shared default (if any) is not left modified in this process
            a.coeffs[k] = v
        if not ok_a:
            fail(fam, cls, 'default', f'{cls}() ; coeffs[k] = v for {_CORPUS_EDITS[:3]} ; poly(r, phi)', ent, got, Z36 @ ent)
        if any(held_b) or not close(got_b, np.zeros(len(r)), 0):
            w = {'kind': 'default-coefficients-shared', 'family': fam, 'container': 'default',
                 'history': f'a = {cls}() ; a.coeffs[k] = v for {_CORPUS_EDITS[:3]} ; b = {cls}() ; b.poly(r, phi)',
                 'call': f'{cls}().coeffs', 'call_site': 'ZernikeStandard.__init__ (default argument)',
                 'second_object_coefficients': held_b[:10], 'poly_of_second_default_object': got_b.tolist(), 'expected': 0.0}
            hist.setdefault('shared_default', []).append(w)
    _CH_CACHE.append((first, hist))
    return first, hist


_CH_CACHE = []      # the implementation does not change within one check process


def oracle_containers():
    return oracle_containers_histories()[0]


def oracle_shared_default():
    ws = oracle_containers_histories()[1].get('shared_default')
    return ws[0] if ws else None


# --------------------------------------------------------------------------------------------
# histories over SEVERAL fit objects alive in one process (fixed corpus)
# --------------------------------------------------------------------------------------------
_FH_CACHE = []
FIT_HISTORY_NS = (1, 6, 21, 37)


def _fh_vec(rng, N):
    return np.array([rng.uniform(0.3, 1) * rng.choice([-1, 1]) for _ in range(N)])


def oracle_fit_object_histories():
    """"fitting recovers those coefficients / is linear in the data / reproduces the sampled OPD" are statements about every
    fit object, also when other fit objects exist: the property is quantified over all data sets, so the answer of fit(a)
    may not depend on whether fit(b) has been made since.  Fixed corpus of multi-object histories, all answers queried
    AFTER the last object of the history was created:
      H1 fit(a), fit(b), fit(a + 2b) of one family / N / point set -> recovery of a and b, linearity, reproduction of the samples
      H2 fit(a) ; query ; fit(b) of the same family with other N and other points ; query fit(a) again
      H3 the same x, y, z arrays handed to two fits (same family twice, another family) -> both answer, arrays untouched
      H4 fit(a), fit(b) ; the user edits one coefficient of fit(b) and edits it back ; fit(a) answers for a at every step
      H5 ZernikeOPD for two fields of one lens (and a ZernikeFit of the same family in between) -> the first still is the
         least-squares decomposition of ITS sampled OPD
    Expected values are the coefficient vectors the data were generated from (independent basis `pub_basis`, signs per
    family) or an independent numpy lstsq of the captured samples.  Returns (first failing history, histogram)."""
    if _FH_CACHE:
        return _FH_CACHE[0]
    zk = _zk()
    rng = random.Random(601010)
    hist = {'histories': {}, 'per_family': {}, 'N_values': list(FIT_HISTORY_NS), 'max_cond': 0.0, 'objects_alive_max': 0,
            'opd_pairs': 0, 'opd_pairs_with_distinct_data': 0}
    first = []
    tol = 1e-6

    def bump(k, fam):
        hist['histories'][k] = hist['histories'].get(k, 0) + 1
        hist['per_family'][fam] = hist['per_family'].get(fam, 0) + 1

    def fail(fam, N, history, step, what, got, exp, err, extra=None):
        if not first:
            w = {'kind': 'fit-object-history', 'family': fam, 'N': N, 'history': history, 'queried': step, 'clause': what,
                 'call': f'ZernikeFit(x, y, z, "{fam}", {N}) ; {history}', 'observed': [float(v) for v in np.ravel(got)][:40],
                 'expected': [float(v) for v in np.ravel(exp)][:40], 'relative_error': float(err), 'tolerance': tol}
            w.update(extra or {})
            first.append(w)

    def coeffs_of(fit, N):
        c = np.asarray(fit.coeffs, dtype=float).ravel()
        return c if len(c) == N else np.full(N, np.nan)

    def relerr(got, exp):
        got, exp = np.ravel(np.asarray(got, dtype=float)), np.ravel(np.asarray(exp, dtype=float))
        if got.shape != exp.shape or not np.all(np.isfinite(got)):
            return float('inf')
        return float(np.max(np.abs(got - exp)) / max(1e-300, float(np.max(np.abs(exp)))))

    def expect(fam, N, history, step, what, got, exp, extra=None):
        e = relerr(got, exp)
        if not e <= tol:
            fail(fam, N, history, step, what, got, exp, e, extra)

    def dataset(C, short, N, M):
        for _ in range(6):
            x, y, cond = spread_points(rng, short, N, M)
            if cond <= 1e3:
                break
        rad, phi = np.sqrt(x * x + y * y), np.arctan2(y, x)
        return x, y, rad, phi, _signed_basis(C, short, N, rad, phi), cond

    for fi, (fam, cls, short) in enumerate(FAMS):
        C = getattr(zk, cls)
        for N in FIT_HISTORY_NS:
            x, y, rad, phi, Z, cond = dataset(C, short, N, 2 * N + 12)
            if cond > 1e3:
                continue
            hist['max_cond'] = max(hist['max_cond'], cond)
            ca, cb = _fh_vec(rng, N), _fh_vec(rng, N)
            za, zb = Z @ ca, Z @ cb
            pts = {'x': x.tolist(), 'y': y.tolist(), 'coefficients_a': ca.tolist(), 'coefficients_b': cb.tolist(),
                   'design_condition_number': cond}
            # H1 -------------------------------------------------------------------------------------------------
            h = 'fa = fit(a) ; fb = fit(b) ; fab = fit(a + 2 b)  (same family, N, points) ; then query'
            bump('H1 three fits of one family alive, queried afterwards', fam)
            fa = zk.ZernikeFit(x, y, za, fam, N)
            fb = zk.ZernikeFit(x, y, zb, fam, N)
            fab = zk.ZernikeFit(x, y, za + 2 * zb, fam, N)
            ga, gb, gab = coeffs_of(fa, N), coeffs_of(fb, N), coeffs_of(fab, N)
            expect(fam, N, h, 'fa.coeffs', 'recovery', ga, ca, pts)
            expect(fam, N, h, 'fb.coeffs', 'recovery', gb, cb, pts)
            expect(fam, N, h, 'fab.coeffs', 'recovery', gab, ca + 2 * cb, pts)
            expect(fam, N, h, 'fab.coeffs vs fa.coeffs + 2 fb.coeffs', 'linearity in the data', gab, ga + 2 * gb, pts)
            expect(fam, N, h, 'fa.zernike.poly(fa.radius, fa.phi)', 'reproduces the samples',
                   np.asarray(fa.zernike.poly(fa.radius, fa.phi), dtype=float) * np.ones(len(za)), za, pts)
            expect(fam, N, h, 'fb.zernike.poly(fb.radius, fb.phi)', 'reproduces the samples',
                   np.asarray(fb.zernike.poly(fb.radius, fb.phi), dtype=float) * np.ones(len(zb)), zb, pts)
            hist['objects_alive_max'] = max(hist['objects_alive_max'], 3)
            # H4 (on the objects of H1) ----------------------------------------------------------------------------
            h = 'fa = fit(a) ; fb = fit(b) ; fb.coeffs[0] += 1 ; query fa ; fb.coeffs[0] -= 1 ; query fa, fb'
            bump('H4 edit one fit\'s coefficient and edit back, other fit queried', fam)
            try:
                fb.coeffs[0] += 1.0
                editable = True
            except TypeError:
                editable = False
            if editable:
                expect(fam, N, h, 'fa.coeffs (after the edit of fb)', 'recovery', coeffs_of(fa, N), ca, pts)
                fb.coeffs[0] -= 1.0
                expect(fam, N, h, 'fa.coeffs (after the edit back)', 'recovery', coeffs_of(fa, N), ca, pts)
                expect(fam, N, h, 'fb.coeffs (after the edit back)', 'recovery', coeffs_of(fb, N), cb, pts)
            # H2 -------------------------------------------------------------------------------------------------
            N2 = {1: 4, 6: 15, 21: 10, 37: 36}[N]
            x2, y2, rad2, phi2, Z2, cond2 = dataset(C, short, N2, 2 * N2 + 9)
            if cond2 <= 1e3:
                h = f'f1 = fit(a) ; query ; f2 = fit(c) with the same family, N = {N2}, other points ; query f1 again'
                bump('H2 query, later fit of other N / points, query again', fam)
                cc = _fh_vec(rng, N2)
                f1 = zk.ZernikeFit(x, y, za, fam, N)
                expect(fam, N, h, 'f1.coeffs (before f2 exists)', 'recovery', coeffs_of(f1, N), ca, pts)
                f2 = zk.ZernikeFit(x2, y2, Z2 @ cc, fam, N2)
                expect(fam, N, h, 'f1.coeffs (after f2 was created)', 'recovery', coeffs_of(f1, N), ca, pts)
                expect(fam, N, h, 'f1.zernike.poly(f1.radius, f1.phi) (after f2 was created)', 'reproduces the samples',
                       np.asarray(f1.zernike.poly(f1.radius, f1.phi), dtype=float) * np.ones(len(za)), za, pts)
                expect(fam, N2, h, 'f2.coeffs', 'recovery', coeffs_of(f2, N2), cc,
                       {'x': x2.tolist(), 'y': y2.tolist(), 'coefficients_c': cc.tolist(), 'design_condition_number': cond2})
                hist['objects_alive_max'] = max(hist['objects_alive_max'], 5)
            # H3 -------------------------------------------------------------------------------------------------
            fam_o, cls_o, short_o = FAMS[(fi + 1) % 3]
            Ao = _signed_basis(getattr(zk, cls_o), short_o, N, rad, phi)
            h = f'the same arrays x, y, z handed to g1 = fit("{fam}"), g2 = fit("{fam_o}"), g3 = fit("{fam}") ; then query'
            bump('H3 same arrays handed to several fits (same and other family)', fam)
            xs, ys, zs = x.copy(), y.copy(), za.copy()
            g1 = zk.ZernikeFit(xs, ys, zs, fam, N)
            g2 = zk.ZernikeFit(xs, ys, zs, fam_o, N)
            g3 = zk.ZernikeFit(xs, ys, zs, fam, N)
            expect(fam, N, h, 'g1.coeffs', 'recovery', coeffs_of(g1, N), ca, pts)
            expect(fam, N, h, 'g3.coeffs', 'recovery', coeffs_of(g3, N), ca, pts)
            if np.linalg.cond(Ao) <= 1e3:
                ref, *_ = np.linalg.lstsq(Ao, za, rcond=None)
                res = float(np.linalg.norm(Ao @ ref - za))
                smin = float(np.linalg.svd(Ao, compute_uv=False)[-1])
                sc = max(1e-300, float(np.max(np.abs(ref))))
                e = relerr(coeffs_of(g2, N), ref)
                # same bound as opd_case: |c_fit - c*| <= sqrt(K ftol) |r*| / sigma_min
                if not e <= tol + math.sqrt(SOLVER_K * SOLVER_FTOL) * res / (smin * sc):
                    fail(fam_o, N, h, 'g2.coeffs', 'least-squares decomposition of the data', coeffs_of(g2, N), ref, e, pts)
            if not (np.array_equal(xs, x) and np.array_equal(ys, y) and np.array_equal(zs, za)):
                fail(fam, N, h, 'x, y, z after the fits', 'input arrays untouched', zs, za, relerr(zs, za), pts)
    # H5 ZernikeOPD ------------------------------------------------------------------------------------------------
    _opd_object_histories(hist, fail, relerr, tol)
    _FH_CACHE.append((first[0] if first else None, hist))
    return _FH_CACHE[0]


def _opd_object_histories(hist, fail, relerr, tol, want=3):
    import lensgen
    from optiland.wavefront import ZernikeOPD
    zk = _zk()
    rng = random.Random(771010)
    s_tol = math.sqrt(SOLVER_K * SOLVER_FTOL)
    tries = 0
    while hist['opd_pairs_with_distinct_data'] < want and tries < 5 * want:
        fam, cls, short = FAMS[tries % 3]
        N = (11, 22, 4)[tries % 3]
        rings = (6, 8, 5)[tries % 3]
        tries += 1
        spec = lensgen.simple_spec(rng)
        wl = spec['wavelengths'][0][0]
        f1, f2 = (0.0, 1.0), (0.0, 0.0)
        try:        # a lens that cannot be built / traced is not a case (as in check_opd)
            lens = lensgen.build(spec)
            zo1 = ZernikeOPD(lens, f1, wl, num_rings=rings, zernike_type=fam, num_terms=N)
        except Exception:
            continue
        x1, y1 = np.array(zo1.distribution.x, dtype=float), np.array(zo1.distribution.y, dtype=float)
        z1 = np.array(zo1.data[0][0][0], dtype=float)
        if not (np.all(np.isfinite(z1)) and z1.size >= 2 * N):
            continue
        A = _design(getattr(zk, cls), N, x1, y1)
        if np.linalg.cond(A) > 1e6:
            continue
        ref1, *_ = np.linalg.lstsq(A, z1, rcond=None)
        try:
            mid = zk.ZernikeFit(x1, y1, 0.5 - 2.0 * z1 + x1, fam, N)     # another consumer of the same family in between
            zo2 = ZernikeOPD(lens, f2, wl, num_rings=rings, zernike_type=fam, num_terms=N)
        except Exception:
            continue
        z2 = np.array(zo2.data[0][0][0], dtype=float)
        hist['opd_pairs'] += 1
        if not (np.all(np.isfinite(z2)) and z2.shape == z1.shape):
            continue
        ref2, *_ = np.linalg.lstsq(A, z2, rcond=None)
        sc = max(1e-300, float(np.max(np.abs(ref1))))
        if not float(np.max(np.abs(ref1 - ref2))) / sc > 1e-3:
            continue                                    # both fields give the same wavefront: nothing to tell apart
        hist['opd_pairs_with_distinct_data'] += 1
        k = 'H5 ZernikeOPD for two fields of one lens (+ a ZernikeFit in between), first queried afterwards'
        hist['histories'][k] = hist['histories'].get(k, 0) + 1
        hist['per_family'][fam] = hist['per_family'].get(fam, 0) + 1
        hist['objects_alive_max'] = max(hist['objects_alive_max'], 3)
        h = (f'zo1 = ZernikeOPD(lens, {f1}, {wl}, num_rings={rings}, zernike_type="{fam}", num_terms={N}) ; '
             f'ZernikeFit(x, y, 0.5 - 2 z + x, "{fam}", {N}) ; zo2 = ZernikeOPD(lens, {f2}, ...) ; query zo1')
        r_ref = float(np.linalg.norm(A @ ref1 - z1))
        smin = float(np.linalg.svd(A, compute_uv=False)[-1])
        zn = float(np.linalg.norm(z1)) or 1.0
        extra = {'spec': spec, 'field_1': list(f1), 'field_2': list(f2), 'wavelength': wl, 'num_rings': rings,
                 'call': h, 'coefficients_of_second_field': ref2.tolist()[:40]}
        got = np.asarray(zo1.coeffs, dtype=float).ravel()
        e = relerr(got, ref1) if len(got) == N else float('inf')
        if not e <= tol + s_tol * r_ref / (max(smin, 1e-300) * sc):
            fail(fam, N, h, 'zo1.coeffs (after zo2 was created)', 'decomposition of its own sampled OPD', got, ref1, e, extra)
        rep = np.asarray(zo1.zernike.poly(zo1.radius, zo1.phi), dtype=float) * np.ones(len(z1))
        r_fit = float(np.linalg.norm(rep - z1))
        if not r_fit / zn <= (r_ref / zn) * (1 + SOLVER_K * SOLVER_FTOL) + 1e-7:
            fail(fam, N, h, 'zo1.zernike.poly(zo1.radius, zo1.phi) (after zo2 was created)',
                 'reproduces the sampled OPD up to the truncation residual', [r_fit / zn], [r_ref / zn], r_fit / zn, extra)
        del mid


def oracle_fit_histories():
    return oracle_fit_object_histories()[0]


def guarded(name, f):
    """run an oracle; an exception raised INSIDE the implementation on a supported input is itself a failing input
    (reported with the call that raised); an exception of the harness propagates (and alarms as a harness failure)"""
    import traceback
    try:
        return f()
    except Exception as e:
        tb = traceback.extract_tb(e.__traceback__)
        inner = tb[-1]
        if os.path.abspath(inner.filename).startswith(os.path.abspath(vlib.REPO)):
            caller = next((fr for fr in reversed(tb) if not os.path.abspath(fr.filename).startswith(os.path.abspath(vlib.REPO))), inner)
            return {'kind': 'implementation-raised', 'oracle': name, 'error': f'{type(e).__name__}: {str(e)[:160]}',
                    'raised_at': f'{os.path.relpath(inner.filename, vlib.REPO)}:{inner.lineno} in {inner.name}',
                    'call': (caller.line or '').strip()[:200]}
        raise


def oracle_table(seed):
    rng = random.Random(seed)
    return (('indices', oracle_indices, 360), ('terms', lambda: oracle_terms(rng), 360), ('edge', oracle_edge, 360),
            ('containers-histories', oracle_containers, 0), ('shared-default', oracle_shared_default, 0),
            ('mean-square', oracle_mean_square, 360), ('orthonormal', oracle_orthonormal, 28800),
            ('poly-linear', lambda: oracle_linear(rng), 30), ('fit-recovers', lambda: oracle_fit(rng), 12),
            ('fit-linear', lambda: oracle_fit_linear(rng), 6), ('fit-object-histories', oracle_fit_histories, 0))


def all_witnesses(seed):
    """every oracle's first failing input (each oracle independently, implementation exceptions included)"""
    out = []
    for name, f, n in oracle_table(seed):
        w = guarded(name, f)
        if w:
            out.append(dict(w, violates_property=True, oracle=name))
    return out


def all_oracles(seed):
    rng = random.Random(seed)
    for f in (oracle_indices, oracle_edge, oracle_orthonormal, lambda: oracle_linear(rng),
              lambda: oracle_fit(rng), lambda: oracle_fit_linear(rng)):
        w = f()
        if w:
            return w
    return None


# --------------------------------------------------------------------------------------------
# kernels
# --------------------------------------------------------------------------------------------
def _all_pairs():
    real = _real_indices()
    seen = []
    for short in ('std', 'noll', 'fringe'):
        for p in real[short]['generated']:
            if p not in seen:
                seen.append(p)
    return seen


def kernel_cases(ctx):
    g = ctx.gen
    pairs = _all_pairs() or [(0, 0)]
    yield 'zk_norm_std', [[n, m] for (n, m) in pairs], {}
    yield 'zk_norm_noll', [[n, m] for (n, m) in pairs], {}
    yield 'zk_norm_fringe', [[]], {}
    k = ctx.n(2, 8)
    az, rad, term = [], [], []
    for (n, m) in pairs:
        for j in range(k):
            phi = g.uni(-math.pi, math.pi) if j else 0.0
            r = [1.0, 0.0][j] if j < 2 else g.uni(0, 1)
            az.append([m, phi])
            rad.append([n, m, r])
            term.append([g.uni(-3, 3), n, m, r, phi])
    yield 'zk_azimuthal', az, {'tol': 1e-12}
    yield 'zk_radial', rad, {'tol': 1e-8}
    yield 'zk_term_std', term, {'tol': 1e-8}
    yield 'zk_term_noll', term, {'tol': 1e-8}
    yield 'zk_term_fringe', term, {'tol': 1e-8}


# --------------------------------------------------------------------------------------------
# system-level checks (models / specs evaluated in Coq against the implementation)
# --------------------------------------------------------------------------------------------
def _plist(l):
    return '[' + '; '.join(f'({vlib.zlit(n)}, {vlib.zlit(m)})' for n, m in l) + ']'


CMP_DEFS = '''Definition peqb (p q : Z * Z) : bool := andb (Z.eqb (fst p) (fst q)) (Z.eqb (snd p) (snd q)).
Fixpoint cmpl (a b : list (Z * Z)) : list bool :=
  match a, b with [], [] => [] | x :: a', y :: b' => peqb x y :: cmpl a' b' | _, _ => [false] end.
'''


def check_indices(ctx):
    real = _real_indices()
    bodies, meta = [], []
    for fam, cls, short in FAMS:
        for which in ('generated', 'attribute'):
            act = real[short][which]
            # (a) hand model vs code, position by position
            bodies.append(CMP_DEFS + f'Eval vm_compute in (report (cmpl {short}_indices {_plist(act)})).\n')
            meta.append(('model', fam, cls, short, which, act))
        act = real[short]['generated']
        rng_ = 'rangeZ 0%Z 120%Z' if short == 'std' else 'rangeZ 1%Z 121%Z'
        jf = {'std': 'osa_j', 'noll': 'noll_j', 'fringe': 'fringe_j'}[short]
        # (b) the published rule (Spec/S_C10.v) evaluated on the code's own list
        bodies.append(f'Definition act : list (Z * Z) := {_plist(act)}.\n'
                      f'Eval vm_compute in (report (Nat.eqb (List.length act) 120 :: '
                      f'map (fun pj => andb (zvalidb (fst (fst pj)) (snd (fst pj))) (Z.eqb (pairf {jf} (fst pj)) (snd pj))) '
                      f'(combine act ({rng_})))).\n')
        meta.append(('spec', fam, cls, short, 'generated', act))
    res = vlib.run_cases('c10idx', IMPORTS, bodies)
    model_res = {'name': 'indices_model_vs_code', 'n': 0, 'nontrivial': 0, 'samples': [], 'disagreements': [], 'exhaustive': True,
                 'note': 'all positions of the three _generate_indices() outputs and of the .indices attributes'}
    spec_res = {'name': 'indices_published_rule_on_code', 'n': 0, 'nontrivial': 0, 'samples': [], 'disagreements': [],
                'exhaustive': True, 'note': 'Spec/S_C10 numbers of the code\'s lists are 0..119 / 1..120 in order, all pairs valid'}
    wrong = oracle_indices()
    for (kind, fam, cls, short, which, act), r in zip(meta, res):
        tgt = model_res if kind == 'model' else spec_res
        if r[0] == 'error':
            tgt['error'] = r[1]
            continue
        tgt['n'] += r[0]
        tgt['nontrivial'] += len(set(act)) if which == 'generated' else 0
        if not tgt['samples']:
            tgt['samples'].append({'family': fam, 'first_pairs': [list(p) for p in act[:6]]})
        if r[1]:
            pos = r[2][0] - (1 if kind == 'spec' else 0)
            d = {'family': fam, 'call': f'{cls}().{"_generate_indices()" if which == "generated" else "indices"}',
                 'position': pos, 'got': list(act[pos]) if 0 <= pos < len(act) else None, 'length': len(act),
                 'failing_positions': r[1]}
            if kind == 'spec':
                d.update({'kind': 'index-rule', 'violates_property': True,
                          'expected': list(pub_list(short)[pos]) if 0 <= pos < 120 else None})
            else:
                bad = wrong is not None and wrong['family'] == fam
                d.update({'kind': 'index-rule' if bad else 'index-model-mismatch', 'violates_property': bool(bad)})
                if bad:
                    d.update({k: wrong[k] for k in ('position', 'got', 'expected', 'call', 'length')})
            tgt['disagreements'].append(d)
    return [model_res, spec_res]


def check_poly(ctx):
    zk = _zk()
    g = ctx.gen
    ncase = ctx.n(24, 200)
    cases = []
    for fam, cls, short in FAMS:
        C = getattr(zk, cls)
        for i in range(ncase):
            N = g.r.choice([0, 1, 2, 3, 7, 15, 36, 37, 60, 120]) if i % 4 == 0 else g.r.randint(1, 37)
            c = [g.uni(-2, 2) if g.r.random() < 0.85 else 0.0 for _ in range(N)]
            r = [0.0, 1.0][i] if i < 2 else g.uni(0, 1)
            phi = g.uni(-math.pi, math.pi)
            try:
                if i % 2:
                    v = float(np.ravel(C(c).poly(np.array([r]), np.array([phi])))[0])
                else:
                    v = float(C(c).poly(r, phi))
            except Exception as e:          # the implementation must evaluate every such vector
                v = float('nan')
            cases.append((fam, cls, short, c, r, phi, v))
    lines = []
    for fam, cls, short, c, r, phi, v in cases:
        lines.append(f'close {vlib.fhex(1e-8)} (@zk_poly FOps (k_zk_term_{short} FOps) {vlib.flist(c)} {short}_indices '
                     f'{vlib.fhex(r)} {vlib.fhex(phi)}) {vlib.fhex(v)}')
    chunk = 12
    bodies = ['Eval vm_compute in (report [\n' + ';\n'.join(lines[s:s + chunk]) + '\n]).\n' for s in range(0, len(lines), chunk)]
    res = vlib.run_cases('c10poly', IMPORTS, bodies)
    out = {'name': 'poly_model_vs_code', 'n': 0, 'nontrivial': 0, 'samples': [], 'disagreements': []}
    out['nontrivial'] = len({(fam, tuple(c), r, phi) for fam, _, _, c, r, phi, _ in cases if sum(1 for x in c if x) >= 2})
    fam, cls, short, c, r, phi, v = cases[5]
    out['samples'].append({'family': fam, 'coeffs': c[:5], 'len': len(c), 'r': r, 'phi': phi, 'poly': v})
    bad = []
    for bi, rr in enumerate(res):
        if rr[0] == 'error':
            out['error'] = rr[1]
            return [out]
        out['n'] += rr[0]
        bad += [bi * chunk + i for i in rr[2]]
    if bad:
        w = oracle_edge() or oracle_orthonormal() or oracle_linear(random.Random(ctx.seed))
        for ci in bad[:3]:
            fam, cls, short, c, r, phi, v = cases[ci]
            d = {'kind': 'poly-model-mismatch', 'family': fam, 'call': f'{cls}(coeffs).poly(r, phi)', 'coeffs': c, 'r': r,
                 'phi': phi, 'python': v, 'violates_property': False}
            if w:
                d = dict(w, violates_property=True, found_after={'poly_mismatch': {'family': fam, 'r': r, 'phi': phi, 'N': len(c)}})
            out['disagreements'].append(d)
    return [out]


def check_fit(ctx):
    """ZernikeFit on the real implementation: _objective against the model (in Coq), recovery of exact data and
    linearity in the data (compared in Coq with tolerance 1e-6 on coefficients normalised by their largest magnitude)"""
    zk = _zk()
    g = ctx.gen
    rng = g.r
    out_obj = {'name': 'objective_model_vs_code', 'n': 0, 'nontrivial': 0, 'samples': [], 'disagreements': []}
    out_rec = {'name': 'fit_recovers_exact_data', 'n': 0, 'nontrivial': 0, 'samples': [], 'disagreements': []}
    out_lin = {'name': 'fit_linear_in_data', 'n': 0, 'nontrivial': 0, 'samples': [], 'disagreements': []}
    # every N from 1 up (all 37 values in both tiers: a fit costs ~10 ms), every points/terms class incl. the boundary M == N
    Ns = list(range(1, 38))
    rec_cases, obj_lines, obj_cases = [], [], []
    for fam, cls, short in FAMS:
        for N in Ns:
            for ratio in RATIO_CLASSES:
                c = fit_case(rng, fam, cls, N, scale=rng.choice([1.0, 1.0, 25.0, 1e-2]), ratio=ratio)
                rec_cases.append(c)
            if N in (5, 36):        # homogeneity: the same kind of data at a very small magnitude
                rec_cases.append(fit_case(rng, fam, cls, N, scale=rng.choice([1e-11, 1e-13]), ratio='M>=2N+10'))
            if len(obj_cases) < ctx.n(9, 60) and N <= 12:
                ct = [rng.uniform(-1, 1) for _ in range(N)]
                M0 = min(c['M'], 12)
                try:
                    fit = zk.ZernikeFit(c['x'][:M0], c['y'][:M0], c['z'][:M0], fam, N)
                    ov = [float(v) for v in np.ravel(fit._objective(np.array(ct)))]
                except Exception:
                    ov = [float('nan')] * M0
                pts = '[' + '; '.join(f'({vlib.fhex(a)}, {vlib.fhex(b)})' for a, b in zip(c['x'][:M0], c['y'][:M0])) + ']'
                obj_lines.append(f'close_list {vlib.fhex(1e-8)} (@zk_objective FOps (k_zk_term_{short} FOps) {vlib.flist(ct)} '
                                 f'{short}_indices (map (@zk_polar FOps) {pts}) {vlib.flist(c["z"][:M0])}) {vlib.flist(ov)}')
                obj_cases.append({'family': fam, 'N': N, 'M': M0, 'coeffs': ct, 'x': c['x'][:M0].tolist(), 'y': c['y'][:M0].tolist(),
                                  'z': c['z'][:M0].tolist(), 'objective': ov})
    # recovery, compared inside Coq
    rec_lines = []
    for c in rec_cases:
        sc = max(1e-300, float(np.max(np.abs(c['c0']))))
        ok_len = len(c['chat']) == c['N']
        if c['cond'] > 1e3:
            rec_lines.append('true')            # hypothesis (well-spread points) not met: trivial case
        elif len(c['chat']) != c['N']:
            rec_lines.append('false')
        else:
            rec_lines.append(f'close_list {vlib.fhex(1e-6)} {vlib.flist(c["chat"] / sc)} {vlib.flist(c["c0"] / sc)}')
    # linearity in the data
    lin_cases, lin_lines = [], []
    for t in range(ctx.n(6, 30)):
        fam, cls, short = FAMS[t % 3]
        N = rng.choice([1, 3, 6, 11, 22, 37])
        M = 2 * N + 20
        x, y = _disk_points(rng, M)
        z1 = np.array([rng.uniform(-1, 1) for _ in range(M)])
        z2 = np.array([rng.uniform(-1, 1) for _ in range(M)])
        a, b = rng.uniform(-2, 2), rng.uniform(-2, 2)
        if np.linalg.cond(_design(getattr(zk, cls), N, x, y)) > 1e6:
            continue
        f1, f2, f3 = (_safe_fit(x, y, zz, fam, N)[0] for zz in (z1, z2, a * z1 + b * z2))
        sc = 1 + (float(np.max(np.abs(f3))) if len(f3) else 0.0)
        lin_cases.append({'family': fam, 'N': N, 'a': a, 'b': b, 'x': x.tolist(), 'y': y.tolist(), 'z1': z1.tolist(), 'z2': z2.tolist()})
        lin_lines.append(f'close_list {vlib.fhex(1e-6)} {vlib.flist(f3 / sc)} {vlib.flist((a * f1 + b * f2) / sc)}'
                         if len(f3) == len(f1) == len(f2) == N else 'false')
    bodies = [('obj', obj_lines[s:s + 6], s) for s in range(0, len(obj_lines), 6)]
    bodies += [('rec', rec_lines, 0), ('lin', lin_lines, 0)]
    res = vlib.run_cases('c10fit', IMPORTS, ['Eval vm_compute in (report [\n' + ';\n'.join(ls) + '\n]).\n' for _, ls, _ in bodies if ls])
    bodies = [b for b in bodies if b[1]]
    for (kind, ls, start), r in zip(bodies, res):
        tgt = {'obj': out_obj, 'rec': out_rec, 'lin': out_lin}[kind]
        if r[0] == 'error':
            tgt['error'] = r[1]
            continue
        tgt['n'] += r[0]
        for i in r[2]:
            if kind == 'obj':
                tgt['disagreements'].append(dict(obj_cases[start + i], kind='objective-model-mismatch', violates_property=False))
            elif kind == 'rec':
                c = rec_cases[i]
                tgt['disagreements'].append(dict(_fit_witness(c, _fit_err(c)), violates_property=True))
            else:
                tgt['disagreements'].append(dict(lin_cases[i], kind='fit-not-linear-in-data', violates_property=True,
                                                 call='ZernikeFit(x, y, a*z1+b*z2, family, N).coeffs'))
    out_obj['nontrivial'] = len(obj_cases)
    out_rec['nontrivial'] = sum(1 for c in rec_cases if c['cond'] <= 1e3 and np.count_nonzero(c['c0']) >= 1)
    out_lin['nontrivial'] = len(lin_cases)
    if obj_cases:
        out_obj['samples'].append({k: (v[:3] if isinstance(v, list) else v) for k, v in obj_cases[0].items()})
    c = rec_cases[-1]
    out_rec['samples'].append({'family': c['family'], 'N': c['N'], 'M': c['M'], 'c0': c['c0'][:4].tolist(),
                               'recovered': c['chat'][:4].tolist(), 'cond': c['cond']})
    out_rec['histogram'] = {'N_values': sorted({c['N'] for c in rec_cases}), 'max_cond': max(c['cond'] for c in rec_cases),
                            'points_terms_classes': {r: {'cases': sum(1 for c in rec_cases if c.get('ratio') == r),
                                                         'well_conditioned': sum(1 for c in rec_cases if c.get('ratio') == r and c['cond'] <= 1e3),
                                                         'max_cond': max([c['cond'] for c in rec_cases if c.get('ratio') == r] or [0.0])}
                                                     for r in RATIO_CLASSES},
                            'per_family': {f: sum(1 for c in rec_cases if c['family'] == f) for f, _, _ in FAMS}}
    if lin_cases:
        out_lin['samples'].append({k: (v[:3] if isinstance(v, list) else v) for k, v in lin_cases[0].items()})
    return [out_obj, out_rec, out_lin]


def opd_case(spec, field, wavelength, fam, N, rings):
    """ZernikeOPD on a generated lens -> quantities of theorem zernike_fit_residual, or None when the OPD is not finite"""
    import lensgen
    from optiland.wavefront import ZernikeOPD
    zk = _zk()
    lens = lensgen.build(spec)
    zo = ZernikeOPD(lens, field, wavelength, num_rings=rings, zernike_type=fam, num_terms=N)
    x = np.asarray(zo.distribution.x, dtype=float)
    y = np.asarray(zo.distribution.y, dtype=float)
    z = np.asarray(zo.data[0][0][0], dtype=float)
    if not (np.all(np.isfinite(z)) and np.all(np.isfinite(x)) and z.size >= 2 * N):
        return None
    cls = {f: c for f, c, _ in FAMS}[fam]
    A = _design(getattr(zk, cls), N, x, y)
    chat = np.asarray(zo.coeffs, dtype=float)
    ref, *_ = np.linalg.lstsq(A, z, rcond=None)
    res_fit = np.asarray(zo.zernike.poly(zo.radius, zo.phi), dtype=float) - z
    res_ref = A @ ref - z
    zn = float(np.linalg.norm(z)) or 1.0
    colnorm = np.linalg.norm(A, axis=0)
    coef_scale = float(np.max(np.abs(ref))) or 1.0
    smin = float(np.linalg.svd(A, compute_uv=False)[-1])
    r_ref = float(np.linalg.norm(res_ref))
    # tolerances derived from the statement, not tuned: the fitted series must reproduce the samples "up to the truncation
    # residual" r* = min_c |A c - z| (numpy lstsq).  least_squares stops when the relative cost reduction drops below
    # ftol = 1e-8, so its cost may exceed the optimum by O(ftol): |r_fit|^2 <= |r*|^2 (1 + K ftol), K = 100 (measured
    # worst case over the seed sweep: 1e-8).  By Pythagoras |A (c_fit - c*)| <= sqrt(K ftol) |r*|, which bounds the
    # normal equations  |a_j . r_fit| / (|a_j| |z|) <= sqrt(K ftol) |r*| / |z|  and the coefficient difference
    # |c_fit - c*| <= sqrt(K ftol) |r*| / sigma_min(A).  1e-6 / 1e-7 are the floors for (near-)exact fits (xtol = 1e-8).
    s_tol = math.sqrt(SOLVER_K * SOLVER_FTOL)
    return {'family': fam, 'N': N, 'M': int(z.size), 'same_data': bool(np.array_equal(zo.z, z) and np.array_equal(zo.x, x) and np.array_equal(zo.y, y)),
            'len_ok': len(chat) == N, 'coef_scale': coef_scale, 'chat': chat, 'ref': ref,
            'res_fit': float(np.linalg.norm(res_fit)) / zn, 'res_ref': r_ref / zn,
            'tol_res_rel': SOLVER_K * SOLVER_FTOL, 'tol_res_abs': 1e-7,
            'tol_ne': 1e-6 + s_tol * r_ref / zn, 'tol_coef': 1e-6 + s_tol * r_ref / (max(smin, 1e-300) * coef_scale),
            'normal_eq': (A.T @ res_fit) / (colnorm * zn), 'cond': float(np.linalg.cond(A)), 'rms_opd': float(np.sqrt(np.mean(z ** 2)))}


def check_opd(ctx):
    import lensgen
    rng = random.Random(ctx.seed + 10)
    out = {'name': 'zernike_opd_residual', 'n': 0, 'nontrivial': 0, 'samples': [], 'disagreements': []}
    cases, lines = [], []
    tries = 0
    want = ctx.n(6, 40)
    while len(cases) < want and tries < 4 * want:
        tries += 1
        spec = lensgen.simple_spec(rng)
        fam = FAMS[tries % 3][0]
        N = rng.choice([4, 11, 22, 37])
        field = (0.0, rng.choice([0.0, 0.5, 1.0]))
        wl = spec['wavelengths'][0][0]
        rings = rng.choice([5, 6, 8])
        try:
            c = opd_case(spec, field, wl, fam, N, rings)
        except Exception as e:
            ctx.notes.append(f'opd case skipped ({type(e).__name__}: {str(e)[:80]})')
            continue
        if c is None or c['cond'] > 1e6:
            continue
        c.update({'spec': spec, 'field': list(field), 'wavelength': wl, 'num_rings': rings})
        cases.append(c)
        sc = c['coef_scale']
        lines.append(' && '.join([
            'true' if (c['same_data'] and c['len_ok']) else 'false',
            f'close_list {vlib.fhex(c["tol_coef"])} {vlib.flist(c["chat"] / sc)} {vlib.flist(c["ref"] / sc)}' if c['len_ok'] else 'false',
            # |r_fit| <= |r*| (1 + K ftol) + floor     (both relative to |z|)
            f'(PrimFloat.leb {vlib.fhex(c["res_fit"])} (PrimFloat.add (PrimFloat.mul {vlib.fhex(c["res_ref"])} '
            f'{vlib.fhex(1.0 + c["tol_res_rel"])}) {vlib.fhex(c["tol_res_abs"])}))',
            f'close_list {vlib.fhex(c["tol_ne"])} {vlib.flist(c["normal_eq"])} {vlib.flist([0.0] * len(c["normal_eq"]))}']))
    if not lines:
        out['error'] = 'no ZernikeOPD case could be generated'
        return [out]
    res = vlib.run_cases('c10opd', IMPORTS, ['Local Open Scope bool_scope.\nEval vm_compute in (report [\n' + ';\n'.join(lines) + '\n]).\n'])
    r = res[0]
    if r[0] == 'error':
        out['error'] = r[1]
        return [out]
    out['n'] = r[0]
    out['nontrivial'] = sum(1 for c in cases if c['rms_opd'] > 1e-9)
    c = cases[0]
    out['samples'].append({'family': c['family'], 'N': c['N'], 'M': c['M'], 'field': c['field'], 'rms_opd_waves': c['rms_opd'],
                           'relative_residual': c['res_fit'], 'surfaces': len(c['spec']['surfaces'])})
    for i in r[2]:
        c = cases[i]
        out['disagreements'].append({
            'kind': 'opd-fit-not-least-squares', 'violates_property': True, 'family': c['family'], 'N': c['N'],
            'call': f'ZernikeOPD(lens, {tuple(c["field"])}, {c["wavelength"]}, num_rings={c["num_rings"]}, zernike_type="{c["family"]}", num_terms={c["N"]})',
            'spec': c['spec'], 'field': c['field'], 'wavelength': c['wavelength'], 'num_rings': c['num_rings'],
            'same_data': c['same_data'], 'relative_residual_fit': c['res_fit'], 'relative_residual_lstsq': c['res_ref'],
            'max_normal_equation': float(np.max(np.abs(c['normal_eq']))),
            'max_coeff_difference': float(np.max(np.abs(c['chat'] - c['ref'])) / c['coef_scale']) if c['len_ok'] else None,
            'tolerances': {k: c[k] for k in ('tol_res_rel', 'tol_res_abs', 'tol_ne', 'tol_coef')}})
    return [out]


def check_oracles(ctx):
    """the property stated directly on the implementation (independent Python statement), run on every check so that a
    broken proof / correspondence always comes with a concrete failing input when one exists"""
    out = {'name': 'property_oracles_on_implementation', 'n': 0, 'nontrivial': 0, 'samples': [], 'disagreements': [],
           'note': 'index rules x3 (360 positions), every term k=0..119 of every family through poly(c+e_k)-poly(c) = Z_k incl. r=1 (360), '
                   'mean of Z_k^2 over the disk (360), R(1)=1 (360), Gram matrices Standard/Noll (2 x 120 x 120 by exact '
                   'quadrature), poly linearity (30), fit recovery (12), fit linearity (6)'}
    for name, f, n in oracle_table(ctx.seed + 77):
        w = guarded(name, f)
        out['n'] += n
        out['nontrivial'] += n
        if w:
            out['disagreements'].append(dict(w, violates_property=True, oracle=name))
    hist = oracle_containers_histories()[1] if not any(d.get('oracle') == 'containers-histories' and d.get('kind') == 'implementation-raised'
                                                       for d in out['disagreements']) else {}
    out['histogram'] = {k: v for k, v in hist.items() if k != 'shared_default'}
    nh = sum(hist.get('histories', {}).values()) + sum(hist.get('argument_kinds', {}).values())
    if not any(d.get('oracle') == 'fit-object-histories' and d.get('kind') == 'implementation-raised' for d in out['disagreements']):
        fh = oracle_fit_object_histories()[1]
        out['histogram']['fit_object_histories'] = fh
        nh += sum(fh['histories'].values())
    out['n'] += nh
    out['nontrivial'] += nh
    out['samples'].append({'oracle': 'containers-histories', 'history': 'ZernikeFringe([0,0,0,1,0,...]) ; coeffs[1] = -0.5 ; coeffs[8] = 0.25 ; '
                           'coeffs[-1] = 0.125 ; poly(r, phi) == sum_k c_k Z_k (independent basis)'})
    out['samples'].append({'oracle': 'orthonormal', 'quadrature': '48 Gauss-Legendre nodes in r x 96 equispaced in phi'})
    return [out]


def system_checks(ctx):
    # a generator, implementation-level verdict first: it does not depend on the Coq side and is reported even when a later
    # check cannot run (translation failed, harness exception)
    for f in (check_oracles, check_indices, check_poly, check_fit, check_opd):
        for res in f(ctx):
            yield res


# --------------------------------------------------------------------------------------------
# search / findings
# --------------------------------------------------------------------------------------------
def search(ctx, broken, disagreements):
    """the property stated directly on the implementation, independent of whether the Coq side could run: index rules,
    every term of every family (poly(c+e_k)-poly(c) = Z_k, edge value, mean square), orthonormality by exact quadrature,
    linearity of poly, recovery and linearity of the fit.  Returns ALL failing inputs found, those that are not a listed
    open finding first (so a listed finding can never hide a new violation)."""
    known = vlib.load_known_findings(PROP)
    found = []
    for s in (ctx.seed, ctx.seed + 1, ctx.seed + 2):
        for w in all_witnesses(s):
            if not any(w.get('kind') == v.get('kind') and w.get('call') == v.get('call') for v in found):
                found.append(w)
        if any(not any(matches_finding(w, f) for f in known) for w in found):
            break
    found.sort(key=lambda w: any(matches_finding(w, f) for f in known))
    return found or None


def matches_finding(w, f):
    """exact-match on the keys of f['match']; `<key>_below` is an upper bound on the numeric field <key>"""
    m = f.get('match', {})
    if not m:
        return False
    for k, v in m.items():
        if k.endswith('_below'):
            x = w.get(k[:-6])
            if not (isinstance(x, (int, float)) and x < v):
                return False
        elif w.get(k) != v:
            return False
    return True


def replay_finding(ctx, f):
    m = f.get('match', {})
    kind = m.get('kind')
    if kind == 'fit-does-not-recover':
        rng = random.Random(12345)
        fam, cls, short = FAMS[2]
        c = fit_case(rng, fam, cls, 5, scale=1e-11)
        err = _fit_err(c)
        return bool(err > 1e-6 and matches_finding(_fit_witness(c, err), f))
    if kind == 'default-coefficients-shared':
        w = guarded('shared-default', oracle_shared_default)
    elif kind == 'index-rule':
        w = oracle_indices()
    elif kind == 'edge-value':
        w = oracle_edge()
    elif kind == 'orthonormality':
        w = oracle_orthonormal()
    else:
        return None
    return bool(w and matches_finding(w, f))


def broken_explained(b, known, witnesses):
    # a listed finding only explains the numerical fit check it was found by, never a proof or a kernel/model tie
    return b.get('kind') == 'model-correspondence' and b.get('check') == 'fit_recovers_exact_data' and False

"""C14 - optimisers leave the lens at the returned solution, never worse than the start."""
import json
import math
import os
import random

import vlib
from props.common import BASE_TRUSTED

PROP = 'C14'
_PAIRS = ['radius', 'thickness', 'index', 'asphere', 'conic', 'tilt', 'decenter', 'poly', 'base']
_IDENTITY = ['conic', 'tilt', 'decenter', 'poly', 'base', 'thickness', 'index']   # one-argument kernels checked in one batch
KERNELS = ([p + s for p in _PAIRS for s in ('_scale', '_inverse_scale')]
           + ['radius_get_value', 'conic_get_value', 'thickness_get_value', 'index_get_value',
              'bounds_radius', 'bounds_thickness', 'bounds_index', 'bounds_asphere', 'bounds_identity',
              'operand_delta', 'operand_fun'])
THEOREMS = ['C14_scale_roundtrips', 'C14_scale_units', 'C14_scale_mono', 'C14_faithful_handle',
            'C14_bounds_in_value_units', 'C14_merit_function', 'C14_fixed_state_is_returned_solution',
            'C14_fixed_merit_is_returned_objective', 'C14_fixed_not_worse', 'C14_fixed_within_bounds',
            'C14_fixed_pickups_solves_satisfied', 'C14_impl_state', 'C14_undo_restores',
            'C14_undo_restores_impl_partial', 'C14_upd_pickups_hypotheses',
            'C14_update_optics_each_owner_once', 'C14_update_optics_satisfies_every_owner']
COQ_TARGETS = ['Model/M_C14.vo', 'Lemmas/L_C14.vo']
TRUSTED_BASE = BASE_TRUSTED + [
    'hand model coq/Model/M_C14.v (lens = map from parameter coordinates to values; optimise/undo state machine), '
    'tied to optiland/optimization/*.py by the system-level correspondence of tools/props/C14.py',
    'external minimiser (scipy.optimize.minimize / least_squares / dual_annealing / differential_evolution): only its '
    'contract is used - it evaluates the objective on some finite sequence of points and returns a point x* inside the bounds '
    'it was given; f* in the theorems is the value the objective took at x* (fstar = _fun x*), with f* <= f(x0). Validated on '
    'every logged run: the current variable vector must be among the evaluated points (each front end passes it to SciPy as '
    'x0; clause start-vector-not-evaluated), the lens must equal result.x, its re-evaluated merit must equal the logged objective at x*, and that '
    'value must not exceed the start. result.fun is compared with the logged value too, but a mismatch that is SciPy\'s own '
    '(BFGS returning fun = 1e10 from the NaN guard with an x whose logged value is lower; x* not among the logged points) is '
    'counted in the histogram (scipy-result-inconsistent / xstar-not-among-logged-points) and is not a violation of C14',
    'scipy.least_squares moves a start point that lies on a bound 1e-10 inside before its first evaluation; "not worse than '
    'the start" is then checked against that first evaluation',
    'Optic.update() enters the theorems through two hypotheses (writes only pickup/solve targets; computes them from the '
    'rest of the lens); proved for the pickup manager without chained pickups, solves are not modelled (C01)',
    'operating-system behaviour of worker processes (pickling, crashes) is not modelled: a worker evaluation is an '
    'evaluation on a copy of the lens',
]
RULE = ('kernels: seeded values in [-1e3,1e3] plus 0/inf/nan, coefficient numbers 0..6; system: seeded lenses (2-4 '
        'surfaces, optional asphere/polynomial/Chebyshev/tilted surface, optional radius pickup), variable sets over all '
        'nine variable types, scaled/unscaled, bounded/unbounded; five front ends (DE with workers=1 and 2), sequences '
        'of optimise/undo incl. optimise/optimise/undo/undo; boundary block: min_val/max_val in {0, -0.0, negative, equal, '
        '= current value, None} for every variable class scaled and unscaled, and optimiser runs with a variable at 0 '
        'whose limit is 0 and the optimum beyond it; multi-optic block: one problem over 2-3 lenses, variables interleaved in '
        'orders AAB ABA BBA AABC BAAC AB CCBAB ABBCA BABA, pickup and/or marginal-ray-height solve on every lens, every front end, '
        'contract checked per optic; mirror corpus (single mirror, Newtonian, Cassegrain, catadioptric, three-mirror: negative gaps) '
        'built via direct / reset()-and-reuse / to_dict-from_dict routes, every variable kind, read-back judged against the generated '
        'prescription, plus optimise/undo of the negative gap through the front ends; pre-optimised block: every front end started from a locally optimised lens with wide bounds and '
        'maxiter 1-3 (np.random.seed), not-worse and start-vector-evaluated checked; (update() calls per optic, state, merit, bounds, pickup and solve residuals, undo); non-trivial = the optimiser moved at least one variable')
PARTIAL = [
    'the state/merit/not-worse/bounds/undo theorems are about the REPAIRED optimize()/undo() (optimize_fixed, undo_fixed); '
    'for the code as written the same statements are refuted (coq/Findings/F_C14.v) and listed as findings',
    'undo_restores_impl_partial: undo() as written restores every parameter that is not a pickup/solve target',
    'solves are covered only through the two hypotheses on update(); chained pickups violate them (C01/D20)',
    'binary64: vertex positions are absolute z updated incrementally, so huge excursions of an unbounded thickness during a '
    'run leave rounding in later positions; read-back and merit tolerances scale with the largest excursion logged '
    '(1e-15 resp. 1e-11 relative to it, capped at 1e-6 / 1e-4)',
    'binary64: set-then-get returns the value up to rounding of scale/inverse_scale (checked to 1e-12 by correspondence); '
    'observed: when a run returns a solution exactly on a bound, a second differential_evolution run started from it raises '
    '"x0 lay outside the specified bounds" (SciPy rescales x0 to [0,1] with rounding); counted as restart-from-bound-raise, '
    'not a violation of the real-number statement',
]

KIND = {'radius': ('KRadius', 0), 'conic': ('KConic', 1), 'thickness': ('KThickness', 2), 'index': ('KIndex', 3),
        'asphere_coeff': ('KAsphere', 4), 'tilt': ('KTilt', 5), 'decenter': ('KDecenter', 6),
        'polynomial_coeff': ('KPoly', 7), 'chebyshev_coeff': ('KCheb', 8)}
NONID = ('radius', 'thickness', 'index', 'asphere_coeff')
HARNESS = open(os.path.join(os.path.dirname(os.path.dirname(os.path.abspath(__file__))), 'c14_harness.py')).read()

COQ_IMPORTS = '''From OV Require Import Gen.OptVars Model.M_C14.
Definition mkstore (l : list (coord * float)) : @store FOps :=
  fun c => match find (fun p => coord_eqb (fst p) c) l with Some p => snd p | None => 0%float end.
Definition oeq (tol : float) (a b : option float) : bool :=
  match a, b with Some x, Some y => close tol x y | None, None => true | _, _ => false end.
Definition osame (a b : option float) : bool :=
  match a, b with Some x, Some y => same x y | None, None => true | _, _ => false end.
Definition beq (tol : float) (p q : option float * option float) : bool :=
  oeq tol (fst p) (fst q) && oeq tol (snd p) (snd q).
Definition rd (s : @store FOps) (cs : list coord) : list float := map s cs.
Definition V := @mkVar FOps.
Definition TOL := 0x1.19799812dea11p-40%float.   (* 1e-12 *)
'''

fx = vlib.fhex


def hx(s):
    return float.fromhex(s) if isinstance(s, str) else s


# ---------------------------------------------------------------------------------------------
# kernel-level correspondence
# ---------------------------------------------------------------------------------------------
def _vals(g, n):
    out = []
    for i in range(n):
        sp = g.special(0.06)
        out.append(sp if sp is not None else (g.uni(-1e3, 1e3) if i % 3 else g.uni(-3, 3)))
    return out


def kernel_cases(ctx):
    g = ctx.gen
    n = ctx.n(60, 1500)
    for p in _PAIRS:
        if p in _IDENTITY:
            continue          # batched in system_checks (identity-scale-kernels): one process instead of ten
        for s in ('_scale', '_inverse_scale'):
            if p == 'asphere':
                cases = [[v * 10.0 ** (-g.r.randint(0, 12)), g.r.randint(0, 6)] for v in _vals(g, n)]
            else:
                cases = [[v] for v in _vals(g, n)]
            yield p + s, cases, ({'plain_self': True} if p == 'base' else {})
    rad = []
    for i in range(n):
        k = g.r.randint(2, 6)
        l = [float('inf')] + [g.uni(-300, 300) for _ in range(k)]
        rad.append([l, g.r.randint(-k, k), bool(i % 2)])
    yield 'radius_get_value', rad, {'arrays': ['self._surfaces.radii']}
    yield 'conic_get_value', [[c[0], c[1]] for c in rad], {'arrays': ['self._surfaces.conic']}
    ops = []
    for i in range(n):
        a, b, c = _vals(g, 3)
        ops.append([a, b, c])
    yield 'operand_delta', [c[:2] for c in ops], {'shadow': ['value'], 'scalars': ['self.value', 'self.target']}
    yield 'operand_fun', ops, {'shadow': ['value'], 'scalars': ['self.value', 'self.target', 'self.weight']}


# ---------------------------------------------------------------------------------------------
# scenario generation
# ---------------------------------------------------------------------------------------------
def gen_lens(rng, special=True, pickup_p=0.3):
    ns = rng.choice([2, 2, 3, 4])
    surfs = []
    for i in range(ns):
        glass = (i % 2 == 0)
        R = rng.uniform(30, 120) * (1 if i % 2 == 0 else -1)
        s = {'radius': R, 'conic': rng.choice([0.0, 0.0, rng.uniform(-1.2, 0.5)]),
             'thickness': rng.uniform(3, 8) if glass else rng.uniform(2, 6),
             'n': rng.uniform(1.45, 1.8) if glass else None, 'stop': i == 0}
        surfs.append(s)
    surfs[-1]['thickness'] = rng.uniform(40, 90)
    surfs[-1]['n'] = None
    if ns == 3:
        surfs[1]['n'] = rng.uniform(1.55, 1.75)
    if special and rng.random() < 0.6:
        j = rng.randrange(ns)
        st = rng.choice(['even_asphere', 'polynomial', 'chebyshev'])
        surfs[j]['type'] = st
        if st == 'even_asphere':
            surfs[j]['coefficients'] = [rng.uniform(-1, 1) * 1e-5, rng.uniform(-1, 1) * 1e-7, rng.uniform(-1, 1) * 1e-9]
        else:
            surfs[j]['coefficients'] = [[0.0, rng.uniform(-1, 1) * 1e-4], [rng.uniform(-1, 1) * 1e-4, rng.uniform(-1, 1) * 1e-5]]
    if special and rng.random() < 0.4:
        j = rng.randrange(ns)
        surfs[j]['rx'] = rng.uniform(-0.01, 0.01)
        surfs[j]['dy'] = rng.uniform(-0.2, 0.2)
    lens = {'surfs': surfs, 'epd': rng.uniform(4, 10), 'fields': [0.0, rng.uniform(1, 3)], 'wl': [0.55], 'pickups': []}
    if ns >= 2 and rng.random() < pickup_p:
        src, tgt = 1, 2
        if surfs[tgt - 1].get('type', 'standard') == 'standard' and surfs[src - 1].get('type', 'standard') == 'standard':
            lens['pickups'].append([src, 'radius', tgt, rng.choice([-1.0, -0.8, 1.5]), rng.choice([0.0, -3.0])])
            surfs[tgt - 1]['radius'] = None     # overwritten by the pickup
            surfs[tgt - 1]['conic'] = 0.0       # a plane turned into a sphere by set_radius starts with conic 0
    return lens


def candidate_vars(lens):
    """every (type, surf, a, b) this lens supports; pickup targets excluded"""
    tg = {(p[1], p[2]) for p in lens['pickups']}
    out = []
    ns = len(lens['surfs'])
    for i, s in enumerate(lens['surfs']):
        k = i + 1
        st = s.get('type', 'standard')
        if ('radius', k) not in tg:
            out.append(('radius', k, 0, 0))
        out.append(('conic', k, 0, 0))
        out.append(('thickness', k, 0, 0))
        if s.get('n'):
            out.append(('index', k, 0, 0))
        if st == 'even_asphere':
            out += [('asphere_coeff', k, a, 0) for a in range(3)]
        if st == 'polynomial':
            out += [('polynomial_coeff', k, a, b) for a in range(2) for b in range(2)]
        if st == 'chebyshev':
            out += [('chebyshev_coeff', k, a, b) for a in range(2) for b in range(2)]
        out += [('tilt', k, a, 0) for a in range(2)] + [('decenter', k, a, 0) for a in range(2)]
    return out


def raw_of(lens, c):
    t, k, a, b = c
    s = lens['surfs'][k - 1]
    if t == 'radius':
        return s['radius']
    if t == 'conic':
        return s.get('conic', 0.0)
    if t == 'thickness':
        return s['thickness']
    if t == 'index':
        return s['n']
    if t == 'asphere_coeff':
        return s['coefficients'][a]
    if t in ('polynomial_coeff', 'chebyshev_coeff'):
        return s['coefficients'][a][b]
    if t == 'tilt':
        return s.get('rx', 0.0) if a == 0 else s.get('ry', 0.0)
    if t == 'decenter':
        return s.get('dx', 0.0) if a == 0 else s.get('dy', 0.0)


SPAN = {'radius': 25.0, 'conic': 0.5, 'thickness': 2.5, 'index': 0.08, 'asphere_coeff': None, 'tilt': 0.01,
        'decenter': 0.3, 'polynomial_coeff': 2e-4, 'chebyshev_coeff': 2e-4}


def mkvar(rng, lens, c, bounded=None, scaled=None):
    t, k, a, b = c
    raw = raw_of(lens, c)
    span = SPAN[t] if SPAN[t] is not None else 10.0 ** (-5 - 2 * a)
    v = {'type': t, 'surf': k, 'a': a, 'b': b, 'scaled': rng.random() < 0.65 if scaled is None else scaled}
    if bounded is None:
        bounded = rng.random() < 0.6
    if bounded:
        v['min'] = raw - span * rng.uniform(0.5, 1.0)
        v['max'] = raw + span * rng.uniform(0.5, 1.0)
        if t == 'thickness':
            if raw > 0:
                v['min'] = max(v['min'], 0.5)
            else:
                v['max'] = min(v['max'], -0.5)
        if t == 'index':
            v['min'] = max(v['min'], 1.3)
    return v


def coord_of(v):
    return {'type': v['type'], 'surf': v['surf'], 'a': v.get('a', 0), 'b': v.get('b', 0)}


def coords_for(lens, vars_):
    cs = [coord_of(v) for v in vars_]
    for p in lens['pickups']:
        for k in (p[0], p[2]):
            c = {'type': p[1], 'surf': k, 'a': 0, 'b': 0}
            if c not in cs:
                cs.append(c)
    # one bystander: the last thickness (image distance) or first conic
    for c in ({'type': 'conic', 'surf': 1, 'a': 0, 'b': 0}, {'type': 'thickness', 'surf': len(lens['surfs']), 'a': 0, 'b': 0}):
        if c not in cs:
            cs.append(c)
    return cs


# ---------------------------------------------------------------------------------------------
# Coq encodings
# ---------------------------------------------------------------------------------------------
def cq_coord(c):
    return f"({KIND[c['type']][1]}, {c['surf']}, {c.get('a', 0)}, {c.get('b', 0)})%Z"


def cq_opt(x):
    return 'None' if x is None else f'(Some {fx(x)})'


def cq_var(v):
    return (f"(V {KIND[v['type']][0]} {v['surf']}%Z {v.get('a', 0)}%Z {v.get('b', 0)}%Z "
            f"{'true' if v.get('scaled', True) else 'false'} {cq_opt(v.get('min'))} {cq_opt(v.get('max'))})")


def cq_list(xs):
    return '[' + '; '.join(xs) + ']'


def cq_floats(xs):
    return cq_list([fx(hx(x)) for x in xs])


def cq_store(coords, raws):
    return 'mkstore ' + cq_list([f'({cq_coord(c)}, {fx(hx(r))})' for c, r in zip(coords, raws)])


def cq_pickups(lens):
    return cq_list([f"({cq_coord({'type': p[1], 'surf': p[0]})}, {cq_coord({'type': p[1], 'surf': p[2]})}, {fx(p[3])}, {fx(p[4])})"
                    for p in lens['pickups']])


class Bools:
    """flat list of labelled boolean Coq expressions, evaluated in shards"""
    def __init__(self):
        self.items = []      # (label, expr)

    def add(self, label, expr):
        self.items.append((label, expr))

    def run(self, tag, shard=40):
        """returns set of failing labels (or raises RuntimeError)"""
        bodies, index = [], []
        for s in range(0, len(self.items), shard):
            part = self.items[s:s + shard]
            bodies.append('Eval vm_compute in (report [\n' + ';\n'.join(e for _, e in part) + '\n]).\n')
            index.append(s)
        if not bodies:
            return set()
        res = vlib.run_cases(tag, COQ_IMPORTS, bodies)
        bad = set()
        for s, r in zip(index, res):
            if r[0] == 'error':
                raise RuntimeError(r[1])
            if r[1] > len(r[2]):
                # more than 10 failures in a shard: re-run that shard one by one
                sub = vlib.run_cases(tag + 'x', COQ_IMPORTS,
                                     ['Eval vm_compute in (report [\n' + e + '\n]).\n' for _, e in self.items[s:s + shard]])
                for j, rr in enumerate(sub):
                    if rr[0] == 'error':
                        raise RuntimeError(rr[1])
                    if rr[1]:
                        bad.add(self.items[s + j][0])
            else:
                for i in r[2]:
                    bad.add(self.items[s + i][0])
        return bad


# ---------------------------------------------------------------------------------------------
# Python-side helpers (the property stated directly on observations)
# ---------------------------------------------------------------------------------------------
def py_scale(v, x):
    t = v['type']
    if x is None:
        return None
    if t == 'radius':
        return x / 100.0 - 1.0
    if t == 'thickness':
        return x / 10.0 - 1.0
    if t == 'index':
        return x - 1.5
    if t == 'asphere_coeff':
        return x * 10 ** (4 + 2 * v['a'])
    return x


def spec_bounds(v):
    if v.get('scaled', True):
        return (py_scale(v, v.get('min')), py_scale(v, v.get('max')))
    return (v.get('min'), v.get('max'))


def impl_bounds(v):
    return (py_scale(v, v.get('min')), py_scale(v, v.get('max')))


def near(a, b, tol=1e-12):
    if a is None or b is None:
        return a is None and b is None
    if math.isnan(a) or math.isnan(b):
        return math.isnan(a) and math.isnan(b)
    if math.isinf(a) or math.isinf(b):
        return a == b
    return abs(a - b) <= tol * (1 + abs(a) + abs(b))


def near_merit(a, b, tol=1e-9):
    if math.isnan(a) or math.isnan(b) or math.isinf(a) or math.isinf(b):
        return near(a, b)
    ra, rb = math.sqrt(max(a, 0)), math.sqrt(max(b, 0))
    return abs(ra - rb) <= tol * (1 + ra + rb)


def d07_config(vars_):
    return [i for i, v in enumerate(vars_) if not v.get('scaled', True) and v['type'] in NONID
            and (v.get('min') is not None or v.get('max') is not None)]


# ---------------------------------------------------------------------------------------------
# handle check: variables are faithful handles, bounds in the units of the value
# ---------------------------------------------------------------------------------------------
def gen_handle_cases(rng, n):
    cases = []
    while len(cases) < n:
        lens = gen_lens(rng, pickup_p=0.0)
        cand = candidate_vars(lens)
        rng.shuffle(cand)
        vars_ = [mkvar(rng, lens, c) for c in cand[:rng.randint(2, 6)]]
        ops = []
        for _ in range(rng.randint(3, 8)):
            i = rng.randrange(len(vars_))
            v = vars_[i]
            raw = raw_of(lens, (v['type'], v['surf'], v['a'], v['b']))
            span = SPAN[v['type']] if SPAN[v['type']] is not None else 10.0 ** (-5 - 2 * v['a'])
            newraw = raw + span * rng.uniform(-1, 1)
            if v['type'] == 'thickness':
                newraw = max(newraw, 0.3) if raw > 0 else min(newraw, -0.3)     # gaps after an odd number of mirrors are negative
            x = py_scale(v, newraw) if v.get('scaled', True) else newraw
            ops.append([i, float(x).hex()])
        cases.append({'lens': lens, 'vars': vars_, 'ops': ops, 'coords': coords_for(lens, vars_)})
    return cases


# ---------------------------------------------------------------------------------------------
# boundary values of min_val / max_val (0, -0.0, negative, equal to each other, equal to the current value,
# None on either side) for every variable class, scaled and unscaled
# ---------------------------------------------------------------------------------------------
def boundary_lenses():
    out = []
    for st in ('even_asphere', 'polynomial', 'chebyshev'):
        s1 = {'radius': 60.0, 'conic': 0.0, 'thickness': 5.0, 'n': 1.6, 'stop': True}
        s2 = {'radius': -80.0, 'conic': -0.4, 'thickness': 70.0, 'n': None, 'type': st, 'rx': 0.004, 'dy': -0.1}
        s2['coefficients'] = [0.0, 1e-7, -2e-9] if st == 'even_asphere' else [[0.0, 1e-4], [-2e-4, 0.0]]
        out.append({'surfs': [s1, s2], 'epd': 8.0, 'fields': [0.0, 2.0], 'wl': [0.55], 'pickups': []})
    return out


def bound_patterns(raw):
    a = abs(raw) + 1.0
    return [(0.0, None), (None, 0.0), (-a, 0.0), (0.0, a), (0.0, 0.0), (-a, -0.0), (raw, raw), (raw, None), (None, raw),
            (-a - 4.0, -a), (None, None)]


def gen_boundary_handle_cases():
    cases = []
    for lens in boundary_lenses():
        seen = set()
        vars_ = []
        for c in candidate_vars(lens):
            key = (c[0], c[1]) if c[0] in ('radius', 'conic') else c[0]
            if key in seen:
                continue
            seen.add(key)
            raw = raw_of(lens, c)
            for scaled in (True, False):
                for mn, mx in bound_patterns(raw):
                    v = {'type': c[0], 'surf': c[1], 'a': c[2], 'b': c[3], 'scaled': scaled}
                    if mn is not None:
                        v['min'] = mn
                    if mx is not None:
                        v['max'] = mx
                    vars_.append(v)
        cases.append({'lens': lens, 'vars': vars_, 'ops': [], 'coords': coords_for(lens, vars_)})
    return cases


BOUNDARY_VARS = [('conic', 1, 0, 0, 0.6), ('asphere_coeff', 1, 1, 0, 2e-6), ('decenter', 1, 1, 0, 0.4), ('tilt', 1, 0, 0, 0.01),
                 ('conic', 2, 0, 0, 0.6), ('asphere_coeff', 1, 0, 0, 2e-5)]
BOUNDARY_FES = [('generic', {'disp': False, 'maxiter': 40}), ('least_squares', {'maxiter': 40}),
                ('dual_annealing', {'maxiter': 5, 'disp': False}),
                ('differential_evolution', {'maxiter': 3, 'disp': False, 'workers': 1}), ('compensator:generic', {})]


def gen_boundary_opt_cases(rng, n):
    """a variable sitting at 0 with 0 as its upper (or lower) limit, and a merit function whose optimum lies
    beyond that limit in one of the two orientations: the returned lens must still respect the limit"""
    cases = []
    for i in range(n):
        t, k, a, b, span = BOUNDARY_VARS[(i // 2) % len(BOUNDARY_VARS)]
        fe, kw = BOUNDARY_FES[(i // 2 + i // (2 * len(BOUNDARY_VARS))) % len(BOUNDARY_FES)]
        lens = {'surfs': [{'radius': rng.uniform(50, 70), 'conic': 0.0, 'thickness': 5.0, 'n': 1.6, 'stop': True,
                           'type': 'even_asphere', 'coefficients': [0.0, 0.0, 0.0]},
                          {'radius': -rng.uniform(70, 90), 'conic': 0.0, 'thickness': rng.uniform(60, 75), 'n': None}],
                'epd': 10.0, 'fields': [0.0, 2.0], 'wl': [0.55], 'pickups': []}
        v = {'type': t, 'surf': k, 'a': a, 'b': b, 'scaled': rng.random() < 0.5}
        if i % 2 == 0:
            v['min'], v['max'] = -span, 0.0
        else:
            v['min'], v['max'] = 0.0, span
        ops = [{'type': 'real_y_intercept', 'target': rng.choice([-0.3, 0.3]), 'weight': 3.0,
                'data': {'surface_number': -1, 'Hx': 0.0, 'Hy': 0.0, 'Px': 0.0, 'Py': 1.0, 'wavelength': 0.55}},
               {'type': 'real_y_intercept', 'target': rng.choice([-0.2, 0.2]), 'weight': 3.0,
                'data': {'surface_number': -1, 'Hx': 0.0, 'Hy': 0.0, 'Px': 0.0, 'Py': 0.0, 'wavelength': 0.55}}]
        steps = ['opt', 'opt', 'undo', 'undo'] if fe in ('generic', 'least_squares') else ['opt']
        beyond = (0.5 if i % 2 == 0 else -0.5) * span          # unconstrained optimum: on the far side of the 0 limit
        tf = [float(py_scale(v, beyond) if v['scaled'] else beyond).hex()]
        cases.append({'lens': lens, 'vars': [v], 'ops': ops, 'coords': coords_for(lens, [v]), 'frontend': fe, 'kwargs': kw,
                      'steps': steps, 'np_seed': rng.randrange(10 ** 6), 'boundary': True, 'targets_from': tf})
    return cases


# ---------------------------------------------------------------------------------------------
# fixed corpus: mirror systems (gaps after an odd number of mirrors have NEGATIVE thickness), reached through several
# public construction routes; variables of every kind supported by the surfaces
# ---------------------------------------------------------------------------------------------
ROUTES = ['direct', 'reuse', 'roundtrip']


def mirror_corpus():
    M = dict(mirror=True, n=None)
    return [
        {'name': 'concave-mirror', 'surfs': [dict(M, radius=-200.0, conic=0.0, thickness=-90.0, stop=True)], 'epd': 20.0},
        {'name': 'newtonian', 'surfs': [dict(M, radius=-400.0, conic=-1.0, thickness=-150.0, stop=True),
                                        dict(M, radius=5000.0, conic=0.0, thickness=45.0)], 'epd': 30.0},
        {'name': 'cassegrain', 'surfs': [dict(M, radius=-300.0, conic=-1.0, thickness=-100.0, stop=True),
                                         dict(M, radius=-150.0, conic=-2.5, thickness=130.0)], 'epd': 30.0},
        {'name': 'catadioptric', 'surfs': [{'radius': 180.0, 'conic': 0.0, 'thickness': 6.0, 'n': 1.52, 'stop': True},
                                           {'radius': -400.0, 'conic': 0.0, 'thickness': 70.0, 'n': None},
                                           dict(M, radius=-260.0, conic=0.0, thickness=-58.0, dy=0.05)], 'epd': 16.0},
        {'name': 'three-mirror', 'surfs': [dict(M, radius=-500.0, conic=-1.1, thickness=-120.0, stop=True),
                                           dict(M, radius=-220.0, conic=-3.0, thickness=110.0),
                                           dict(M, radius=-380.0, conic=0.0, thickness=-95.0, rx=0.002)], 'epd': 25.0},
    ]


def _mirror_lens(t, route):
    l = {k: v for k, v in t.items() if k != 'name'}
    l['surfs'] = [dict(s_) for s_ in t['surfs']]
    l.update({'fields': [0.0, 0.2], 'wl': [0.55], 'pickups': [], 'route': route, 'corpus': t['name']})
    return l


def gen_mirror_handle_cases():
    rng = random.Random(1409)
    cases = []
    for ti, t in enumerate(mirror_corpus()):
        for ri, route in enumerate(ROUTES):
            lens = _mirror_lens(t, route)
            cand = candidate_vars(lens)
            vars_ = []
            for c in cand:
                if c[0] in ('tilt', 'decenter') and (c[1] + ri) % 2:
                    continue
                vars_.append(mkvar(rng, lens, c, scaled=((len(vars_) + ri) % 2 == 0)))
            ops = []
            for i, v in enumerate(vars_):
                raw = raw_of(lens, (v['type'], v['surf'], v['a'], v['b']))
                newraw = raw + SPAN[v['type']] * rng.uniform(-1, 1)
                if v['type'] == 'thickness':
                    newraw = max(newraw, 0.3) if raw > 0 else min(newraw, -0.3)
                ops.append([i, float(py_scale(v, newraw) if v['scaled'] else newraw).hex()])
            cases.append({'lens': lens, 'vars': vars_, 'ops': ops, 'coords': coords_for(lens, vars_)})
    return cases


MIRROR_FES = [('generic', {'disp': False, 'maxiter': 25}), ('least_squares', {'maxiter': 25}),
              ('differential_evolution', {'maxiter': 2, 'disp': False, 'workers': 1}),
              ('dual_annealing', {'maxiter': 3, 'disp': False}), ('compensator:generic', {})]


def gen_mirror_opt_cases(n=None):
    """optimise the (negative) mirror-to-next-vertex gap, alone or with a radius, through every front end"""
    rng = random.Random(1410)
    cases = []
    corpus = mirror_corpus()
    for i in range(n or 10):
        t = corpus[i % len(corpus)]
        fe, kw = MIRROR_FES[(i + i // len(corpus)) % len(MIRROR_FES)]
        lens = _mirror_lens(t, ROUTES[i % len(ROUTES)])
        neg = [k + 1 for k, s_ in enumerate(lens['surfs']) if s_['thickness'] < 0]
        k = neg[(i // len(corpus)) % len(neg)]
        raw = lens['surfs'][k - 1]['thickness']
        vars_ = [{'type': 'thickness', 'surf': k, 'a': 0, 'b': 0, 'scaled': i % 2 == 0, 'min': raw - 12.0, 'max': raw + 12.0}]
        if i % 3 == 0:
            r = lens['surfs'][0]['radius']
            vars_.append({'type': 'radius', 'surf': 1, 'a': 0, 'b': 0, 'scaled': True, 'min': r - 30.0, 'max': r + 30.0})
        ops = [{'type': 'real_y_intercept', 'target': 0.0, 'weight': 2.0,
                'data': {'surface_number': -1, 'Hx': 0.0, 'Hy': 0.0, 'Px': 0.0, 'Py': 1.0, 'wavelength': 0.55}},
               {'type': 'real_y_intercept', 'target': 0.0, 'weight': 2.0,
                'data': {'surface_number': -1, 'Hx': 0.0, 'Hy': 0.0, 'Px': 0.0, 'Py': 0.6, 'wavelength': 0.55}}]
        cases.append({'lens': lens, 'vars': vars_, 'ops': ops, 'coords': coords_for(lens, vars_), 'frontend': fe, 'kwargs': kw,
                      'steps': ['opt'] if fe.startswith('compensator') else ['opt', 'undo'], 'np_seed': 100 + i, 'mirror': True})
    return cases


def check_handle(cases, obs, tag):
    """returns (disagreements, nontrivial, kin) - Coq model vs implementation, plus the direct oracle"""
    B = Bools()
    for ci, (c, o) in enumerate(zip(cases, obs)):
        if 'err' in o:
            continue
        o = o['ok']
        vs = cq_list([cq_var(v) for v in c['vars']])
        cs = cq_list([cq_coord(x) for x in c['coords']])
        s = cq_store(c['coords'], o['raw0'])
        B.add((ci, 'values0'), f'close_list TOL (getv {vs} ({s})) {cq_floats(o["values0"])}')
        for vi, (v, b) in enumerate(zip(c['vars'], o['bounds'])):
            ob = f'({cq_opt(hx(b[0]))}, {cq_opt(hx(b[1]))})'
            B.add((ci, 'bounds', vi), f'beq TOL (bounds_spec {cq_var(v)}) {ob}')
            B.add((ci, 'bounds_impl', vi), f'beq TOL (bounds_impl {cq_var(v)}) {ob}')
        expr = f'({s})'
        for si, ((i, x), st) in enumerate(zip(c['ops'], o['steps'])):
            expr = f'(var_set {cq_var(c["vars"][i])} {fx(hx(x))} {expr})'
            B.add((ci, 'step', si), f'(close_list TOL (getv {vs} {expr}) {cq_floats(st["values"])} && '
                                    f'close_list TOL (rd {expr} {cs}) {cq_floats(st["raw"])})')
    bad = B.run(tag)
    dis = []
    nontrivial = 0
    for ci, (c, o) in enumerate(zip(cases, obs)):
        if 'err' in o:
            dis.append({'case': ci, 'clause': 'harness', 'error': o, 'violates_property': False, 'replay': c})
            continue
        o = o['ok']
        nontrivial += 1
        # direct oracle: set then get returns the value set; other variables unchanged
        prev = [hx(x) for x in o['values0']]
        for si, ((i, x), st) in enumerate(zip(c['ops'], o['steps'])):
            cur = [hx(v) for v in st['values']]
            okset = near(cur[i], hx(x))
            okoth = all(near(cur[j], prev[j]) for j in range(len(cur)) if j != i
                        and coord_of(c['vars'][j]) != coord_of(c['vars'][i]))
            if (ci, 'step', si) in bad or not (okset and okoth):
                dis.append({'case': ci, 'clause': 'set-get', 'step': si, 'var': c['vars'][i], 'set': hx(x), 'read': cur[i],
                            'others_unchanged': okoth, 'model_agrees': (ci, 'step', si) not in bad,
                            'violates_property': not (okset and okoth), 'replay': {'mode': 'handle', 'case': c}})
            prev = cur
        # the lens built is the prescription entered, and a variable reads scale(prescription value): both judged against
        # the generated prescription, never against a getter of the implementation
        pres_bad = []
        for xi, (cc_, r0) in enumerate(zip(c['coords'], o['raw0'])):
            want = raw_of(c['lens'], (cc_['type'], cc_['surf'], cc_.get('a', 0), cc_.get('b', 0)))
            if want is not None and not near(hx(r0), want):
                pres_bad.append({'coord': cc_, 'lens_holds': hx(r0), 'prescription': want})
        if pres_bad:
            dis.append({'case': ci, 'clause': 'prescription', 'route': c['lens'].get('route', 'direct'), 'differing': pres_bad[:4],
                        'violates_property': True, 'replay': {'mode': 'handle', 'case': c}})
        read_bad = []
        for v, got in zip(c['vars'], o['values0']):
            raw = raw_of(c['lens'], (v['type'], v['surf'], v.get('a', 0), v.get('b', 0)))
            if raw is None:
                continue
            want = py_scale(v, raw) if v.get('scaled', True) else raw
            if not near(hx(got), want):
                read_bad.append({'var': v, 'value_read': hx(got), 'expected_from_prescription': want, 'prescription_value': raw})
        if read_bad and not pres_bad:
            dis.append({'case': ci, 'clause': 'value-read', 'route': c['lens'].get('route', 'direct'), 'differing': read_bad[:4],
                        'model_agrees': (ci, 'values0') not in bad, 'violates_property': True, 'replay': {'mode': 'handle', 'case': c}})
        elif (ci, 'values0') in bad and not pres_bad:
            dis.append({'case': ci, 'clause': 'value-read', 'violates_property': False, 'replay': {'mode': 'handle', 'case': c}})
        for vi, (v, b) in enumerate(zip(c['vars'], o['bounds'])):
            got = (hx(b[0]), hx(b[1]))
            want = spec_bounds(v)
            okb = near(got[0], want[0]) and near(got[1], want[1])
            if (ci, 'bounds', vi) in bad or not okb:
                expl = None
                if not v.get('scaled', True) and v['type'] in NONID and (ci, 'bounds_impl', vi) not in bad \
                        and near(got[0], impl_bounds(v)[0]) and near(got[1], impl_bounds(v)[1]):
                    expl = 'unscaled-bounds-scaled'
                dis.append({'case': ci, 'clause': 'bounds-units', 'var': v, 'bounds': got, 'expected': want,
                            'explained': expl, 'violates_property': not okb,
                            'replay': {'mode': 'handle', 'case': {**c, 'vars': [v], 'ops': [], 'coords': [coord_of(v)]}}})
    return dis, nontrivial


def check_kin(cases, obs, man, tag):
    """kernel-level correspondence of thickness/index get_value and Variable.bounds on real objects"""
    B = Bools()
    n = 0
    for ci, (c, o) in enumerate(zip(cases, obs)):
        if 'err' in o:
            continue
        o = o['ok']
        for k in o['kin']:
            n += 1
            sc = 'true' if k['scaled'] else 'false'
            if k['kernel'] == 'thickness_get_value' and 'thickness_get_value' in man:
                B.add((ci, 'kin', n), f'same (k_thickness_get_value FOps {fx(hx(k["call"]))} {sc}) {fx(hx(k["ret"]))}')
            elif k['kernel'] == 'index_get_value' and 'index_get_value' in man:
                B.add((ci, 'kin', n), f'same (k_index_get_value FOps {cq_floats(k["call"])} {k["surf"]}%Z {sc}) {fx(hx(k["ret"]))}')
        for vi, (v, b) in enumerate(zip(c['vars'], o['bounds'])):
            if v.get('min') is None or v.get('max') is None:
                continue
            kn = {'radius': 'bounds_radius', 'thickness': 'bounds_thickness', 'index': 'bounds_index',
                  'asphere_coeff': 'bounds_asphere'}.get(v['type'], 'bounds_identity')
            if kn not in man:
                continue
            args = []
            for inp in man[kn]['inputs']:
                p = inp['path']
                if p == 'self.min_val':
                    args.append(fx(v['min']))
                elif p == 'self.max_val':
                    args.append(fx(v['max']))
                elif p == 'self.apply_scaling':
                    args.append('true' if v.get('scaled', True) else 'false')
                elif p == 'self.variable.coeff_number':
                    args.append(f"{v['a']}%Z")
                else:
                    args = None
                    break
            if args is None:
                B.add((ci, 'kbounds-signature', vi), 'false')
                continue
            n += 1
            kinds = [o_['kind'] for o_ in man[kn]['outputs']]
            cmp_ = []
            for nm, kd, got in zip(('lo', 'hi'), kinds, b):
                got = hx(got)
                if kd == 'optnum':
                    cmp_.append(f'osame {nm} {cq_opt(got)}')
                else:
                    cmp_.append(f'same {nm} {fx(got)}' if got is not None else 'false')
            B.add((ci, 'kbounds', vi), f'(let \'(lo, hi) := k_{kn} FOps {" ".join(args)} in {" && ".join(cmp_)})')
    bad = B.run(tag)
    return [{'clause': 'kernel', 'label': list(map(str, b)), 'violates_property': False} for b in sorted(bad, key=str)], n


# ---------------------------------------------------------------------------------------------
# merit check
# ---------------------------------------------------------------------------------------------
def gen_ops(rng, lens, nmax=4, consts=True):
    ops = []
    for _ in range(rng.randint(1, nmax)):
        r = rng.random()
        if r < 0.4:
            ops.append({'type': 'f2', 'target': rng.uniform(40, 120), 'weight': rng.choice([1.0, rng.uniform(0.1, 5)]), 'data': {}})
        elif r < 0.75:
            ops.append({'type': 'real_y_intercept', 'target': rng.uniform(-0.5, 0.5), 'weight': rng.uniform(0.5, 3),
                        'data': {'surface_number': -1, 'Hx': 0.0, 'Hy': rng.choice([0.0, 1.0]), 'Px': 0.0,
                                 'Py': rng.choice([0.0, 0.7, 1.0]), 'wavelength': 0.55}})
        elif consts:
            ops.append({'type': 'verif_const', 'target': rng.uniform(-2, 2), 'weight': rng.uniform(-3, 3),
                        'data': {'value': float(rng.uniform(-5, 5)).hex()}})
    if not ops:
        ops.append({'type': 'f2', 'target': 80.0, 'weight': 1.0, 'data': {}})
    return ops


def gen_merit_cases(rng, n):
    cases = []
    for i in range(n):
        lens = gen_lens(rng, special=(i % 3 == 0))
        cand = [c for c in candidate_vars(lens) if c[0] in ('radius', 'thickness', 'conic')]
        rng.shuffle(cand)
        vars_ = [mkvar(rng, lens, c) for c in cand[:rng.randint(1, 3)]]
        ops = gen_ops(rng, lens, nmax=10 if i % 4 == 0 else 4)
        if i % 7 == 3:
            ops.append({'type': 'verif_const', 'target': 0.0, 'weight': 1.0, 'data': {'value': 'nan'}})
        if i % 11 == 5:
            ops.append({'type': 'verif_const', 'target': 0.0, 'weight': 1.0, 'data': {'value': 'inf'}})
        cases.append({'lens': lens, 'vars': vars_, 'ops': ops, 'coords': []})
    return cases


def check_merit(cases, obs, tag):
    B = Bools()
    for ci, (c, o) in enumerate(zip(cases, obs)):
        if 'err' in o:
            continue
        o = o['ok']
        trip = cq_list([f'({fx(op["weight"])}, {fx(op["target"])}, {fx(hx(v))})' for op, v in zip(c['ops'], o['values'])])
        B.add((ci, 'funs'), f'close_list 0x1p-46 (map (@op_fun FOps) {trip}) {cq_floats(o["funs"])}')
        B.add((ci, 'fun_array'), f'close_list 0x1p-46 (@fun_array FOps {trip}) {cq_floats(o["fun_array"])}')
        B.add((ci, 'sum_squared'), f'close 0x1p-43 (@sum_squared FOps {trip}) {fx(hx(o["sum_squared"]))}')
        stable = all(near(hx(a), hx(b), 1e-9) for a, b in zip(o['values'], o['values_after']))
        if stable:
            B.add((ci, '_fun'), f'close 0x1p-28 (@fun_guard FOps (@sum_squared FOps {trip})) {fx(hx(o["_fun"]))}')
    bad = B.run(tag)
    dis = []
    nontrivial = 0
    for ci, (c, o) in enumerate(zip(cases, obs)):
        if 'err' in o:
            dis.append({'case': ci, 'clause': 'harness', 'error': o, 'violates_property': False})
            continue
        o = o['ok']
        vals = [hx(v) for v in o['values']]
        terms = [(op['weight'] * (v - op['target'])) ** 2 for op, v in zip(c['ops'], vals)]
        want = math.fsum(terms) if all(math.isfinite(t) for t in terms) else sum(terms)
        got = hx(o['sum_squared'])
        gfun = hx(o['_fun'])
        ok = near(got, want, 1e-12)
        wantf = 1e10 if math.isnan(want) else want
        okf = near(gfun, wantf, 1e-7)
        if math.isfinite(want) and want > 0:
            nontrivial += 1
        labels = [b for b in bad if b[0] == ci]
        if labels or not ok or not okf:
            dis.append({'case': ci, 'clause': 'merit', 'sum_squared': got, 'expected': want, '_fun': gfun,
                        'model_disagrees_on': [l[1] for l in labels], 'violates_property': not (ok and okf),
                        'replay': {'mode': 'merit', 'case': c}})
    return dis, nontrivial


# ---------------------------------------------------------------------------------------------
# optimise / undo check
# ---------------------------------------------------------------------------------------------
FRONTENDS = [('generic', {'disp': False, 'maxiter': 40}), ('least_squares', {'maxiter': 40}),
             ('dual_annealing', {'maxiter': 6, 'disp': False}),
             ('differential_evolution', {'maxiter': 3, 'disp': False, 'workers': 1}),
             ('compensator:generic', {}), ('compensator:least_squares', {}),
             ('differential_evolution', {'maxiter': 2, 'disp': False, 'workers': 2})]
SEQS = [['opt', 'undo'], ['opt', 'undo', 'opt'], ['opt', 'opt', 'undo', 'undo'], ['undo', 'opt', 'undo', 'undo']]


def gen_opt_case(rng, fe, kw, seq, d07=False, pickup=None, unbounded=False):
    while True:
        lens = gen_lens(rng, special=rng.random() < 0.3, pickup_p=(1.0 if pickup else (0.0 if pickup is False else 0.3)))
        if pickup and not lens['pickups']:
            continue
        cand = [c for c in candidate_vars(lens) if c[0] in ('radius', 'thickness', 'conic', 'index', 'asphere_coeff')
                and not (c[0] == 'thickness' and c[1] < len(lens['surfs']) and rng.random() < 0.5)]
        rng.shuffle(cand)
        need_b = fe in ('dual_annealing', 'differential_evolution') and not unbounded
        nv = rng.randint(1, 2) if need_b else rng.randint(1, 3)
        if pickup:
            cand = [c for c in cand if c[:2] == ('radius', 1)] + [c for c in cand if c[:2] != ('radius', 1)]
        vars_ = []
        for c in cand[:nv]:
            vars_.append(mkvar(rng, lens, c, bounded=True if need_b else (False if unbounded else None),
                               scaled=(True if not d07 else None)))
        if d07:
            c = [c for c in candidate_vars(lens) if c[0] in ('radius', 'thickness')][0]
            vars_ = [v for v in vars_ if (v['type'], v['surf']) != c[:2]]
            vars_.insert(0, mkvar(rng, lens, c, bounded=True, scaled=False))
        else:
            # without the D07 configuration: unscaled variables only where scale is the identity or unbounded
            for v in vars_:
                if not v['scaled'] and v['type'] in NONID and ('min' in v or 'max' in v):
                    v['scaled'] = True
        ops = gen_ops(rng, lens, nmax=3, consts=False)
        if not any(o['type'] == 'f2' for o in ops):
            ops.append({'type': 'f2', 'target': rng.uniform(50, 110), 'weight': 1.0, 'data': {}})
        case = {'lens': lens, 'vars': vars_, 'ops': ops, 'coords': coords_for(lens, vars_), 'frontend': fe,
                'kwargs': kw, 'steps': seq if not fe.startswith('compensator') else ['opt'],
                'np_seed': rng.randrange(10 ** 6)}
        return case


def gen_opt_cases(rng, n):
    cases = []
    i = 0
    while len(cases) < n:
        fe, kw = FRONTENDS[i % len(FRONTENDS)]
        if kw.get('workers') == 2 and i >= 2 * len(FRONTENDS):
            i += 1
            continue                      # multi-process DE is slow to start: at most two per run
        seq = SEQS[(i // len(FRONTENDS)) % len(SEQS)]
        cases.append(gen_opt_case(rng, fe, kw, seq, d07=(i % 6 == 4 and fe in ('generic', 'least_squares', 'compensator:generic')),
                                  pickup=(True if i % 5 == 1 else None),
                                  unbounded=(i % 13 == 9)))
        i += 1
    return cases


# ---------------------------------------------------------------------------------------------
# runs that start from an already good (pre-optimised) lens, wide bounds, tiny budget: "not worse than the start"
# only holds if the front end hands the CURRENT variable vector to SciPy as the start point
# ---------------------------------------------------------------------------------------------
PRE_FES = [('generic', {'disp': False, 'maxiter': 2}), ('least_squares', {'maxiter': 2}),
           ('dual_annealing', {'maxiter': 2, 'disp': False}),
           ('differential_evolution', {'maxiter': 1, 'disp': False, 'workers': 1}),
           ('compensator:generic', {}), ('compensator:least_squares', {}),
           ('dual_annealing', {'maxiter': 1, 'disp': False}), ('dual_annealing', {'maxiter': 3, 'disp': False})]


def gen_preopt_cases(rng, n):
    cases = []
    for i in range(n):
        fe, kw = PRE_FES[i % len(PRE_FES)]
        lens = gen_lens(rng, special=False, pickup_p=0.0)
        last = len(lens['surfs'])
        cand = [c for c in candidate_vars(lens) if c[0] in ('radius', 'conic') or (c[0] == 'thickness' and c[1] < last)]
        rng.shuffle(cand)
        vars_ = []
        for c in cand[:rng.randint(2, 3)]:
            raw = raw_of(lens, c)
            span = 3.0 * SPAN[c[0]]
            v = {'type': c[0], 'surf': c[1], 'a': 0, 'b': 0, 'scaled': True, 'min': raw - span, 'max': raw + span}
            if c[0] == 'thickness':
                v['min'] = max(v['min'], 0.5)
            vars_.append(v)
        ops = [{'type': 'f2', 'target': rng.uniform(60, 100), 'weight': rng.uniform(0.5, 2.0), 'data': {}},
               {'type': 'real_y_intercept', 'target': 0.0, 'weight': rng.uniform(1, 4),
                'data': {'surface_number': -1, 'Hx': 0.0, 'Hy': 0.0, 'Px': 0.0, 'Py': 1.0, 'wavelength': 0.55}},
               {'type': 'real_y_intercept', 'target': 0.0, 'weight': rng.uniform(1, 4),
                'data': {'surface_number': -1, 'Hx': 0.0, 'Hy': 0.0, 'Px': 0.0, 'Py': 0.7, 'wavelength': 0.55}}]
        cases.append({'lens': lens, 'vars': vars_, 'ops': ops, 'coords': coords_for(lens, vars_), 'frontend': fe, 'kwargs': kw,
                      'steps': ['opt'] if fe.startswith('compensator') else ['opt', 'undo'], 'np_seed': rng.randrange(10 ** 6),
                      'preopt': 80, 'preoptimised': True})
    return cases


def check_opt(cases, obs, tag):
    """returns (disagreements, nontrivial, histogram)"""
    B = Bools()
    hist = {}
    for ci, (c, o) in enumerate(zip(cases, obs)):
        if 'err' in o:
            continue
        o = o['ok']
        vs = cq_list([cq_var(v) for v in c['vars']])
        cs = cq_list([cq_coord(x) for x in c['coords']])
        pk = cq_pickups(c['lens'])
        # vertex positions are stored as absolute z: a thickness read back is a difference of two of them, so its
        # rounding error scales with the largest distance in the lens (an unbounded thickness can run to 1e7 mm)
        mag = max([1.0] + [abs(hx(r)) for st_ in o['steps'] for k_ in ('before', 'after') for r in st_[k_]['raw']
                          if math.isfinite(hx(r))]
                  + [100.0 * abs(float.fromhex(t)) for st_ in o['steps'] for p_, _f in st_['log'] for t in p_
                     if math.isfinite(float.fromhex(t))])       # excursions during the run leave their rounding in the vertex positions
        tolr = fx(min(1e-6, max(1e-12, 1e-15 * mag)))
        for si, st in enumerate(o['steps']):
            s_before = cq_store(c['coords'], st['before']['raw'])
            if st['step'] == 'opt' and 'x' in st:
                tr = cq_list([f'(true, {cq_floats(x)})' for x, _ in st['log']])
                xs = cq_floats(st['x'])
                B.add((ci, si, 'fixed'), f'(let s := optimize_fixed (@upd_pickups FOps {pk}) {vs} {tr} {xs} ({s_before}) in '
                                         f'close_list TOL (getv {vs} s) {cq_floats(st["after"]["values"])} && '
                                         f'close_list {tolr} (rd s {cs}) {cq_floats(st["after"]["raw"])})')
                B.add((ci, si, 'impl'), f'(let s := optimize_impl (@upd_pickups FOps {pk}) {vs} {tr} {xs} ({s_before}) in '
                                        f'close_list TOL (getv {vs} s) {cq_floats(st["after"]["values"])} && '
                                        f'close_list {tolr} (rd s {cs}) {cq_floats(st["after"]["raw"])})')
            if st['step'] == 'undo' and 'error' not in st:
                # the vector undo() applies: the values before the matching optimise
                x0 = st.get('_x0')
                if x0 is not None:
                    B.add((ci, si, 'undo_fixed'), f'close_list {tolr} (rd (undo_fixed (@upd_pickups FOps {pk}) {vs} {cq_floats(x0)} ({s_before})) {cs}) {cq_floats(st["after"]["raw"])}')
                    B.add((ci, si, 'undo_impl'), f'close_list {tolr} (rd (undo_impl {vs} {cq_floats(x0)} ({s_before})) {cs}) {cq_floats(st["after"]["raw"])}')
                else:
                    B.add((ci, si, 'undo_noop'), f'close_list {tolr} (rd ({s_before}) {cs}) {cq_floats(st["after"]["raw"])}')
    bad = B.run(tag)
    dis = []
    nontrivial = 0
    for ci, (c, o) in enumerate(zip(cases, obs)):
        if 'err' in o:
            dis.append({'case': ci, 'clause': 'harness', 'error': o, 'violates_property': False, 'replay': {'mode': 'opt', 'case': c}})
            continue
        for w in opt_oracle(c, o['ok'], bad, ci, hist):
            dis.append(w)
        if any(st['step'] == 'opt' and 'x' in st and not all(near(hx(a), hx(b)) for a, b in zip(st['x'], st['before']['values']))
               for st in o['ok']['steps']):
            nontrivial += 1
    return dis, nontrivial, hist


def annotate_undo_vectors(case, o):
    """record in each undo step the vector popped from the stack (model of OptimizerGeneric._x)"""
    stack = []
    for st in o['steps']:
        if st['step'] == 'opt':
            stack.append(st['before']['values'])
        elif st['step'] == 'undo':
            st['_x0'] = stack.pop() if stack else None
        st['_stack_model'] = len(stack)


def opt_oracle(c, o, bad, ci, hist):
    """the property, clause by clause, on the observations of one scenario"""
    out = []
    fe = c['frontend']
    vars_ = c['vars']
    d07 = d07_config(vars_)
    tgt_idx = [i for i, x in enumerate(c['coords']) if any(p[1] == x['type'] and p[2] == x['surf'] for p in c['lens']['pickups'])]

    def W(clause, si, **kw):
        hist[clause] = hist.get(clause, 0) + 1
        d = {'case': ci, 'clause': clause, 'frontend': fe, 'step_index': si, 'violates_property': True,
             'replay': {'mode': 'opt', 'case': c}}
        d.update(kw)
        out.append(d)

    pre_opt = []          # snapshots before each optimise still on the undo stack
    for si, st in enumerate(o['steps']):
        before, after = st['before'], st['after']
        bvals = [hx(v) for v in before['values']]
        avals = [hx(v) for v in after['values']]
        araw = [hx(v) for v in after['raw']]
        if st.get('stack') is not None and st['stack'] != st['_stack_model']:
            W('undo-stack', si, stack=st['stack'], expected=st['_stack_model'])
        if st['step'] == 'opt':
            pre_opt.append(before)
            needs_b = fe in ('dual_annealing', 'differential_evolution')
            unb = any(v.get('min') is None or v.get('max') is None for v in vars_)
            if 'error' in st:
                if needs_b and unb and st['error'][0] == 'ValueError':
                    # documented precondition; the lens must be untouched
                    if not all(near(a, b) for a, b in zip(araw, [hx(v) for v in before['raw']])):
                        W('raise-moved-lens', si)
                    hist['bounds-required-raise'] = hist.get('bounds-required-raise', 0) + 1
                    continue
                # a start vector lying ON a bound (a previous run returned the bound): scipy.differential_evolution maps x0 to
                # [0,1] with rounding and refuses it ("x0 lay outside the specified bounds"), least_squares wants it strictly
                # feasible up to 1 ulp.  That is SciPy's precondition on x0 at binary64 level, outside the real-number
                # statement; counted, not a violation (the lens must be untouched).
                ob = [(hx(b_[0]), hx(b_[1])) for b_ in o['bounds']]
                on_b = [(lo is not None and near(xv, lo, 1e-13)) or (hi is not None and near(xv, hi, 1e-13)) for xv, (lo, hi) in zip(bvals, ob)]
                inside = [(lo is None or xv >= lo or near(xv, lo, 1e-13)) and (hi is None or xv <= hi or near(xv, hi, 1e-13))
                          for xv, (lo, hi) in zip(bvals, ob)]
                if st['error'][0] == 'ValueError' and any(on_b) and all(inside) and any(k_ in st['error'][1] for k_ in ('x0', 'nitial guess', 'outside')):
                    hist['restart-from-bound-raise(SciPy rejects x0 on a bound)'] = hist.get('restart-from-bound-raise(SciPy rejects x0 on a bound)', 0) + 1
                    if not all(near(a, b) for a, b in zip(araw, [hx(v) for v in before['raw']])):
                        W('raise-moved-lens', si)
                    continue
                W('exception', si, error=st['error'], explained=('unscaled-bounds-scaled' if d07 else None))
                continue
            x = [hx(v) for v in st['x']]
            fun = hx(st['fun'])
            f0 = hx(before['merit'])
            log = [([float.fromhex(t) for t in p], float.fromhex(f)) for p, f in st['log']]
            moved = not all(near(a, b) for a, b in zip(x, bvals))
            # The objective at the returned solution: the value _fun returned when x* was evaluated (logged).
            # SciPy's result.fun is validated against it; where SciPy itself reports another number (observed: BFGS
            # after a line search into the NaN -> 1e10 guard returns fun = 1e10 together with an x whose logged value
            # is lower) the run is counted and judged against the logged value - the lens cannot do better than
            # be at result.x with the merit the objective has there.
            lm = hx(after['merit'])
            # vertex positions are absolute z updated incrementally: an excursion of the line search to |t| ~ 1e9 mm leaves
            # ~1e-7 mm of rounding in every later position, so the merit at the same x is reproduced only to that level
            exc = max([1.0] + [100.0 * abs(t) for p_, _f in log for t in p_ if math.isfinite(t)])
            tol_m = min(1e-4, max(1e-9, 1e-11 * exc))
            at_x = [f for p, f in log if all(a == b or near(a, b, 1e-15) for a, b in zip(p, x))]
            if at_x and not any(near_merit(f, fun, 1e-12) for f in at_x):
                hist['scipy-result-inconsistent(fun != logged f(x*))'] = hist.get('scipy-result-inconsistent(fun != logged f(x*))', 0) + 1
                good = [f for f in at_x if near_merit(f, lm, tol_m)]
                fun = good[-1] if good else at_x[-1]
            elif log and not at_x:
                hist['xstar-not-among-logged-points'] = hist.get('xstar-not-among-logged-points', 0) + 1
            # state == returned solution, merit == objective at the returned solution
            ok_state = all(near(a, b) for a, b in zip(avals, x))
            ok_merit = near_merit(lm, fun, tol_m)
            if not (ok_state and ok_merit):
                last = log[-1][0] if log else bvals
                at_last = all(near(a, b) for a, b in zip(avals, last))
                W('state', si, returned_x=x, returned_fun=hx(st['fun']), objective_at_x=fun, lens_values=avals, lens_merit=lm,
                  parent_evaluations=len(log), explained=('last-parent-eval' if at_last and (ci, si, 'impl') not in bad else None),
                  model_fixed_agrees=(ci, si, 'fixed') not in bad, model_impl_agrees=(ci, si, 'impl') not in bad)
            elif (ci, si, 'fixed') in bad:
                out.append({'case': ci, 'clause': 'model-fixed', 'frontend': fe, 'step_index': si, 'violates_property': False,
                            'replay': {'mode': 'opt', 'case': c}})
            # obligation behind "f* <= f(x0)": every front end hands the current variable vector to SciPy as the start
            # point, so it is among the evaluated points (least_squares may nudge it 1e-10 inside a bound)
            if log and not any(all(near(a, b, 1e-9) for a, b in zip(p_, bvals)) for p_, _f in log):
                hist['start-vector-not-evaluated'] = hist.get('start-vector-not-evaluated', 0) + 1
                out.append({'case': ci, 'clause': 'start-vector-not-evaluated', 'frontend': fe, 'step_index': si, 'start_vector': bvals,
                            'first_evaluated': log[0][0], 'violates_property': False, 'replay': {'mode': 'opt', 'case': c}})
            # not worse than the start.  scipy.least_squares first moves a start point lying ON a bound strictly inside
            # (make_strictly_feasible, 1e-10 absolute): its own start value is then the first logged evaluation
            if 'least_squares' in fe and log:
                sb = [spec_bounds(v) for v in vars_]
                if any((lo is not None and abs(xv - lo) <= 1e-9 * max(1.0, abs(lo))) or (hi is not None and abs(xv - hi) <= 1e-9 * max(1.0, abs(hi)))
                       for xv, (lo, hi) in zip(bvals, sb)):
                    f0 = max(f0, log[0][1])
            if not (fun <= f0 * (1 + 1e-12) + 1e-300 or near_merit(fun, f0, 1e-9)):   # least_squares nudges an x0 lying on a bound strictly inside (1e-10)
                W('not-worse', si, start=f0, returned_fun=fun, explained=('unscaled-bounds-scaled' if d07 else None))
            # bounded variables within bounds (lens units, read independently of the Variable classes)
            for i, v in enumerate(vars_):
                r = araw[i]
                lo, hi = v.get('min'), v.get('max')
                tol = 1e-9 * max(abs(lo or 0.0), abs(hi or 0.0), abs(r)) + 1e-300     # relative to the scale of the limits
                if (lo is not None and r < lo - tol) or (hi is not None and r > hi + tol):
                    W('bounds', si, var=v, lens_value=r, explained=('unscaled-bounds-scaled' if i in d07 else None))
                    break
            # pickups satisfied
            for p in c['lens']['pickups']:
                cs_ = c['coords']
                isrc = cs_.index({'type': p[1], 'surf': p[0], 'a': 0, 'b': 0})
                itgt = cs_.index({'type': p[1], 'surf': p[2], 'a': 0, 'b': 0})
                if not near(araw[itgt], p[3] * araw[isrc] + p[4], 1e-10):
                    W('pickup', si, pickup=p, source=araw[isrc], target=araw[itgt],
                      explained=('workers-never-update' if not log and moved else None))
        elif st['step'] == 'undo':
            if 'error' in st:
                W('exception', si, error=st['error'])
                continue
            if st['_x0'] is None:
                ref = before
            else:
                ref = pre_opt.pop()
            rraw = [hx(v) for v in ref['raw']]
            mag = max([1.0] + [abs(hx(r)) for st_ in o['steps'] for k_ in ('before', 'after') for r in st_[k_]['raw']
                              if math.isfinite(hx(r))])
            diff = [i for i, (a, b) in enumerate(zip(araw, rraw)) if not near(a, b, max(1e-10, 1e-14 * mag))]
            if diff or not near_merit(hx(after['merit']), hx(ref['merit'])):
                only_t = bool(diff) and all(i in tgt_idx for i in diff)
                W('undo', si, differing=[c['coords'][i] for i in diff], lens=[araw[i] for i in diff], before_run=[rraw[i] for i in diff],
                  explained=('undo-no-update' if only_t and (ci, si, 'undo_impl') not in bad else None),
                  model_undo_impl_agrees=(ci, si, 'undo_impl') not in bad)
            elif (ci, si, 'undo_fixed') in bad and (ci, si, 'undo_impl') in bad:
                out.append({'case': ci, 'clause': 'model-undo', 'frontend': fe, 'step_index': si, 'violates_property': False,
                            'replay': {'mode': 'opt', 'case': c}})
    return out


# ---------------------------------------------------------------------------------------------
# problems spanning several optics (multi-configuration / lens families): variables interleaved in arbitrary
# orders with repeats, pickups and solves on each lens; the return contract is checked PER OPTIC
# ---------------------------------------------------------------------------------------------
ORDERS = [[0, 0, 1], [0, 1, 0], [1, 1, 0], [0, 0, 1, 2], [1, 0, 0, 2], [0, 1], [2, 2, 1, 0, 1], [0, 1, 1, 2, 0], [1, 0, 1, 0]]
MULTI_FES = [('generic', {'disp': False, 'maxiter': 30}), ('least_squares', {'maxiter': 30}),
             ('dual_annealing', {'maxiter': 4, 'disp': False}),
             ('differential_evolution', {'maxiter': 2, 'disp': False, 'workers': 1}),
             ('compensator:generic', {}), ('compensator:least_squares', {})]


def gen_multi_case(rng, i):
    order = ORDERS[i % len(ORDERS)]
    fe, kw = MULTI_FES[i % len(MULTI_FES)]
    nl = max(order) + 1
    lenses = []
    for k in range(nl):
        l = gen_lens(rng, special=False, pickup_p=0.75 if k else 1.0)
        # the optic reached last in the variable order always carries a pickup or a solve (usually both)
        if rng.random() < 0.75 or not l['pickups']:
            l['solve'] = [len(l['surfs']) + 1, 0.0]
        lenses.append(l)
    need_b = fe in ('dual_annealing', 'differential_evolution')
    used = set()
    vars_ = []
    for oi in order:
        l = lenses[oi]
        last = len(l['surfs'])
        cand = [c for c in candidate_vars(l) if c[0] in ('radius', 'conic', 'index') or (c[0] == 'thickness' and c[1] < last)]
        cand = [c for c in cand if (oi, c) not in used and not (c[0] == 'conic' and l['surfs'][c[1] - 1].get('radius') is None)]
        pref = [c for c in cand if c[0] == 'radius'] if not any(v['optic'] == oi for v in vars_) else cand
        c = rng.choice(pref or cand)
        used.add((oi, c))
        v = mkvar(rng, l, c, bounded=True if need_b else None)
        if not v['scaled'] and v['type'] in NONID:
            v['scaled'] = True
        v['optic'] = oi
        vars_.append(v)
    ops = []
    for k in range(nl):
        ops.append({'optic': k, 'type': 'f2', 'target': rng.uniform(60, 110), 'weight': rng.uniform(0.5, 2.0), 'data': {}})
    coords = []
    for v in vars_:
        c = dict(coord_of(v), optic=v['optic'])
        if c not in coords:
            coords.append(c)
    for k, l in enumerate(lenses):
        for p in l['pickups']:
            for sf in (p[0], p[2]):
                c = {'type': p[1], 'surf': sf, 'a': 0, 'b': 0, 'optic': k}
                if c not in coords:
                    coords.append(c)
        c = {'type': 'thickness', 'surf': len(l['surfs']), 'a': 0, 'b': 0, 'optic': k}     # moved by the solve
        if c not in coords:
            coords.append(c)
    steps = ['opt'] if fe.startswith('compensator') else rng.choice([['opt', 'undo'], ['opt', 'opt', 'undo', 'undo'], ['opt', 'undo', 'opt']])
    return {'lenses': lenses, 'vars': vars_, 'ops': ops, 'coords': coords, 'frontend': fe, 'kwargs': kw, 'steps': steps,
            'np_seed': rng.randrange(10 ** 6), 'order': order}


def gen_multi_cases(rng, n):
    return [gen_multi_case(rng, i) for i in range(n)]


def multi_oracle(c, o, ci, hist):
    """the return contract of C14 on every optic of a multi-optic problem"""
    out = []
    fe = c['frontend']
    vars_ = c['vars']

    def W(clause, si, **kw):
        hist[clause] = hist.get(clause, 0) + 1
        d = {'case': ci, 'clause': clause, 'frontend': fe, 'step_index': si, 'variable_optics': c['order'],
             'violates_property': True, 'replay': {'mode': 'multi', 'case': c}}
        d.update(kw)
        out.append(d)

    owners = [v['optic'] for v in vars_]
    for k, cnt in enumerate(o['update_counts']):
        want = 1 if k in owners else 0
        if cnt != want:
            W('update-optics-coverage', -1, optic=k, updates_in_one_update_optics_call=cnt, expected=want)

    def satisfied(snap, si, when):
        for k, res in enumerate(snap['pickup_res']):
            for r in res:
                if not abs(hx(r)) <= 1e-9 * (1 + max(abs(hx(x)) for x in snap['raw'] if math.isfinite(hx(x)))):
                    W('pickup', si, optic=k, residual=hx(r), when=when)
                    return
        for k, r in enumerate(snap['solve_res']):
            if r is not None and not abs(hx(r)) <= 1e-7:
                W('solve', si, optic=k, marginal_ray_height_residual=hx(r), when=when)
                return

    pre_opt = []
    stack_model = 0
    for si, st in enumerate(o['steps']):
        before, after = st['before'], st['after']
        bvals = [hx(v) for v in before['values']]
        avals = [hx(v) for v in after['values']]
        araw = [hx(v) for v in after['raw']]
        if st['step'] == 'opt':
            pre_opt.append(before)
            stack_model += 1
            if 'error' in st:
                ob = [(hx(b_[0]), hx(b_[1])) for b_ in o['bounds']]
                on_b = any((lo is not None and near(xv, lo, 1e-13)) or (hi is not None and near(xv, hi, 1e-13)) for xv, (lo, hi) in zip(bvals, ob))
                if st['error'][0] == 'ValueError' and on_b and any(k_ in st['error'][1] for k_ in ('x0', 'nitial guess', 'outside')):
                    hist['restart-from-bound-raise(SciPy rejects x0 on a bound)'] = hist.get('restart-from-bound-raise(SciPy rejects x0 on a bound)', 0) + 1
                    continue
                W('exception', si, error=st['error'])
                continue
            x = [hx(v) for v in st['x']]
            fun = hx(st['fun'])
            f0 = hx(before['merit'])
            lm = hx(after['merit'])
            log = [([float.fromhex(t) for t in p], float.fromhex(f)) for p, f in st['log']]
            exc = max([1.0] + [100.0 * abs(t) for p_, _f in log for t in p_ if math.isfinite(t)])
            tol_m = min(1e-4, max(1e-9, 1e-11 * exc))
            at_x = [f for p, f in log if all(a == b or near(a, b, 1e-15) for a, b in zip(p, x))]
            if at_x and not any(near_merit(f, fun, 1e-12) for f in at_x):
                hist['scipy-result-inconsistent(fun != logged f(x*))'] = hist.get('scipy-result-inconsistent(fun != logged f(x*))', 0) + 1
                good = [f for f in at_x if near_merit(f, lm, tol_m)]
                fun = good[-1] if good else at_x[-1]
            if not (all(near(a, b) for a, b in zip(avals, x)) and near_merit(lm, fun, tol_m)):
                W('state', si, returned_x=x, objective_at_x=fun, lens_values=avals, lens_merit=lm)
            if 'least_squares' in fe and log:
                sb = [spec_bounds(v) for v in vars_]
                if any((lo is not None and abs(xv - lo) <= 1e-9 * max(1.0, abs(lo))) or (hi is not None and abs(xv - hi) <= 1e-9 * max(1.0, abs(hi)))
                       for xv, (lo, hi) in zip(bvals, sb)):
                    f0 = max(f0, log[0][1])
            if not (fun <= f0 * (1 + 1e-12) + 1e-300 or near_merit(fun, f0, 1e-9)):
                W('not-worse', si, start=f0, objective_at_x=fun)
            for i, v in enumerate(vars_):
                r = araw[c['coords'].index(dict(coord_of(v), optic=v['optic']))]
                lo, hi = v.get('min'), v.get('max')
                tol = 1e-9 * max(abs(lo or 0.0), abs(hi or 0.0), abs(r)) + 1e-300
                if (lo is not None and r < lo - tol) or (hi is not None and r > hi + tol):
                    W('bounds', si, var=v, lens_value=r)
                    break
            satisfied(after, si, 'after optimise')
        elif st['step'] == 'undo':
            if 'error' in st:
                W('exception', si, error=st['error'])
                continue
            ref = pre_opt.pop() if pre_opt else before
            stack_model = max(0, stack_model - 1)
            rraw = [hx(v) for v in ref['raw']]
            mag = max([1.0] + [abs(r) for r in rraw + araw if math.isfinite(r)])
            diff = [i for i, (a, b) in enumerate(zip(araw, rraw)) if not near(a, b, max(1e-9, 1e-14 * mag))]
            if diff or not near_merit(hx(after['merit']), hx(ref['merit']), 1e-8):
                W('undo', si, differing=[c['coords'][i] for i in diff], lens=[araw[i] for i in diff], before_run=[rraw[i] for i in diff])
            satisfied(after, si, 'after undo')
        if st.get('stack') is not None and st['stack'] != stack_model:
            W('undo-stack', si, stack=st['stack'], expected=stack_model)
    return out


def check_multi(cases, obs, tag):
    """Coq side: update_optics model (dedup of the owners) against the observed update() calls, and the repaired
    state machine on the joint state of all lenses (coordinates of optic k are shifted by 1000*k)"""
    B = Bools()
    hist = {}

    def shifted(v_or_c, k):
        d = dict(v_or_c)
        d['surf'] = d['surf'] + 1000 * k
        return d
    for ci, (c, o) in enumerate(zip(cases, obs)):
        if 'err' in o:
            continue
        o = o['ok']
        owners = cq_list([f"{v['optic']}%Z" for v in c['vars']])
        for k, cnt in enumerate(o['update_counts']):
            B.add((ci, 'count', k), f'(Z.of_nat (count_occ Z.eq_dec (dedup {owners}) {k}%Z) =? {cnt})%Z')
        vs = cq_list([cq_var(shifted(v, v['optic'])) for v in c['vars']])
        cs = [shifted(x, x['optic']) for x in c['coords']]
        for si, st in enumerate(o['steps']):
            if st['step'] == 'opt' and 'x' in st:
                s_before = cq_store(cs, st['before']['raw'])
                tr = cq_list([f'(true, {cq_floats(x)})' for x, _ in st['log']])
                B.add((ci, si, 'fixed'), f'close_list TOL (getv {vs} (optimize_fixed (fun s => s) {vs} {tr} {cq_floats(st["x"])} ({s_before}))) '
                                         f'{cq_floats(st["after"]["values"])}')
    bad = B.run(tag)
    dis = []
    nontrivial = 0
    for ci, (c, o) in enumerate(zip(cases, obs)):
        if 'err' in o:
            dis.append({'case': ci, 'clause': 'harness', 'error': o, 'violates_property': False, 'replay': {'mode': 'multi', 'case': c}})
            continue
        ws = multi_oracle(c, o['ok'], ci, hist)
        dis += ws
        labels = [b for b in bad if b[0] == ci]
        flagged = {w['clause'] for w in ws}
        for b in labels:
            if b[1] == 'count' and 'update-optics-coverage' in flagged:
                continue
            if len(b) == 3 and b[2] == 'fixed' and 'state' in flagged:
                continue
            dis.append({'case': ci, 'clause': 'model-multi', 'label': [str(x) for x in b], 'violates_property': False,
                        'replay': {'mode': 'multi', 'case': c}})
        if any(st['step'] == 'opt' and 'x' in st for st in o['ok']['steps']):
            nontrivial += 1
    return dis, nontrivial, hist


def run_opt_cases(cases, tag):
    obs = vlib.run_python(HARNESS, {'mode': 'opt', 'cases': cases}, timeout=1500)
    for o in obs:
        if 'ok' in o:
            annotate_undo_vectors(None, o['ok'])
    return obs


# ---------------------------------------------------------------------------------------------
# system checks
# ---------------------------------------------------------------------------------------------
def check_identity_kernels(ctx):
    g = ctx.gen
    cases = []
    for p in _IDENTITY:
        for sfx in ('_scale', '_inverse_scale'):
            m = ctx.manifests.get(p + sfx)
            if m:
                cases.append({'kernel': p + sfx, 'file': m['file'], 'cls': m['cls'], 'func': m['func'],
                              'xs': [float(v).hex() for v in _vals(g, ctx.n(40, 400))]})
    obs = vlib.run_python(HARNESS, {'mode': 'kern', 'cases': cases})
    B = Bools()
    dis = []
    n = 0
    for c, o in zip(cases, obs):
        if 'err' in o:
            dis.append({'clause': 'kernel', 'kernel': c['kernel'], 'error': o, 'violates_property': False})
            continue
        for i, (x, y) in enumerate(zip(c['xs'], o['ok'])):
            n += 1
            B.add((c['kernel'], i), f'same (k_{c["kernel"]} FOps {fx(hx(x))}) {fx(hx(y))}')
    bad = B.run('C14i', shard=200)
    dis += [{'clause': 'kernel', 'kernel': b[0], 'input': cases[[c['kernel'] for c in cases].index(b[0])]['xs'][b[1]],
             'violates_property': False} for b in sorted(bad)]
    return {'name': 'batched-scale-kernels', 'n': n, 'nontrivial': n, 'samples': [], 'disagreements': dis}


def system_checks(ctx):
    rng = random.Random(ctx.seed * 31 + 14)
    try:
        yield check_identity_kernels(ctx)
    except RuntimeError as e:
        yield {'name': 'batched-scale-kernels', 'n': 0, 'error': str(e)}
    # (a) handles
    cases = gen_mirror_handle_cases() + gen_boundary_handle_cases() + gen_handle_cases(rng, ctx.n(30, 400))
    res = {'name': 'variable-handles-vs-model', 'n': len(cases), 'nontrivial': 0, 'samples': [], 'disagreements': []}
    try:
        obs = vlib.run_python(HARNESS, {'mode': 'handle', 'cases': cases})
        dis, nt = check_handle(cases, obs, 'C14h')
        res['disagreements'] = dis
        res['nontrivial'] = nt
        types = {}
        for c in cases:
            for v in c['vars']:
                k = v['type'] + ('' if v['scaled'] else '/unscaled') + ('/bounded' if 'min' in v else '')
                types[k] = types.get(k, 0) + 1
        res['histogram'] = {'variables': types,
                            'mirror_corpus_cases': sum(1 for c in cases if c['lens'].get('corpus')),
                            'negative_thickness_variables': sum(1 for c in cases for v in c['vars'] if v['type'] == 'thickness'
                                                                and (raw_of(c['lens'], (v['type'], v['surf'], 0, 0)) or 0) < 0),
                            'construction_routes': {r_: sum(1 for c in cases if c['lens'].get('route', 'direct') == r_) for r_ in ROUTES}}
        res['samples'] = [{'vars': cases[0]['vars'][:2], 'ops': cases[0]['ops'][:2]}]
        yield res
        kd, kn = check_kin(cases, obs, ctx.manifests, 'C14k')
        yield {'name': 'get_value-and-bounds-kernels-on-real-objects', 'n': kn, 'nontrivial': kn, 'samples': [],
               'disagreements': kd}
    except RuntimeError as e:
        res['error'] = str(e)
        yield res
    # (b) merit
    cases = gen_merit_cases(rng, ctx.n(24, 300))
    res = {'name': 'merit-function-vs-model', 'n': len(cases), 'nontrivial': 0, 'samples': [], 'disagreements': []}
    try:
        obs = vlib.run_python(HARNESS, {'mode': 'merit', 'cases': cases})
        res['disagreements'], res['nontrivial'] = check_merit(cases, obs, 'C14m')
        res['samples'] = [{'operands': [(o['type'], o['target'], o['weight']) for o in cases[0]['ops']]}]
    except RuntimeError as e:
        res['error'] = str(e)
    yield res
    # (c0) problems spanning several optics
    cases = gen_multi_cases(rng, ctx.n(9, 72))
    res = {'name': 'multi-optic-problems', 'n': len(cases), 'nontrivial': 0, 'samples': [], 'disagreements': []}
    try:
        obs = vlib.run_python(HARNESS, {'mode': 'multi', 'cases': cases}, timeout=1500)
        res['disagreements'], res['nontrivial'], hist = check_multi(cases, obs, 'C14x')
        orders = {}
        for c in cases:
            k = ''.join('ABC'[i] for i in c['order'])
            orders[k] = orders.get(k, 0) + 1
        fes = {}
        for c in cases:
            fes[c['frontend']] = fes.get(c['frontend'], 0) + 1
        res['histogram'] = {'variable_optic_orders': orders, 'frontends': fes, 'clauses_violated': hist,
                            'optics_with_pickup': sum(1 for c in cases for l in c['lenses'] if l['pickups']),
                            'optics_with_solve': sum(1 for c in cases for l in c['lenses'] if l.get('solve'))}
        res['samples'] = [{'variable_optics': cases[0]['order'], 'frontend': cases[0]['frontend'], 'steps': cases[0]['steps']}]
    except RuntimeError as e:
        res['error'] = str(e)
    yield res
    # (c) optimise / undo
    cases = gen_opt_cases(rng, ctx.n(21, 210)) + gen_boundary_opt_cases(rng, ctx.n(10, 60)) + gen_preopt_cases(rng, ctx.n(8, 64)) + gen_mirror_opt_cases(ctx.n(10, 30))
    res = {'name': 'optimise-undo-vs-model', 'n': len(cases), 'nontrivial': 0, 'samples': [], 'disagreements': []}
    try:
        obs = run_opt_cases(cases, 'C14o')
        res['disagreements'], res['nontrivial'], hist = check_opt(cases, obs, 'C14o')
        fes = {}
        for c in cases:
            k = c['frontend'] + (':workers=%s' % c['kwargs']['workers'] if 'workers' in c['kwargs'] else '')
            fes[k] = fes.get(k, 0) + 1
        res['histogram'] = {'frontends': fes, 'clauses_violated': hist,
                            'with_pickups': sum(1 for c in cases if c['lens']['pickups']),
                            'boundary_runs': sum(1 for c in cases if c.get('boundary')),
                            'mirror_system_runs(negative gap variable)': sum(1 for c in cases if c.get('mirror')),
                            'construction_routes': {r_: sum(1 for c in cases if c['lens'].get('route', 'direct') == r_) for r_ in ROUTES},
                            'preoptimised_start_tiny_budget_runs': sum(1 for c in cases if c.get('preoptimised')),
                            'd07_configurations': sum(1 for c in cases if d07_config(c['vars']))}
        res['samples'] = [{'frontend': cases[0]['frontend'], 'vars': cases[0]['vars'], 'steps': cases[0]['steps']}]
    except RuntimeError as e:
        res['error'] = str(e)
    yield res


# ---------------------------------------------------------------------------------------------
# search: the property as an oracle on the implementation (no model involved)
# ---------------------------------------------------------------------------------------------
def search(ctx, broken, disagreements):
    rng = random.Random(ctx.seed * 77 + 5)
    found = []
    cases = gen_mirror_handle_cases() + gen_boundary_handle_cases() + gen_handle_cases(rng, ctx.n(40, 300))
    obs = vlib.run_python(HARNESS, {'mode': 'handle', 'cases': cases})
    found += [d for d in _handle_oracle(cases, obs)]
    cases = gen_merit_cases(rng, ctx.n(30, 200))
    obs = vlib.run_python(HARNESS, {'mode': 'merit', 'cases': cases})
    found += [d for d in check_merit_oracle(cases, obs)]
    cases = gen_mirror_opt_cases(ctx.n(10, 30)) + gen_preopt_cases(rng, ctx.n(16, 64)) + gen_boundary_opt_cases(rng, ctx.n(12, 60)) + gen_opt_cases(rng, ctx.n(28, 140))
    obs = run_opt_cases(cases, 'C14s')
    hist = {}
    for ci, (c, o) in enumerate(zip(cases, obs)):
        if 'ok' in o:
            found += [w for w in opt_oracle(c, o['ok'], set(), ci, hist) if w.get('violates_property')]
    cases = gen_multi_cases(rng, ctx.n(18, 72))
    obs = vlib.run_python(HARNESS, {'mode': 'multi', 'cases': cases}, timeout=1500)
    for ci, (c, o) in enumerate(zip(cases, obs)):
        if 'ok' in o:
            found += multi_oracle(c, o['ok'], ci, {})
    # unexplained violations first
    found.sort(key=lambda w: 0 if not w.get('explained') else 1)
    return found[:12] or None


def _handle_oracle(cases, obs):
    for ci, (c, o) in enumerate(zip(cases, obs)):
        if 'err' in o:
            continue
        o = o['ok']
        for v, got in zip(c['vars'], o['values0']):
            raw = raw_of(c['lens'], (v['type'], v['surf'], v.get('a', 0), v.get('b', 0)))
            if raw is None:
                continue
            want = py_scale(v, raw) if v.get('scaled', True) else raw
            if not near(hx(got), want):
                yield {'case': ci, 'clause': 'value-read', 'route': c['lens'].get('route', 'direct'), 'var': v, 'value_read': hx(got),
                       'expected_from_prescription': want, 'violates_property': True, 'replay': {'mode': 'handle', 'case': c}}
                break
        prev = [hx(x) for x in o['values0']]
        for si, ((i, x), st) in enumerate(zip(c['ops'], o['steps'])):
            cur = [hx(v) for v in st['values']]
            okset = near(cur[i], hx(x))
            okoth = all(near(cur[j], prev[j]) for j in range(len(cur)) if j != i and coord_of(c['vars'][j]) != coord_of(c['vars'][i]))
            if not (okset and okoth):
                yield {'case': ci, 'clause': 'set-get', 'var': c['vars'][i], 'set': hx(x), 'read': cur[i],
                       'violates_property': True, 'replay': {'mode': 'handle', 'case': c}}
            prev = cur
        for vi, (v, b) in enumerate(zip(c['vars'], o['bounds'])):
            got = (hx(b[0]), hx(b[1]))
            want = spec_bounds(v)
            if not (near(got[0], want[0]) and near(got[1], want[1])):
                expl = 'unscaled-bounds-scaled' if (not v.get('scaled', True) and v['type'] in NONID and near(got[0], impl_bounds(v)[0])
                                                    and near(got[1], impl_bounds(v)[1])) else None
                yield {'case': ci, 'clause': 'bounds-units', 'var': v, 'bounds': got, 'expected': want, 'explained': expl,
                       'violates_property': True, 'replay': {'mode': 'handle', 'case': {**c, 'vars': [v], 'ops': [], 'coords': [coord_of(v)]}}}


def check_merit_oracle(cases, obs):
    for ci, (c, o) in enumerate(zip(cases, obs)):
        if 'err' in o:
            continue
        o = o['ok']
        vals = [hx(v) for v in o['values']]
        terms = [(op['weight'] * (v - op['target'])) ** 2 for op, v in zip(c['ops'], vals)]
        want = math.fsum(terms) if all(math.isfinite(t) for t in terms) else sum(terms)
        wantf = 1e10 if math.isnan(want) else want
        if not near(hx(o['sum_squared']), want, 1e-12) or not near(hx(o['_fun']), wantf, 1e-7):
            yield {'case': ci, 'clause': 'merit', 'sum_squared': hx(o['sum_squared']), 'expected': want, '_fun': hx(o['_fun']),
                   'violates_property': True, 'replay': {'mode': 'merit', 'case': c}}


# ---------------------------------------------------------------------------------------------
# known findings
# ---------------------------------------------------------------------------------------------
def matches_finding(w, f):
    m = f.get('match', {})
    return bool(w.get('explained')) and w.get('explained') == m.get('mechanism') and w.get('clause') in m.get('clauses', [])


def replay_finding(ctx, f):
    m = f.get('match', {})
    rp = m.get('replay')
    if not rp:
        return None
    mode, case = rp['mode'], rp['case']
    if mode == 'handle':
        obs = vlib.run_python(HARNESS, {'mode': 'handle', 'cases': [case]})
        ws = list(_handle_oracle([case], obs))
    else:
        obs = run_opt_cases([case], 'C14r')
        ws = []
        if 'ok' in obs[0]:
            ws = opt_oracle(case, obs[0]['ok'], set(), 0, {})
    return any(w.get('violates_property') and matches_finding(w, f) for w in ws)


def broken_explained(b, known, witnesses):
    return False

"""C09 - the reported OPD is the path difference to the chief-ray reference sphere."""
import math
import types

from props.common import BASE_TRUSTED

PROP = 'C09'
KERNELS = ['wf_ref_sphere', 'wf_image_to_xp', 'wf_get_path_length', 'wf_tilt_xy', 'wf_tilt_dist', 'wf_field_data',
           'wf_opd_rms', 'wf_rms_vs_field']
THEOREMS = ['C09_' + n for n in (
    'ref_sphere_through_pupil ref_sphere_needs_single_ray image_to_xp_on_sphere image_to_xp_branch '
    'image_to_xp_inside image_to_xp_chief path_length_is_path_to_sphere tilt_dist_is_tilt_xy '
    'tilt_difference_angle launch_parallel launch_offset launch_dir_y tilt_matches_launch '
    'finite_object_common_point height_fields_no_correction chief_sample_zero field_data_from_samples '
    'field_data_chief_zero opd_definition_infinite opd_definition_finite '
    'sample_points_on_reference_sphere rms_is_rms rms_nonneg rms_zero_iff fan_is_slice '
    'opd_difference_is_mean_abs_dev opd_difference_nonneg opd_difference_constant image_to_xp_miss '
    'image_to_xp_finite_sound generate_data_entry rms_vs_field_table rms_vs_field_shape launch_distance_positive').split()]
COQ_TARGETS = ['Model/M_C09.vo', 'Model/Trace.vo', 'Model/Paraxial.vo']
TRUSTED_BASE = BASE_TRUSTED + [
    'translator extension tools/py2coq_c09.py (record rows x[-1, :], .size, (Hx, Hy) pairs, wavefront data cells, '
    'np.mean, a**2 on arrays, np.zeros((n, m)) / tbl[i, j] = v), validated like the base translator',
    'hand model coq/Model/M_C09.v (ray launch for a non-telecentric object space, the pupil scalings of Optic.trace / '
    'trace_generic, Wavefront._generate_data as chief-alone + batch per field and wavelength, OPDFan slices, '
    'OPD_difference tail) on top of Model/Trace.v and Model/Paraxial.v: tied by correspondence only',
    'specification coq/Spec/S_C09.v (spheres, plane-wave offset, optical path to the sphere, RMS, mean absolute deviation)',
    'implementation-level oracle tools/c09lib.py (paths recomputed from recorded intersection points, exit pupil from '
    'matrix optics for plane/conic centred lenses and from optiland.paraxial (C04) otherwise, both sphere intersections accepted)',
    'documented Gaussian-quadrature samples / weights of the OPD-difference operand: literal table in tools/c09lib.py (GQ_RADII, GQ_WEIGHTS, '
    '6 w on the single axial arm, 2 w on each of the three off-axis arms), tied to Gauss-Legendre nodes / weights to 5e-5 on every run',
    'modelled, not verified: material indices and vignetting-factor interpolation are inputs of the model (C18, C03)',
    'the model traces every ray alone; through iteratively intersected surfaces the batch-wide Newton stopping rule of the '
    'implementation differs by at most the stopping tolerance (factory default 1e-6 mm): comparisons on such lenses allow '
    '4*sum(tol)/wavelength waves',
]
RULE = ('kernel cases: seeded record columns of 2-12 surfaces, sphere centres near the image point (inside, outside and on the '
        'sphere; misses ~8%), batches of 1-3 rays, both field types, field/pupil coordinates in [-1,1]; lists of 1-60 OPD samples; '
        'tables up to 6 fields x 3 wavelengths.  System cases: seeded lenses of 1-12 surfaces (planes, conics, aspheres, '
        'polynomial/Chebyshev, mirrors, decentres, apertures, coatings, catalogue/ideal media, image/object media other than air, '
        'non-positive field sets, vignetting factors), infinite+angle and finite+height, all 8 pupil distributions, real and '
        'virtual exit pupils, curved image surfaces (25 %); multi-wavelength calls on dispersive catalogue-glass lenses with off-axis '
        'fields (explicit wavelength list in both orders, \'all\', OPDFan, RmsWavefrontErrorVsField): every (field, wavelength) cell '
        'against the oracle and the model generate_data, per-wavelength results independent of the list order; '
        'lossy lenses (coating T<1 / clipping RadialAperture / absorbing glass, intensities in [0,1)): OPD, ZernikeOPD, OPDFan, Wavefront, '
        'RmsWavefrontErrorVsField objects queried through every public call in shuffled order with repeats, re-compared with the oracle after each step; '
        'dispersive object-space media (AbbeMaterial / catalogue glass on surface 0, infinite object, off-axis, non-primary wavelengths); '
        'construction histories x routes (fields entered before set_field_type, field type changed after the fields, settings repeated; '
        'ready-made Surface objects, reused Optic after reset(), to_dict/from_dict once and twice, save/load file): fixed corpus of 5 lenses through '
        'all 24 combinations, random lenses through 3 random ones, off-axis OPD against the oracle and against the plainly built lens; '
        'OPD-difference operand on its documented Gaussian-quadrature samples and weights (1-6 rings, axial field: 1 arm, otherwise 3 arms) against '
        'the oracle reduced over ALL samples: fixed corpus (every sample arrives / outermost ring misses a strongly curved surface / outermost ring '
        'totally reflected; infinite and finite objects), random lenses at their own aperture and widened until some but not all samples fail; '
        'non-trivial = finite reported OPD on a distinct (lens, field, wavelength, distribution)')
PARTIAL = [
    'the optical path recorded by the trace (sum of n*length) is C02\'s theorem, here a hypothesis of the model (ropd)',
    'exact zero for the chief ray is proved over the reals (and holds bit-for-bit in binary64 through closed-form surfaces: '
    'checked by the oracle); through Newton-iterated surfaces it holds to the stopping tolerance only',
    'OPD_difference: the distribution / weight selection (GaussianQuadrature symmetric or not) is an input of the hand model; '
    'that RmsWavefrontErrorVsField and OPDFan hand their documented fields / cross distribution to Wavefront is checked by '
    'correspondence (rms_fields, cross, linspace models), not proved',
    'x fields and finite objects with angular fields are outside the property\'s quantifier and are not checked '
    '(observed: the x tilt term has the opposite sign of the launch; a point source gets a plane-wave correction)',
]

FINDING_IDS = ['tilt-ignores-vignetting', 'image-space-index', 'object-space-index', 'signed-max-y-field']


# --------------------------------------------------------------------------
# kernels against the Python functions they were translated from
# --------------------------------------------------------------------------
def _hex(v):
    import numpy as np
    return float(np.ravel(v)[0]).hex()


def _fake_optic(cols, nrays, rng_fill, extra=None):
    """optic whose surface_group holds (surfaces, nrays) record arrays with the case's ray in column 0"""
    import numpy as np
    sg = types.SimpleNamespace()
    for k, col in cols.items():
        a = np.empty((len(col), nrays))
        a[:, 0] = col
        for j in range(1, nrays):
            a[:, j] = [c + rng_fill() for c in col]
        setattr(sg, k, a)
    o = types.SimpleNamespace(surface_group=sg)
    for k, v in (extra or {}).items():
        setattr(o, k, v)
    return o


def kernel_cases(ctx):
    """every case is built as a dict {input path: value} and ordered by the kernel's manifest, so the same
    generator serves the code before and after the proposed fixes (which add inputs: media indices,
    vignetting factors, fields.max_field)"""
    import inspect
    import warnings
    import numpy as np
    warnings.simplefilter('ignore')
    np.seterr(all='ignore')
    from optiland.wavefront import Wavefront, OPD
    from optiland.analysis.rms_vs_field import RmsWavefrontErrorVsField
    g = ctx.gen
    n = ctx.n(250, 2500)
    fill = lambda: g.uni(-0.5, 0.5)
    SG = 'self.optic.surface_group.'

    def ordered(kname, vals):
        man = ctx.manifests.get(kname)
        if man is None:
            return []
        return [vals[i['path']] for i in man['inputs']]

    def has_param(fn, name):
        return name in inspect.signature(fn).parameters

    def column(last, ns):
        return [g.uni(-30, 30) for _ in range(ns - 1)] + [last]

    def geometry(i):
        """image point, direction, sphere centre/radius: inside / outside / on the sphere, some misses"""
        c = [g.uni(-3, 3), g.uni(-3, 3), g.uni(40, 90)]
        R = g.uni(20, 120)
        mode = i % 12
        off = g.uni(0, 0.5) if mode < 9 else (g.uni(1.2, 3.0) * R if mode < 11 else 0.0)
        u = g.unit3()
        p = [c[k] + off * u[k] for k in range(3)]
        d = g.unit3()
        if mode == 10:        # outside and pointing away sideways: misses
            d = [u[1], -u[0], 0.0] if abs(u[0]) + abs(u[1]) > 1e-3 else [1.0, 0.0, 0.0]
            nn = math.sqrt(sum(x * x for x in d))
            d = [x / nn for x in d]
        if i % 5 == 0:
            d = [-x for x in d]
        return p, d, c, R

    def mkwf(cls=Wavefront):
        return object.__new__(cls)

    def media(n_img, n_obj):
        return dict(image_surface=types.SimpleNamespace(material_pre=types.SimpleNamespace(n=lambda w: n_img)),
                    object_surface=types.SimpleNamespace(material_post=types.SimpleNamespace(n=lambda w: n_obj)))

    # --- _get_reference_sphere
    cases, py = [], []
    for i in range(n):
        ns = g.r.randint(2, 12)
        nr = 1 if i % 6 else g.r.choice([2, 3, 5])
        xc, yc, zc, pz = g.uni(-5, 5), g.uni(-5, 5), g.uni(30, 120), g.uni(-80, 200)
        cols = {'x': column(xc, ns), 'y': column(yc, ns), 'z': column(zc, ns)}
        wf = mkwf()
        wf.optic = _fake_optic(cols, nr, fill)
        cases.append(ordered('wf_ref_sphere', {'pupil_z': pz, SG + 'x': cols['x'], 'nrays': nr, SG + 'y': cols['y'],
                                               SG + 'z': cols['z']}))
        try:
            r = wf._get_reference_sphere(pz)
            py.append({'ok': [_hex(v) for v in r]})
        except Exception as e:   # noqa
            py.append({'err': type(e).__name__})
    yield 'wf_ref_sphere', cases, {'pyres': py}

    # --- _opd_image_to_xp and _get_path_length
    cases_t, py_t, cases_p, py_p = [], [], [], []
    for i in range(n):
        ns = g.r.randint(2, 12)
        nr = g.r.choice([1, 1, 2, 3])
        p, d, c, R = geometry(i)
        n_img = g.r.choice([1.0, 1.0, g.uni(1.0, 1.8), -1.0])
        w = g.r.choice([0.4861, 0.55, 0.6563])
        cols = {'x': column(p[0], ns), 'y': column(p[1], ns), 'z': column(p[2], ns),
                'L': column(d[0], ns), 'M': column(d[1], ns), 'N': column(d[2], ns),
                'opd': sorted(column(g.uni(50, 200), ns))}
        wf = mkwf()
        wf.optic = _fake_optic(cols, nr, lambda: g.uni(-0.01, 0.01), media(n_img, 1.0))
        args = [np.array([c[0]]), np.array([c[1]]), np.array([c[2]]), np.array([R])]
        vals = {'xc': c[0], 'yc': c[1], 'zc': c[2], 'R': R, 'r': R, 'wavelength': w,
                'self.optic.image_surface.material_pre.n()': n_img}
        vals.update({SG + k: cols[k] for k in cols})
        cases_t.append(ordered('wf_image_to_xp', vals))
        cases_p.append(ordered('wf_get_path_length', vals))
        pargs = args + ([w] if has_param(Wavefront._get_path_length, 'wavelength') else [])
        for lst, fn, aa in ((py_t, wf._opd_image_to_xp, args), (py_p, wf._get_path_length, pargs)):
            try:
                lst.append({'ok': [_hex(fn(*aa))]})
            except Exception as e:   # noqa
                lst.append({'err': type(e).__name__})
    yield 'wf_image_to_xp', cases_t, {'pyres': py_t, 'tol': 1e-12}
    yield 'wf_get_path_length', cases_p, {'pyres': py_p, 'tol': 1e-12}

    # --- _correct_tilt in both call forms, and _generate_field_data after the trace
    def tilt_optic(ft, maxx, maxy, maxf, epd, vx, vy):
        return dict(field_type=ft,
                    fields=types.SimpleNamespace(max_x_field=maxx, max_y_field=maxy, max_field=maxf,
                                                 get_vig_factor=lambda Hx, Hy: (vx, vy)),
                    paraxial=types.SimpleNamespace(EPD=lambda: epd))
    tilt_kw = has_param(Wavefront._correct_tilt, 'wavelength')
    cases_a, py_a, cases_b, py_b, cases_f, py_f = [], [], [], [], [], []
    for i in range(n):
        ft = 'angle' if i % 4 else 'object_height'
        maxx = g.r.choice([0.0, g.uni(0, 20)])
        maxy = g.r.choice([0.0, g.uni(-20, 30), g.uni(1, 30)])
        maxf = math.hypot(maxx, maxy)
        epd = g.uni(1, 30)
        vx, vy = g.r.choice([(0.0, 0.0), (g.uni(0, 0.5), g.uni(0, 0.5))])
        n_obj = g.r.choice([1.0, 1.0, g.uni(1.0, 1.6)])
        n_img = g.r.choice([1.0, 1.0, g.uni(1.0, 1.8)])
        f0 = g.r.choice([0.0, g.uni(-1, 1)])
        f1 = g.r.choice([0.0, 1.0, g.uni(-1, 1)])
        opd = g.uni(50, 300)
        x, y = g.uni(-1, 1), g.uni(-1, 1)
        if i % 9 == 0:
            x, y = 0.0, 0.0
        w = g.r.choice([0.4861, 0.55, 0.5876, 0.6563, g.uni(0.4, 1.6)])
        kw = {'wavelength': w} if tilt_kw else {}
        wf = mkwf()
        wf.optic = types.SimpleNamespace(**tilt_optic(ft, maxx, maxy, maxf, epd, vx, vy), **media(n_img, n_obj))
        nr = g.r.choice([1, 2, 3])
        wf.distribution = types.SimpleNamespace(x=np.array([x] + [g.uni(-1, 1) for _ in range(nr - 1)]),
                                                y=np.array([y] + [g.uni(-1, 1) for _ in range(nr - 1)]))
        tv = {'opd': opd, 'x': x, 'y': y, 'self.optic.field_type': ft, 'field.0': f0, 'field.1': f1,
              'self.optic.fields.max_x_field': maxx, 'self.optic.fields.max_y_field': maxy,
              'self.optic.fields.max_field': maxf, 'self.optic.fields.get_vig_factor().0': vx,
              'self.optic.fields.get_vig_factor().1': vy, 'self.distribution.x': x, 'self.distribution.y': y,
              'self.optic.paraxial.EPD()': epd, 'self.optic.object_surface.material_post.n()': n_obj,
              'self.optic.image_surface.material_pre.n()': n_img, 'wavelength': w}
        cases_a.append(ordered('wf_tilt_xy', tv))
        py_a.append({'ok': [_hex(wf._correct_tilt((f0, f1), np.array([opd]), x=x, y=y, **kw))]})
        cases_b.append(ordered('wf_tilt_dist', tv))
        py_b.append({'ok': [_hex(wf._correct_tilt((f0, f1), np.full(nr, opd), **kw))]})
        # field data
        ns = g.r.randint(2, 10)
        p, d, c, R = geometry(i)
        cols = {'x': column(p[0], ns), 'y': column(p[1], ns), 'z': column(p[2], ns),
                'L': column(d[0], ns), 'M': column(d[1], ns), 'N': column(d[2], ns),
                'opd': sorted(column(g.uni(50, 200), ns)), 'intensity': column(g.uni(0, 1), ns)}
        wf2 = mkwf()
        wf2.optic = _fake_optic(cols, nr, lambda: 0.0, dict(tilt_optic(ft, maxx, maxy, maxf, epd, vx, vy),
                                                            trace=lambda *a, **k: None, **media(n_img, n_obj)))
        wf2.distribution = wf.distribution
        ref = g.uni(50, 200)
        fv = dict(tv)
        fv.update({'opd_ref': ref, 'xc': c[0], 'yc': c[1], 'zc': c[2], 'R': R})
        fv.update({SG + k: cols[k] for k in cols})
        cases_f.append(ordered('wf_field_data', fv))
        try:
            r = wf2._generate_field_data((f0, f1), w, np.array([ref]), np.array([c[0]]), np.array([c[1]]),
                                         np.array([c[2]]), np.array([R]))
            py_f.append({'ok': [_hex(r[0]), _hex(r[1])]})
        except Exception as e:   # noqa
            py_f.append({'err': type(e).__name__})
    yield 'wf_tilt_xy', cases_a, {'pyres': py_a, 'tol': 1e-13}
    yield 'wf_tilt_dist', cases_b, {'pyres': py_b, 'tol': 1e-13}
    yield 'wf_field_data', cases_f, {'pyres': py_f, 'tol': 1e-11}

    # --- OPD.rms and RmsWavefrontErrorVsField._rms_wavefront_error
    cases_r, py_r, cases_v, py_v = [], [], [], []
    for i in range(ctx.n(120, 800)):
        m = g.r.choice([1, 2, 3, 7, 19, 37, 60])
        sc = g.r.choice([1e-3, 1.0, 50.0])
        opd = [g.uni(-1, 1) * sc for _ in range(m)]
        inten = [g.r.choice([0.0, 1.0, g.uni(0, 1)]) for _ in range(m)]
        o = mkwf(OPD)
        o.data = [[(np.array(opd), np.array(inten))]]
        cases_r.append(ordered('wf_opd_rms', {'self.data': [[(opd, inten)]]}))
        py_r.append({'ok': [_hex(o.rms())]})
        nf, nw = g.r.randint(1, 6), g.r.randint(1, 3)
        data = [[([g.uni(-1, 1) * sc for _ in range(m)], [1.0] * m) for _ in range(nw)] for _ in range(nf)]
        rv = mkwf(RmsWavefrontErrorVsField)
        rv.num_fields = nf
        rv.wavelengths = [0.45 + 0.1 * j for j in range(nw)]
        rv.data = [[(np.array(a), np.array(b)) for a, b in row] for row in data]
        cases_v.append(ordered('wf_rms_vs_field', {'self.num_fields': nf, 'self.wavelengths': rv.wavelengths,
                                                   'self.data': data}))
        py_v.append({'ok': [[[float(v).hex() for v in row] for row in rv._rms_wavefront_error()]]})
    yield 'wf_opd_rms', cases_r, {'pyres': py_r, 'tol': 1e-13}
    yield 'wf_rms_vs_field', cases_v, {'pyres': py_v, 'tol': 1e-13}


# --------------------------------------------------------------------------
# system level: Model/M_C09.v and the oracle against the implementation
# --------------------------------------------------------------------------
def _cases(ctx, nl, seed_mul=29, per_lens=2):
    import random
    import warnings
    import numpy as np
    import lensgen
    import c09lib
    warnings.simplefilter('ignore')
    np.seterr(all='ignore')
    rng = random.Random(ctx.seed * seed_mul + 9)
    cases = []
    hist = {'lenses': 0, 'build_errors': {}, 'run_errors': {}, 'distributions': {}, 'infinite': 0, 'finite': 0,
            'virtual_exit_pupil': 0, 'mirrors': 0, 'iterated_surfaces': 0, 'vignetted_fields': 0,
            'image_medium': 0, 'object_medium': 0, 'chief_lost': 0}
    for li in range(nl):
        spec = c09lib.gen_spec(rng)
        try:
            o = c09lib.build(spec)
        except Exception as e:   # noqa
            hist['build_errors'][type(e).__name__] = hist['build_errors'].get(type(e).__name__, 0) + 1
            continue
        hist['lenses'] += 1
        for _ in range(per_lens):
            fidx = rng.randrange(len(spec['fields']))
            w = rng.choice(spec['wavelengths'])[0]
            dn = rng.choice(c09lib.DISTS)
            n = rng.choice([1, 2, 3, 4]) if dn in ('hexapolar', 'gaussian_quad') else rng.choice([3, 4, 5, 8, 9])
            try:
                c = c09lib.make_case(spec, o, fidx, w, dn, n, seed=li)
            except Exception as e:   # noqa
                hist['run_errors'][type(e).__name__] = hist['run_errors'].get(type(e).__name__, 0) + 1
                continue
            if not all(math.isfinite(v) for v in c['chief'][-1][:6]):
                hist['chief_lost'] += 1       # no reference sphere: nothing is reported (all NaN)
                continue
            hist['distributions'][dn] = hist['distributions'].get(dn, 0) + 1
            hist['infinite' if c['infinite'] else 'finite'] += 1
            hist['virtual_exit_pupil'] += int(c['xpl'] > 0)
            hist['mirrors'] += int(any(s['refl'] for s in c['surfs']))
            hist['iterated_surfaces'] += int(any(s['shape'][0] in ('even', 'poly', 'cheb') for s in c['surfs']))
            hist['vignetted_fields'] += int(c['vx'] != 0 or c['vy'] != 0)
            hist['image_medium'] += int(abs(c['surfs'][-1]['n1']) != 1.0)
            hist['object_medium'] += int(abs(c['surfs'][0]['n1']) != 1.0)
            cases.append(c)
    return cases, hist


def _derived_checks(ctx):
    """OPDFan / OPD / RmsWavefrontErrorVsField / OPD_difference against the model functions evaluated in Coq on
    the Wavefront data of the same lens (and the data against the oracle, so that the chain ends in the property)"""
    import random
    import warnings
    import numpy as np
    import lensgen
    import c09lib
    import vlib
    warnings.simplefilter('ignore')
    from optiland.wavefront import Wavefront, OPDFan, OPD
    from optiland.analysis.rms_vs_field import RmsWavefrontErrorVsField
    from optiland.optimization.operand.ray import RayOperand
    from optiland.distribution import GaussianQuadrature
    rng = random.Random(ctx.seed * 31 + 9)
    fh, fl = vlib.fhex, vlib.flist
    lines, keys, bad = [], [], []
    nl = ctx.n(6, 40)
    done = 0
    tries = 0
    while done < nl and tries < 10 * nl:
        tries += 1
        spec = c09lib.gen_spec(rng, exotic=False)
        for f in spec['fields']:
            f[2] = f[3] = 0.0
        try:
            o = c09lib.build(spec)
            w = spec['wavelengths'][0][0]
            H = o.fields.get_field_coords()[-1]
            H = (float(H[0]), float(H[1]))
            n = rng.choice([3, 4, 7])
            fan = OPDFan(o, fields=[H], wavelengths=[w], num_rays=n)
            ref = Wavefront(o, fields=[H], wavelengths=[w], num_rays=n, distribution='cross')
            opd = OPD(o, H, w, num_rings=rng.choice([1, 2, 3]))
            nf = rng.choice([2, 3, 5])
            rvf = RmsWavefrontErrorVsField(o, num_fields=nf, num_rays=rng.choice([1, 2]))
            nr = rng.choice([1, 2, 3, 4])
            od = float(RayOperand.OPD_difference(o, H[0], H[1], nr, w))
            sym = (H[0] == 0 and H[1] == 0)
            gq = GaussianQuadrature(is_symmetric=sym)
            wts = gq.get_weights(nr) if sym else np.repeat(gq.get_weights(nr), 3)
            gq.generate_points(num_rings=nr)
            wfq = Wavefront(o, [H], [w], nr, gq)
        except Exception as e:   # noqa
            continue
        d_fan = [float(v) for v in np.ravel(fan.data[0][0][0])]
        if not all(math.isfinite(v) for v in d_fan + [od, float(opd.rms())]):
            continue
        done += 1
        # fan: data is the Wavefront data on the cross distribution; view() plots data[:n] against Py and data[n:] against Px
        px = [float(v) for v in fan.pupil_coord]
        lines.append(f'close_list {fh(1e-9)} {fl(d_fan)} {fl([float(v) for v in np.ravel(ref.data[0][0][0])])}')
        keys.append(('OPDFan.data == Wavefront(cross).data', spec))
        dist = '[' + '; '.join(f'({fh(a)}, {fh(b)})' for a, b in zip(fan.distribution.x, fan.distribution.y)) + ']'
        lines.append(f'(let cr := cross (O:=FOps) {n}%nat in close_list {fh(1e-12)} (map fst cr ++ map snd cr) '
                     f'(map fst {dist} ++ map snd {dist})) && close_list {fh(1e-12)} (linspace (O:=FOps) (-1) 1 {n}%nat) {fl(px)}')
        keys.append(('cross distribution / pupil_coord == model', spec))
        # OPD.rms through the regenerated kernel
        d_opd = [float(v) for v in np.ravel(opd.data[0][0][0])]
        i_opd = [float(v) for v in np.ravel(opd.data[0][0][1])]
        lines.append(f'close {fh(1e-12)} (k_wf_opd_rms FOps [[({fl(d_opd)}, {fl(i_opd)})]]) {fh(float(opd.rms()))}')
        keys.append(('OPD.rms', spec))
        # rms vs field: the fields are (0, linspace(0,1,nf)); entries = kernel on the data; data = Wavefront on those fields
        tbl = [[float(v) for v in row] for row in rvf._wavefront_error]
        data = '[' + '; '.join('[' + '; '.join(f'({fl(np.ravel(c[0]))}, {fl(np.ravel(c[1]))})' for c in row) + ']'
                               for row in rvf.data) + ']'
        lines.append(f'close_list {fh(1e-12)} (List.concat (k_wf_rms_vs_field FOps {nf}%Z {fl(rvf.wavelengths)} {data})) '
                     f'{fl([v for r in tbl for v in r])}')
        keys.append(('RmsWavefrontErrorVsField table', spec))
        flds = [(float(a), float(b)) for a, b in rvf.fields]
        lines.append(f'(let rf := rms_fields (O:=FOps) {nf}%nat in close_list {fh(1e-12)} (map fst rf ++ map snd rf) '
                     f'{fl([a for a, _ in flds] + [b for _, b in flds])})')
        keys.append(('RmsWavefrontErrorVsField fields', spec))
        wfall = Wavefront(o, fields=rvf.fields, wavelengths=rvf.wavelengths, num_rays=rvf.num_rays,
                          distribution=rvf.distribution)
        same = all(np.allclose(a[0], b[0], rtol=0, atol=1e-9, equal_nan=True)
                   for ra, rb in zip(rvf.data, wfall.data) for a, b in zip(ra, rb))
        lines.append('true' if same else 'false')
        keys.append(('RmsWavefrontErrorVsField.data == Wavefront.data on its fields', spec))
        # OPD difference
        d_q = [float(v) for v in np.ravel(wfq.data[0][0][0])]
        lines.append(f'close {fh(1e-11)} (opd_difference (O:=FOps) {fl(d_q)} {fl([float(v) for v in wts])}) {fh(od)}')
        keys.append(('RayOperand.OPD_difference', spec))
    # Wavefront._generate_data as a whole: 'all' fields x 'all' wavelengths against the model's generate_data
    defs = []
    gd = 0
    tries = 0
    import paraxcorr
    while gd < ctx.n(5, 30) and tries < 300:
        tries += 1
        spec = c09lib.gen_dispersive_spec(rng) if tries % 3 else c09lib.gen_spec(rng)
        if len(spec['fields']) < 2 and len(spec['wavelengths']) < 2:
            continue
        try:
            o = c09lib.build(spec)
            dist = c09lib.make_distribution(rng.choice(['hexapolar', 'cross', 'ring']), 2)
            order = [float(w_) for w_, _ in spec['wavelengths']]
            if tries % 2:
                order = order[::-1]          # explicit list in the other order
                wf = Wavefront(o, 'all', order, num_rays=2, distribution=dist)
            else:
                wf = Wavefront(o, 'all', 'all', num_rays=2, distribution=dist)
        except Exception:   # noqa
            continue
        flat = [float(v) for row in wf.data for cell in row for v in np.ravel(cell[0])]
        if not all(math.isfinite(v) for v in flat):
            continue
        tag = f'g{gd}'
        wls = [float(w_) for w_ in wf.wavelengths]
        case0 = dict(spec=spec, ps=paraxcorr.psurfs(o), surfs=lensgen.model_surfaces(o, wls[0]),
                     max_field=float(o.fields.max_field), max_x_field=float(o.fields.max_x_field),
                     max_y_field=float(o.fields.max_y_field))
        d0 = c09lib.coq_case_defs(tag, case0)
        lens_defs = []
        sel = '[]'
        for k, w_ in reversed(list(enumerate(wls))):
            surfs = '[' + ';\n  '.join(lensgen.coq_surf(s_, fh) for s_ in lensgen.model_surfaces(o, w_)) + ']'
            lens_defs.append(f'Definition l{tag}w{k} := {surfs}.')
            sel = f'(if w_ =? {fh(w_)} then l{tag}w{k} else {sel})'
        defs.append(d0 + '\n'.join(lens_defs) + f'\nDefinition lf{tag} (w_ : float) := {sel}.\n')
        fs = []
        for (Hx, Hy) in wf.fields:
            vx, vy = o.fields.get_vig_factor(Hx, Hy)
            fs.append(f'mkFS (O:=FOps) {fh(Hx)} {fh(Hy)} {fh(vx)} {fh(vy)}')
        dpts = '[' + '; '.join(f'({fh(a)}, {fh(b)})' for a, b in zip(dist.x, dist.y)) + ']'
        slack = max(c09lib.newton_slack({'surfs': lensgen.model_surfaces(o, w_), 'w': w_}) for w_ in wls)
        lines.append(f'match generate_data (O:=FOps) lf{tag} p{tag} wc{tag} lc{tag} [{"; ".join(fs)}] {fl(wls)} {dpts} with '
                     f'None => false | Some d_ => close_list {fh(1e-7 + slack)} '
                     f'(List.concat (map (fun row_ => List.concat (map fst row_)) d_)) {fl(flat)} end')
        keys.append(('Wavefront(all fields, all wavelengths).data == model generate_data', spec))
        gd += 1
    body = '\n'.join(defs) + '\nEval vm_compute in (report [\n' + ';\n'.join(lines) + '\n]).\n'
    res = c09lib.run_cases_fresh('C09derived', [body])[0]
    if res[0] == 'error':
        raise RuntimeError(res[1])
    for i in res[2]:
        bad.append({'what': keys[i][0], 'spec': keys[i][1], 'violates_property': False})
    if res[1] > len(res[2]):
        bad.append({'what': f'{res[1] - len(res[2])} further derived-quantity mismatches', 'violates_property': False})
    return res[0], done, bad


def _multi_checks(ctx, nl, seed_mul=43):
    """multi-wavelength calls on dispersive lenses with off-axis fields: Wavefront with an explicit wavelength
    list in both orders and with 'all', OPDFan('all', 'all'), RmsWavefrontErrorVsField('all'); every
    (field, wavelength) cell against the oracle, and the per-wavelength results against each other
    (they must not depend on the order / company of the wavelengths).  Returns (cells, lenses, witnesses, hist)"""
    import random
    import warnings
    import numpy as np
    import lensgen
    import c09lib
    warnings.simplefilter('ignore')
    np.seterr(all='ignore')
    from optiland.wavefront import Wavefront, OPDFan
    from optiland.analysis.rms_vs_field import RmsWavefrontErrorVsField
    rng = random.Random(ctx.seed * seed_mul + 9)
    hist = {'lenses': 0, 'cells': 0, 'curved_image': 0, 'calls': {}, 'errors': {}, 'max_lateral_colour_mm': 0.0}
    wits = []
    cells = 0
    tries = 0
    while hist['lenses'] < nl and tries < 8 * nl:
        tries += 1
        spec = c09lib.gen_dispersive_spec(rng)
        try:
            o = c09lib.build(spec)
            wls = [float(w_) for w_, _ in spec['wavelengths']]
            fields = [tuple(float(v) for v in H) for H in o.fields.get_field_coords()]
            dn = rng.choice(['hexapolar', 'ring', 'line_y', 'uniform'])
            dist = c09lib.make_distribution(dn, 2 if dn == 'hexapolar' else 5)
            nr = len(dist.x)
            calls = {
                'Wavefront(list)': (Wavefront(o, fields, wls, nr, dist), fields, wls, dist),
                'Wavefront(reversed list)': (Wavefront(o, fields, wls[::-1], nr, dist), fields, wls[::-1], dist),
                "Wavefront('all','all')": (Wavefront(o, 'all', 'all', nr, dist), fields, wls, dist),
            }
            fan = OPDFan(o, 'all', 'all', num_rays=4)
            calls["OPDFan('all','all')"] = (fan, fields, wls, fan.distribution)
            rvf = RmsWavefrontErrorVsField(o, num_fields=3, wavelengths='all', num_rays=2)
            calls["RmsWavefrontErrorVsField('all')"] = (rvf, [tuple(float(v) for v in H) for H in rvf.fields], wls, rvf.distribution)
        except Exception as e:   # noqa
            hist['errors'][type(e).__name__] = hist['errors'].get(type(e).__name__, 0) + 1
            continue
        # lateral colour of the largest field (what makes the per-wavelength spheres differ)
        ys = []
        for w_ in wls:
            o.trace_generic(*fields[-1], Px=0.0, Py=0.0, wavelength=w_)
            ys.append(float(o.surface_group.y[-1, 0]))
        if not all(math.isfinite(v) for v in ys):
            continue
        hist['lenses'] += 1
        hist['curved_image'] += int(bool(spec.get('image_radius')))
        hist['max_lateral_colour_mm'] = max(hist['max_lateral_colour_mm'], max(ys) - min(ys))
        per_cell = {}
        for cname, (obj, flds, ws, dd) in calls.items():
            hist['calls'][cname] = hist['calls'].get(cname, 0) + 1
            for i, H in enumerate(flds):
                for j, w_ in enumerate(ws):
                    try:
                        c = c09lib.case_from_data(spec, o, H, w_, dd, obj.data[i][j][0], obj.data[i][j][1], fidx=i,
                                                  dist_name=cname)
                    except Exception as e:   # noqa
                        hist['errors'][type(e).__name__] = hist['errors'].get(type(e).__name__, 0) + 1
                        continue
                    if not all(math.isfinite(v) for v in c['chief'][-1][:6]):
                        continue
                    cells += 1
                    w = c09lib.oracle_case(c)
                    if w is not None:
                        w['call'] = cname
                        w['wavelength_list'] = ws
                        w['explained_by'] = None
                        wits.append(w)
                    if cname.startswith('Wavefront'):
                        per_cell.setdefault((i, w_), []).append((cname, c['data'], c09lib.newton_slack(c)))
        # the result for a (field, wavelength) must not depend on which other wavelengths were asked for, or in what order
        for (i, w_), lst in per_cell.items():
            ref = lst[0]
            for other in lst[1:]:
                dmax = max((abs(a - b) for a, b in zip(ref[1], other[1]) if math.isfinite(a) and math.isfinite(b)), default=0.0)
                if dmax > 1e-6 + ref[2]:
                    wits.append({'spec': spec, 'derived': 'the OPD of a (field, wavelength) depends on the order of the wavelength list',
                                 'field_index': i, 'wavelength': w_, 'calls': [ref[0], other[0]], 'max_difference_waves': dmax,
                                 'explained_by': None, 'violates_property': True})
    hist['cells'] = cells
    return cells, hist['lenses'], wits, hist


def _lifecycle_checks(ctx, nl, seed_mul=53):
    """the reported values at ANY time of an analysis object's life: OPD, ZernikeOPD, OPDFan, Wavefront and
    RmsWavefrontErrorVsField objects built on lenses with non-unit ray intensities (coatings with T < 1,
    clipping apertures, absorbing glass); every public query (data, rms(), view() in both projections under Agg,
    view_residual(), fit coefficients, the rms table) is run in a shuffled order with repeats, and after EVERY step
    data / rms() / table / coefficients are compared with the independent recomputation from the traced rays.
    Returns (evaluations, lenses, witnesses, histogram)"""
    import random
    import warnings
    import numpy as np
    import matplotlib
    matplotlib.use('Agg')
    import matplotlib.pyplot as plt
    import lensgen
    import c09lib
    warnings.simplefilter('ignore')
    np.seterr(all='ignore')
    from optiland.wavefront import Wavefront, OPDFan, OPD, ZernikeOPD
    from optiland.analysis.rms_vs_field import RmsWavefrontErrorVsField
    rng = random.Random(ctx.seed * seed_mul + 9)
    hist = {'lenses': 0, 'lossy_kinds': {}, 'objects': {}, 'steps': 0, 'queries': {}, 'min_intensity': 1.0,
            'samples_with_intensity_below_1': 0, 'samples_clipped_to_0': 0, 'errors': {}}
    wits = []
    evals = 0
    tries = 0

    def rms_of(v):
        v = np.asarray(v, dtype=float)
        return float(np.sqrt(np.sum(v * v) / v.size))

    def close(a, b, tol):
        if not (math.isfinite(a) and math.isfinite(b)):
            return math.isfinite(a) == math.isfinite(b)
        return abs(a - b) <= tol + 1e-9 * (abs(a) + abs(b))

    while hist['lenses'] < nl and tries < 10 * nl:
        tries += 1
        spec = c09lib.gen_lossy_spec(rng)
        try:
            o = c09lib.build(spec)
            w = float(rng.choice(spec['wavelengths'])[0])
            H = tuple(float(v) for v in o.fields.get_field_coords()[-1])
            rings = rng.choice([2, 3])
            objs = {'OPD': OPD(o, H, w, num_rings=rings),
                    'ZernikeOPD': ZernikeOPD(o, H, w, num_rings=3, zernike_type=rng.choice(['fringe', 'standard', 'noll']),
                                             num_terms=rng.choice([6, 10])),
                    'OPDFan': OPDFan(o, fields=[H], wavelengths=[w], num_rays=5),
                    'Wavefront': Wavefront(o, fields=[H], wavelengths=[w], num_rays=2, distribution='hexapolar'),
                    'RmsWavefrontErrorVsField': RmsWavefrontErrorVsField(o, num_fields=2, wavelengths='all', num_rays=2)}
            # reference values, from traced rays only
            ref = {}
            usable = True
            for name, ob in objs.items():
                cells = []
                flds = [tuple(float(v) for v in f) for f in ob.fields]
                for i, f in enumerate(flds):
                    for j, w_ in enumerate(ob.wavelengths):
                        c = c09lib.case_from_data(spec, o, f, float(w_), ob.distribution, ob.data[i][j][0], ob.data[i][j][1],
                                                  fidx=i, dist_name=name)
                        if not all(math.isfinite(v) for v in c['chief'][-1][:6]):
                            usable = False
                            break
                        exp = c09lib.expected_samples(c)
                        cells.append((i, j, c, exp, c09lib.newton_slack(c)))
                    if not usable:
                        break
                if not usable:
                    break
                ref[name] = cells
            if not usable:
                continue
            zcoef0 = [float(v) for v in objs['ZernikeOPD'].coeffs]
        except Exception as e:   # noqa
            hist['errors'][type(e).__name__] = hist['errors'].get(type(e).__name__, 0) + 1
            continue
        inten = np.concatenate([np.ravel(c['intensity']) for cells in ref.values() for _, _, c, _, _ in cells])
        inten = inten[np.isfinite(inten)]
        if inten.size == 0 or not np.any(inten < 1.0):
            continue                      # the losses did not reach any sample: not the input class of this check
        hist['lenses'] += 1
        for k in spec['lossy']:
            hist['lossy_kinds'][k] = hist['lossy_kinds'].get(k, 0) + 1
        hist['min_intensity'] = min(hist['min_intensity'], float(inten.min()))
        hist['samples_with_intensity_below_1'] += int(np.sum(inten < 1.0))
        hist['samples_clipped_to_0'] += int(np.sum(inten == 0.0))

        def verify(name, history):
            """every observable of object `name` against the recomputation; returns a witness or None"""
            nonlocal evals
            ob = objs[name]
            for (i, j, c, exp, slack) in ref[name]:
                data = [float(v) for v in np.ravel(ob.data[i][j][0])]
                evals += 1
                bad = [k for k, (a, b) in enumerate(zip(data, exp)) if not close(a, b, 1e-6 + slack)]
                if bad:
                    k = bad[0]
                    return {'observable': 'data', 'field': list(c['H']), 'cell_wavelength': c['w'], 'sample': k, 'pupil': list(c['dist'][k]),
                            'intensity': c['intensity'][k], 'reported_waves': data[k], 'expected_waves': exp[k],
                            'bad_samples': len(bad), 'samples': len(data)}
                inow = [float(v) for v in np.ravel(ob.data[i][j][1])]
                if any(not close(a, b, 1e-9) for a, b in zip(inow, c['intensity'])):
                    return {'observable': 'intensity', 'field': list(c['H'])}
            fin = all(math.isfinite(v) for v in ref[name][0][3])
            if name in ('OPD', 'ZernikeOPD') and fin:
                evals += 1
                e = rms_of(ref[name][0][3])
                r = float(ob.rms())
                if not close(r, e, 1e-6 + ref[name][0][4]):
                    return {'observable': 'rms()', 'reported': r, 'expected': e}
            if name == 'ZernikeOPD':
                evals += 1
                cf = [float(v) for v in ob.coeffs]
                if any(not close(a, b, 1e-9) for a, b in zip(cf, zcoef0)):
                    return {'observable': 'coeffs', 'reported': cf[:4], 'at_construction': zcoef0[:4]}
                zz = [float(v) for v in np.ravel(ob.z)]
                if any(not close(a, b, 1e-6 + ref[name][0][4]) for a, b in zip(zz, ref[name][0][3])):
                    return {'observable': 'fitted samples z'}
            if name == 'RmsWavefrontErrorVsField':
                for (i, j, c, exp, slack) in ref[name]:
                    if all(math.isfinite(v) for v in exp):
                        evals += 1
                        r = float(ob._wavefront_error[i][j])
                        r2 = float(ob._rms_wavefront_error()[i][j])
                        e = rms_of(exp)
                        if not close(r, e, 1e-6 + slack) or not close(r2, e, 1e-6 + slack):
                            return {'observable': 'rms-vs-field table', 'field': list(c['H']), 'cell_wavelength': c['w'],
                                    'reported': [r, r2], 'expected': e}
            return None

        queries = {
            'OPD': ['data', 'rms', 'view2d', 'view3d', 'rms', 'view2d'],
            'ZernikeOPD': ['data', 'rms', 'coeffs', 'view2d', 'view3d', 'view_residual', 'rms'],
            'OPDFan': ['data', 'view', 'view'],
            'Wavefront': ['data', 'data'],
            'RmsWavefrontErrorVsField': ['data', 'view', 'table', 'view'],
        }
        for name, ob in objs.items():
            hist['objects'][name] = hist['objects'].get(name, 0) + 1
            seq = list(queries[name])
            rng.shuffle(seq)
            history = ['construct']
            wit = verify(name, history)
            for q in ([] if wit else seq):
                history.append(q)
                hist['steps'] += 1
                hist['queries'][q] = hist['queries'].get(q, 0) + 1
                try:
                    if q == 'data':
                        _ = [np.asarray(cell[0]).sum() for row in ob.data for cell in row]
                    elif q == 'rms':
                        ob.rms()
                    elif q == 'coeffs':
                        _ = ob.coeffs
                    elif q == 'table':
                        ob._rms_wavefront_error()
                    elif q == 'view':
                        ob.view()
                    elif q == 'view2d':
                        ob.view(projection='2d', num_points=24)
                    elif q == 'view3d':
                        ob.view(projection='3d', num_points=24)
                    elif q == 'view_residual':
                        ob.view_residual()
                except Exception as e:   # noqa
                    hist['errors'][q + ':' + type(e).__name__] = hist['errors'].get(q + ':' + type(e).__name__, 0) + 1
                finally:
                    plt.close('all')
                wit = verify(name, history)
                if wit:
                    break
            if wit:
                wit.update({'spec': spec, 'derived': f'{name}: a reported value is no longer the path difference on its pupil samples '
                                                     f'after {history[-1]}', 'object': name, 'H': list(H), 'wavelength': w,
                            'sequence': history, 'explained_by': None, 'violates_property': True})
                wits.append(wit)
    return evals, hist['lenses'], wits, hist


def _route_checks(ctx, nl, seed_mul=61, corpus_combos=None):
    """the same prescription reached through other histories of public calls and other public routes
    (c09lib.build_history): for an off-axis field the OPD the routed object reports is compared (a) with the oracle
    (rays traced on the routed object, indices / exit pupil taken from the plainly built reference lens) and (b) with
    the OPD of the plainly built lens (route independence).  A fixed corpus (c09lib.route_corpus) goes through EVERY
    history x route on every run; seeded random lenses get random combinations.
    Returns (evaluations, lenses, witnesses, histogram)"""
    import random
    import warnings
    import numpy as np
    import lensgen
    import c09lib
    warnings.simplefilter('ignore')
    np.seterr(all='ignore')
    from optiland.wavefront import Wavefront
    rng = random.Random(ctx.seed * seed_mul + 9)
    hist = {'corpus_lenses': 0, 'random_lenses': 0, 'histories': {}, 'routes': {}, 'combinations': 0, 'errors': {},
            'prescription_problems': 0}
    wits = []
    evals = 0

    def one(spec, combos, label):
        nonlocal evals
        try:
            ref = c09lib.build(spec)
            fields = [tuple(float(v) for v in H) for H in ref.fields.get_field_coords()]
            fi = max(range(len(fields)), key=lambda k: abs(fields[k][1]))
            H = fields[fi]
            if H[1] == 0:
                return False
            w = float([w_ for w_, p_ in spec['wavelengths'] if p_][0] if rng.random() < 0.5 else rng.choice(spec['wavelengths'])[0])
            dist = c09lib.make_distribution('hexapolar', 2)
            wf0 = Wavefront(ref, [H], [w], len(dist.x), dist)
            c0 = c09lib.case_from_data(spec, ref, H, w, dist, wf0.data[0][0][0], wf0.data[0][0][1], fidx=fi, dist_name='direct')
            if not all(math.isfinite(v) for v in c0['chief'][-1][:6]) or c09lib.oracle_case(c0) is not None:
                return False          # the plainly built lens is the business of the other checks
        except Exception as e:   # noqa
            hist['errors'][type(e).__name__] = hist['errors'].get(type(e).__name__, 0) + 1
            return False
        slack = c09lib.newton_slack(c0)
        for history, route in combos:
            hist['histories'][history] = hist['histories'].get(history, 0) + 1
            hist['routes'][route] = hist['routes'].get(route, 0) + 1
            hist['combinations'] += 1
            try:
                o = c09lib.build_history(spec, history, route, rng)
                wf = Wavefront(o, [H], [w], len(dist.x), dist)
                c = c09lib.case_from_data(spec, o, H, w, dist, wf.data[0][0][0], wf.data[0][0][1], fidx=fi,
                                          dist_name=f'{history}/{route}')
            except Exception as e:   # noqa
                key = f'{history}/{route}:{type(e).__name__}'
                hist['errors'][key] = hist['errors'].get(key, 0) + 1
                wits.append({'spec': spec, 'lens': label, 'history': history, 'route': route, 'H': list(H), 'wavelength': w,
                             'derived': f'a lens built through {history}/{route} cannot report its OPD: {type(e).__name__}: {str(e)[:120]}',
                             'explained_by': None, 'violates_property': True})
                continue
            # indices and exit pupil from the reference lens (the prescription), rays from the object under test
            c['surfs'], c['ps'], c['xpl'] = c0['surfs'], c0['ps'], c0['xpl']
            evals += 1
            w1 = c09lib.oracle_case(c)
            dmax = max((abs(a - b) for a, b in zip(c['data'], c0['data']) if math.isfinite(a) and math.isfinite(b)), default=0.0)
            nan_diff = any(math.isfinite(a) != math.isfinite(b) for a, b in zip(c['data'], c0['data']))
            if w1 is not None or dmax > 1e-6 + slack or nan_diff:
                pp = []
                try:
                    if not (spec.get('object_material') and spec['object_material'][0] != 'ideal'):
                        pp = lensgen.prescription_problems(spec, o, w)
                except Exception:   # noqa
                    pp = []
                hist['prescription_problems'] += int(bool(pp))
                wit = w1 or {'spec': spec, 'H': list(H), 'wavelength': w, 'violates_property': True}
                wit.update({'lens': label, 'history': history, 'route': route, 'explained_by': None,
                            'field_type_of_object': str(getattr(o, 'field_type', None)), 'field_type_entered': spec['field_type'],
                            'max_difference_from_plain_build_waves': dmax, 'prescription_problems': pp,
                            'derived': f'the OPD reported by the same prescription built through {history}/{route} is not the path difference'})
                wits.append(wit)
        return True

    allc = [(h, r) for h in c09lib.HISTORIES for r in c09lib.ROUTES]
    for spec in c09lib.route_corpus():
        if one(spec, corpus_combos or allc, spec['name']):
            hist['corpus_lenses'] += 1
    tries = 0
    while hist['random_lenses'] < nl and tries < 6 * nl:
        tries += 1
        spec = c09lib.gen_spec(rng, exotic=False)
        spec.pop('object_material', None)
        if len(spec['fields']) < 2:
            m = rng.uniform(2.0, 8.0)
            spec['fields'] = [[0.0, 0.0, 0.0, 0.0], [m, 0.0, 0.0, 0.0]]
        if rng.random() < 0.4:
            lensgen.reorder_fields(spec, rng)
        combos = rng.sample(allc, 3)
        if one(spec, combos, 'random'):
            hist['random_lenses'] += 1
    return evals, hist['corpus_lenses'] + hist['random_lenses'], wits, hist


def _operand_checks(ctx, nl, seed_mul=71):
    """the OPD-difference operand against the property's quantity EVALUATED ON ITS DOCUMENTED SAMPLES: the documented
    Gaussian-quadrature points (c09lib.gq_documented: tabulated radii, 1 arm on axis / 3 arms off axis, weights 6 w / 2 w;
    the table is tied to Gauss-Legendre) are traced, the OPD of every sample comes from the oracle (a sample whose ray does
    not reach the image has no optical path: NaN), the reduction mean|w (d - mean d)| runs over ALL of them.  Lens classes:
    a fixed corpus (every sample arrives / only the outermost ring passes outside a strongly curved surface / only the
    outermost ring is totally reflected; infinite and finite objects) for the axial and the full field, and seeded random
    lenses at their own aperture and with the aperture widened until some but not all samples fail.
    Returns (evaluations, distinct lenses, witnesses, histogram)"""
    import copy
    import random
    import warnings
    import numpy as np
    import c09lib
    warnings.simplefilter('ignore')
    np.seterr(all='ignore')
    rng = random.Random(ctx.seed * seed_mul + 9)
    hist = {'corpus_cases': 0, 'random_cases': 0, 'classes': {}, 'rings': {}, 'axial_field': 0, 'off_axis_field': 0,
            'cases_where_every_sample_arrives': 0, 'cases_where_some_but_not_all_samples_fail': 0, 'cases_where_all_samples_fail': 0,
            'chief_lost': 0, 'failed_samples': 0, 'samples': 0, 'operand_finite': 0, 'operand_nan': 0,
            'widened_random_lenses': 0, 'errors': {}, 'gq_table_vs_gauss_legendre_max_deviation': c09lib.gq_table_deviation()}
    wits = []
    evals = 0
    lenses = 0
    if not hist['gq_table_vs_gauss_legendre_max_deviation'] < 5e-5:
        raise RuntimeError('c09lib: the tabulated Gaussian-quadrature samples are not the Gauss-Legendre rule')

    def one(spec, o, H, w, rings, label, kind):
        nonlocal evals
        try:
            rec, wit = c09lib.operand_case(spec, o, H, w, rings)
        except Exception as e:   # noqa
            key = f'{label}:{type(e).__name__}'
            hist['errors'][key] = hist['errors'].get(key, 0) + 1
            return None
        evals += 1
        hist[kind] += 1
        hist['classes'][label] = hist['classes'].get(label, 0) + 1
        hist['rings'][str(rings)] = hist['rings'].get(str(rings), 0) + 1
        hist['axial_field' if H == (0.0, 0.0) else 'off_axis_field'] += 1
        hist['samples'] += rec['samples']
        hist['failed_samples'] += rec['failed']
        hist['chief_lost'] += int(not rec['chief_ok'])
        hist['cases_where_every_sample_arrives' if rec['failed'] == 0 else
             ('cases_where_all_samples_fail' if rec['failed'] == rec['samples'] else 'cases_where_some_but_not_all_samples_fail')] += 1
        hist['operand_finite' if math.isfinite(rec['operand']) else 'operand_nan'] += 1
        if wit is not None:
            wit['lens_class'] = label
            wits.append(wit)
        return rec

    for spec, rings, label in c09lib.operand_corpus():
        try:
            o = c09lib.build(spec)
        except Exception as e:   # noqa
            hist['errors'][type(e).__name__] = hist['errors'].get(type(e).__name__, 0) + 1
            continue
        lenses += 1
        w = float(spec['wavelengths'][0][0])
        for H in ((0.0, 0.0), (0.0, 1.0)):
            one(spec, o, H, w, rings, label, 'corpus_cases')
    tries = 0
    done = 0
    while done < nl and tries < 6 * nl:
        tries += 1
        spec = c09lib.gen_spec(rng, exotic=False)
        rings = rng.choice([1, 2, 3, 4, 5, 6])
        try:
            o = c09lib.build(spec)
            w = float(rng.choice(spec['wavelengths'])[0])
            H = tuple(float(v) for v in o.fields.get_field_coords()[rng.randrange(len(spec['fields']))])
        except Exception as e:   # noqa
            hist['errors'][type(e).__name__] = hist['errors'].get(type(e).__name__, 0) + 1
            continue
        rec = one(spec, o, H, w, rings, 'random-lens-own-aperture', 'random_cases')
        if rec is None:
            continue
        done += 1
        lenses += 1
        if rec['failed'] == 0 and spec['aperture'][0] == 'EPD' and rings > 1:
            # the same lens with a wider beam: the smallest of a few factors at which some (not all) samples are lost
            for fac in (1.5, 2.2, 3.2, 4.7, 7.0, 10.0):
                s2 = copy.deepcopy(spec)
                s2['aperture'] = ['EPD', spec['aperture'][1] * fac]
                try:
                    o2 = c09lib.build(s2)
                    xs, ys, _ = c09lib.gq_documented(rings, on_axis=(H == (0.0, 0.0)))
                    o2.trace_generic(H[0], H[1], np.array(xs), np.array(ys), w)
                    arrived = np.isfinite(np.ravel(o2.surface_group.x[-1, :]))
                except Exception:   # noqa
                    break
                if 0 < int(np.sum(~arrived)) < len(xs):
                    hist['widened_random_lenses'] += 1
                    one(s2, o2, H, w, rings, 'random-lens-widened-beam', 'random_cases')
                    break
                if not np.any(arrived):
                    break
    return evals, lenses, wits, hist


def system_checks(ctx):
    import c09lib
    cases, hist = _cases(ctx, ctx.n(55, 700))
    res = {'name': 'wavefront-model-and-oracle-vs-implementation', 'n': 0, 'nontrivial': 0, 'histogram': hist,
           'samples': [], 'disagreements': []}
    try:
        ok_data, ok_launch, n = c09lib.run_model(cases, tol=1e-7)
    except RuntimeError as e:
        res['error'] = str(e)
        yield res
    else:
        res['n'] = n + len(cases)
        seen = set()
        explained = {}
        for c, gd, gl in zip(cases, ok_data, ok_launch):
            key = (str(c['spec']['surfaces']), c['fidx'], c['w'], c['dist_name'], c['dist_n'])
            if key not in seen and any(math.isfinite(v) for v in c['data']):
                seen.add(key)
                res['nontrivial'] += 1
            wit = c09lib.oracle_case(c)
            if wit is not None:
                for f in (wit['explained_by'] or ['UNEXPLAINED']):
                    explained[f] = explained.get(f, 0) + 1
                if not gd or not gl:
                    wit['model_agrees'] = False
                res['disagreements'].append(wit)
            elif not gd or not gl:
                res['disagreements'].append({'spec': c['spec'], 'field_index': c['fidx'], 'wavelength': c['w'],
                                             'distribution': [c['dist_name'], c['dist_n'], c['dist_seed']],
                                             'model_agrees_data': bool(gd), 'model_agrees_launch': bool(gl),
                                             'violates_property': False})
        hist['oracle_violations_by_cause'] = explained
        if cases:
            c = cases[0]
            res['samples'].append({'surfaces': [s['shape'][0] for s in c['surfs']], 'H': c['H'], 'wavelength': c['w'],
                                   'distribution': [c['dist_name'], c['dist_n']], 'opd_waves': c['data'][:4]})
        yield res
    res3 = {'name': 'multi-wavelength-cells-vs-oracle', 'n': 0, 'nontrivial': 0, 'samples': [], 'disagreements': []}
    try:
        n3, l3, w3, h3 = _multi_checks(ctx, ctx.n(8, 80))
        res3.update(n=n3, nontrivial=l3, histogram=h3, disagreements=w3[:20])
        res3['note'] = ('dispersive catalogue-glass lenses, off-axis fields, half with curved image surfaces; Wavefront with an explicit '
                        "wavelength list in both orders and 'all', OPDFan, RmsWavefrontErrorVsField: every cell against the oracle, "
                        'per-wavelength results independent of the list order')
    except Exception as e:   # noqa
        import traceback
        res3['error'] = traceback.format_exc()[-800:]
    yield res3
    res4 = {'name': 'object-lifecycle-on-lossy-lenses-vs-oracle', 'n': 0, 'nontrivial': 0, 'samples': [], 'disagreements': []}
    try:
        n4, l4, w4, h4 = _lifecycle_checks(ctx, ctx.n(6, 60))
        res4.update(n=n4, nontrivial=l4, histogram=h4, disagreements=w4[:20])
        res4['note'] = ('lenses with non-unit ray intensities (coating T<1 / clipping aperture / absorbing glass): OPD, ZernikeOPD, OPDFan, '
                        'Wavefront, RmsWavefrontErrorVsField objects; public queries (data, rms(), view 2d/3d, view_residual, coeffs, table) in '
                        'shuffled order with repeats; data / rms / table / coefficients re-compared with the recomputation from traced rays '
                        'after every step')
    except Exception as e:   # noqa
        import traceback
        res4['error'] = traceback.format_exc()[-800:]
    yield res4
    res5 = {'name': 'construction-routes-and-histories-vs-oracle', 'n': 0, 'nontrivial': 0, 'samples': [], 'disagreements': []}
    try:
        n5, l5, w5, h5 = _route_checks(ctx, ctx.n(6, 60))
        res5.update(n=n5, nontrivial=l5, histogram=h5, disagreements=w5[:20])
        res5['note'] = ('the same prescription through other public histories (fields before set_field_type, field type changed after the '
                        'fields, settings repeated) and routes (ready-made Surface objects, reused Optic after reset(), to_dict/from_dict once and '
                        'twice, save/load file): off-axis OPD against the oracle and against the plainly built lens; fixed corpus through every '
                        'history x route, random lenses through random combinations')
    except Exception as e:   # noqa
        import traceback
        res5['error'] = traceback.format_exc()[-800:]
    yield res5
    res6 = {'name': 'opd-difference-operand-on-documented-samples-vs-oracle', 'n': 0, 'nontrivial': 0, 'samples': [], 'disagreements': []}
    try:
        n6, l6, w6, h6 = _operand_checks(ctx, ctx.n(12, 120))
        res6.update(n=n6, nontrivial=l6, histogram=h6, disagreements=w6[:20])
        res6['note'] = ('RayOperand.OPD_difference against mean|w (OPD - mean OPD)| with the oracle\'s OPD on the documented Gaussian-quadrature '
                        'samples and weights (tabulated independently, tied to Gauss-Legendre), the reduction over ALL samples: fixed corpus with '
                        'beams that arrive entirely and beams whose outermost ring misses a surface / is totally reflected (axial and full field, '
                        'infinite and finite objects), random lenses at their own and at a widened aperture')
    except Exception as e:   # noqa
        import traceback
        res6['error'] = traceback.format_exc()[-800:]
    yield res6
    res2 = {'name': 'derived-quantities-vs-implementation', 'n': 0, 'nontrivial': 0, 'samples': [], 'disagreements': []}
    try:
        n, lenses, bad = _derived_checks(ctx)
        res2['n'], res2['nontrivial'], res2['disagreements'] = n, lenses, bad
        res2['note'] = ('OPDFan slices, OPD.rms, RmsWavefrontErrorVsField (table, fields, data), OPD_difference, '
                        'Wavefront(all fields x all wavelengths) against the model generate_data')
    except RuntimeError as e:
        res2['error'] = str(e)
    yield res2


def search(ctx, broken, disagreements):
    """the property stated on the implementation: every reported sample equals the independently recomputed
    (chief path - ray path)/wavelength to the chief-ray reference sphere; the chief sample is zero; derived
    quantities equal their definitions on NumPy data; the same holds for multi-wavelength calls, at any time of an
    analysis object's life, and for the same prescription reached through other public histories / routes.
    Returns a LIST of witnesses, those that match no open finding first."""
    import c09lib
    import vlib
    open_ids = {g['id'] for g in vlib.load_known_findings(PROP)}
    unlisted, listed = [], []

    def take(ws):
        for w in ws:
            ex = w.get('explained_by')
            (listed if ex and set(ex) <= open_ids else unlisted).append(w)
    cases, hist = _cases(ctx, ctx.n(120, 1200), seed_mul=37, per_lens=2)
    for c in cases:
        w = c09lib.oracle_case(c)
        if w is not None:
            take([w])
            if len(unlisted) >= 2:
                break
    for fn, n, sm in ((_operand_checks, ctx.n(20, 150), 73), (_route_checks, ctx.n(8, 60), 67), (_multi_checks, ctx.n(15, 120), 47),
                      (_lifecycle_checks, ctx.n(10, 80), 59)):
        if len(unlisted) >= 3:
            break
        try:
            take(fn(ctx, n, seed_mul=sm)[2][:3])
        except Exception as e:   # noqa
            ctx.notes.append(f'search: {fn.__name__} raised {type(e).__name__}: {e}')
    if not unlisted:
        w = _derived_oracle(ctx)
        if w:
            take([w])
    out = unlisted[:5] + listed[:3]
    return out or None


def _derived_oracle(ctx):
    """rms / fan / rms-vs-field / OPD_difference as plain NumPy statements on the implementation's own data"""
    import random
    import warnings
    import numpy as np
    import lensgen
    import c09lib
    warnings.simplefilter('ignore')
    from optiland.wavefront import Wavefront, OPDFan, OPD
    from optiland.analysis.rms_vs_field import RmsWavefrontErrorVsField
    from optiland.optimization.operand.ray import RayOperand
    from optiland.distribution import GaussianQuadrature
    rng = random.Random(ctx.seed * 41 + 9)
    for _ in range(ctx.n(25, 200)):
        spec = c09lib.gen_spec(rng, exotic=False)
        for f in spec['fields']:
            f[2] = f[3] = 0.0
        try:
            o = c09lib.build(spec)
            w = spec['wavelengths'][0][0]
            H = tuple(float(v) for v in o.fields.get_field_coords()[-1])
            n = rng.choice([3, 5, 8])
            fan = OPDFan(o, fields=[H], wavelengths=[w], num_rays=n)
            opd = OPD(o, H, w, num_rings=2)
            rvf = RmsWavefrontErrorVsField(o, num_fields=3, num_rays=2)
            nr = rng.choice([1, 2, 3])
            od = float(RayOperand.OPD_difference(o, H[0], H[1], nr, w))
        except Exception:   # noqa
            continue
        def wit(what, **kw):
            return dict(spec=spec, derived=what, violates_property=True, explained_by=None, **kw)
        # samples traced in batches of different size differ by the Newton stopping tolerance (see c09lib.newton_slack)
        slack = 1e-6 + max(c09lib.newton_slack({'surfs': lensgen.model_surfaces(o, wl_), 'w': wl_})
                           for wl_ in [w] + [float(x) for x in rvf.wavelengths])
        # fan: sample k of the first half is the OPD at pupil (0, p_k), of the second half at (p_k, 0)
        lin = np.linspace(-1, 1, n)
        for k in (0, n - 1):
            for (Px, Py, idx) in ((0.0, lin[k], k), (lin[k], 0.0, n + k)):
                d1 = c09lib.make_distribution('line_y', 1)
                d1.x, d1.y = np.array([Px]), np.array([Py])
                one = Wavefront(o, fields=[H], wavelengths=[w], num_rays=1, distribution=d1).data[0][0][0][0]
                v = fan.data[0][0][0][idx]
                if np.isfinite(one) and np.isfinite(v) and abs(one - v) > slack + 1e-9 * abs(v):
                    return wit('OPDFan sample is not the OPD at its pupil coordinate', index=int(idx), fan=float(v), single=float(one))
        d = np.ravel(opd.data[0][0][0])
        if np.all(np.isfinite(d)) and abs(opd.rms() - math.sqrt(float(np.sum(d * d)) / d.size)) > 1e-9 * (1 + abs(opd.rms())):
            return wit('OPD.rms is not sqrt(mean(opd^2))', rms=float(opd.rms()))
        for i, Hy in enumerate(np.linspace(0, 1, 3)):
            for j, wl in enumerate(rvf.wavelengths):
                dd = np.ravel(Wavefront(o, [(0, float(Hy))], [wl], 2, 'hexapolar').data[0][0][0])
                e = math.sqrt(float(np.sum(dd * dd)) / dd.size) if np.all(np.isfinite(dd)) else float('nan')
                v = float(rvf._wavefront_error[i][j])
                if math.isfinite(e) and math.isfinite(v) and abs(e - v) > slack + 1e-9 * abs(v):
                    return wit('RmsWavefrontErrorVsField entry is not the RMS at its field/wavelength', i=i, j=j, table=v, expected=e)
        sym = (H[0] == 0 and H[1] == 0)
        gq = GaussianQuadrature(is_symmetric=sym)
        wts = np.array(gq.get_weights(nr), dtype=float)
        wts = wts if sym else np.repeat(wts, 3)
        gq.generate_points(num_rings=nr)
        dq = np.ravel(Wavefront(o, [H], [w], nr, gq).data[0][0][0])
        e = float(np.sum(np.abs((dq - np.sum(dq) / dq.size) * wts)) / dq.size)
        if math.isfinite(e) and math.isfinite(od) and abs(e - od) > 1e-9 * (1 + abs(e)):
            return wit('OPD_difference is not mean|w (d - mean d)|', operand=od, expected=e)
    return None


# --------------------------------------------------------------------------
# known findings
# --------------------------------------------------------------------------
INF = float('inf')
_BASE = {'object_thickness': INF,
         'surfaces': [{'type': 'standard', 'radius': 50.0, 'thickness': 5.0, 'is_stop': True, 'material': ['ideal', 1.5, 0.0]},
                      {'type': 'standard', 'radius': -50.0, 'thickness': 45.0, 'material': 'air'}],
         'aperture': ['EPD', 10.0], 'field_type': 'angle', 'fields': [[0.0, 0.0, 0.0, 0.0], [5.0, 0.0, 0.0, 0.0]],
         'wavelengths': [[0.55, True]], 'telecentric': False}


def _replay_spec(fid):
    import copy
    s = copy.deepcopy(_BASE)
    if fid == 'tilt-ignores-vignetting':
        s['fields'] = [[0.0, 0.0, 0.0, 0.0], [5.0, 0.0, 0.0, 0.5]]
    elif fid == 'image-space-index':
        s['surfaces'][1]['material'] = ['ideal', 1.33, 0.0]
        s['surfaces'][1]['thickness'] = 60.0
    elif fid == 'object-space-index':
        s['object_material'] = ['ideal', 1.2, 0.0]
    elif fid == 'signed-max-y-field':
        s['fields'] = [[0.0, 0.0, 0.0, 0.0], [-5.0, 0.0, 0.0, 0.0]]
    else:
        return None
    return s


def matches_finding(w, f):
    """a witness is a listed finding only if the oracle reproduces the implementation's numbers with exactly the
    recorded defect semantics switched on (c09lib.explain), every one of which is listed, this one among them"""
    if f['id'] not in FINDING_IDS:
        return False
    ex = w.get('explained_by')
    if not ex or w.get('chief_nonzero') or w.get('derived'):
        return False
    import vlib
    open_ids = {g['id'] for g in vlib.load_known_findings(PROP)}
    return f['id'] in ex and set(ex) <= open_ids


def replay_finding(ctx, f):
    import warnings
    import lensgen
    import c09lib
    warnings.simplefilter('ignore')
    spec = _replay_spec(f['id'])
    if spec is None:
        return None
    o = c09lib.build(spec)
    c = c09lib.make_case(spec, o, 1, 0.55, 'hexapolar', 3)
    w = c09lib.oracle_case(c)
    return bool(w and w.get('explained_by') == [f['id']])


def broken_explained(b, known, witnesses):
    return False

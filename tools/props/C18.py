"""C18 - catalogue materials return the index their data file defines."""
import contextlib
import io
import math
import os
import random
import re
import warnings

import vlib
from props.common import BASE_TRUSTED

PROP = 'C18'
KERNELS = [f'formula_{i}' for i in range(1, 10)] + ['tabulated_n', 'mat_k', 'abbe_n', 'abbe']
THEOREMS = ['C18_' + t for t in (
    [f'formula_{i}_spec' for i in range(1, 10)] +
    ['formula_1_sellmeier', 'formula_2_sellmeier', 'formula_8_lorentz', 'tabulated_n_spec',
     'extinction_k_spec', 'interp_is_linear', 'lin_interp_segment', 'lin_interp_knot',
     'lin_interp_clamp_low', 'lin_interp_clamp_high', 'file_index_correct', 'abbe_definition',
     'abbe_number', 'model_glass_polynomial', 'lev_is_levS', 'levenshtein_zero_iff_eq',
     'exact_lookup_partial', 'exact_lookup_any_sort_partial'])]
COQ_TARGETS = ['Model/M_C18.vo']
TRUSTED_BASE = BASE_TRUSTED + [
    'modelled, not verified: np.interp (Num/OpsC18.v interp_, linear search on increasing knots), np.polyval, '
    'PyYAML safe_load + float() of the coefficient strings, np.loadtxt of the tables, pandas read_csv / str.lower / '
    'boolean filtering / sort_values; each is exercised by the catalogue correspondence (exhaustive in the thorough tier)',
    'modelled, not verified: the substring filter of Material._find_material_matches is modelled as a LITERAL substring '
    'test (the implementation uses a regular expression: finding D14)',
    'numerical only: model-glass fit accuracy (|dn_d| <= 1e-3, |dV|/V <= 0.12 for V_d <= 85 on the Schott catalogue glasses)',
]
RULE = ('catalogue rows: seeded sample (quick) / all 2593 (thorough) x 9 wavelengths across [min,max] incl. end points, '
        'scalar and array calls, n and k; data files re-read independently (yaml + own table parser); '
        'lookups: distinct catalogue names and (category, reference) pairs; Levenshtein: catalogue strings and random edits; '
        'model glass: Schott catalogue (n_d, V_d) with jitter; non-trivial = finite index returned; '
        'always included: rows on which every coefficient position of their formula matters (most non-zero / distinct / '
        'longest coefficient lists per formula, every formula-4 row with c6 != 0), formulas 8/9, the two-section file; '
        'tables: independent oracle = straight line through two CONSECUTIVE FILE ROWS (own YAML/table parser, no np.interp, '
        'no sort, no de-duplication) at points strictly inside table intervals - all intervals within two rows of a repeated '
        'or out-of-order wavelength, a spread of the others (every interval in the thorough tier); every row with a repeated / '
        'out-of-order wavelength or a one-row table and each table layout (n, nk, n+k, k, formula+k, formula+nk) is always '
        'included, selected by a run-time scan of the data files; '
        'array arguments: n() and k() of rows of every formula (one per number of terms) and every table layout called with '
        'scalars, 0-d, 1-D, 2-D ((1,b), (a,1), second dimension = number of formula terms, others) and 3-D arrays; result '
        'shape, elementwise agreement with the scalar call and with the independent oracle (no Coq involved); '
        'history independence: Material(...) constructed repeatedly in one process - every case-colliding catalogue name pair '
        'in both orders with repeats, the same name under different references / wavelength bounds / robust flags - each call '
        'judged against the stateless lookup model; '
        'argument types: whole-micron wavelengths inside the range of catalogue rows of every formula / table layout and '
        'of generated data files of all nine formulas, passed as Python int, numpy int64/int32 scalars, 0-d / 1-D / 2-D '
        'integer arrays and as floats - result shape and value against the formula / interpolation evaluated from the file')
PARTIAL = [
    'exact_lookup_partial: proved for the lower-cased strings and a literal substring filter; the gaps to the stated property '
    'are the findings D14 (regex filter) and D14b (case collision)',
    'extinction coefficient: kernel-level theorem (extinction_k_spec); which k table of a file is used is checked by '
    'correspondence only',
    'model glass reproduces (n_d, V_d): numerical check only (no theorem); fails for V_d > 90 (finding model-glass-high-abbe)',
    'tables whose wavelengths are not strictly increasing are outside the hypotheses of the interpolation theorems: tables '
    'that repeat a wavelength (16 rows) are checked against interpolation between consecutive file rows strictly inside every '
    'interval (the repeated node itself is skipped) and against the np.interp model; tables with rows out of order (15 rows) '
    'are the finding table-rows-out-of-order',
]

META = re.compile(r'[\\.^$*+?{}\[\]|()]')
LINES = (0.5875618, 0.4861327, 0.6562725)


def _repo(*p):
    return os.path.join(vlib.REPO, *p)


_cache = {}


def _catalog():
    if 'df' not in _cache:
        import pandas as pd
        _cache['df'] = pd.read_csv(_repo('database', 'catalog_nk.csv'))
    return _cache['df']


# --------------------------------------------------------------------------
# independent reading of a data file
# --------------------------------------------------------------------------
def read_sections(path):
    """[('formula', k, [c...]) | ('n', [(w, n)...]) | ('k', [(w, k)...]) | ('nk', [(w, n, k)...]) | ('other',)]"""
    import yaml
    with open(path, 'r') as f:
        data = yaml.safe_load(f)
    out = []
    for sd in data['DATA']:
        t = sd['type']
        if t.startswith('formula '):
            out.append(('formula', int(t.split()[1]), [float(x) for x in sd['coefficients'].split()]))
        elif t.startswith('tabulated'):
            rows = []
            for ln in sd['data'].split('\n'):
                ln = ln.split('#')[0].strip()
                if ln:
                    rows.append(tuple(float(x) for x in ln.split()))
            kind = t.split()[1] if len(t.split()) > 1 else ''
            if kind in ('n', 'k'):
                out.append((kind, [(r[0], r[1]) for r in rows]))
            elif kind == 'nk':
                out.append(('nk', [(r[0], r[1], r[2]) for r in rows]))
            else:
                out.append(('other',))
        else:
            out.append(('other',))
    return out


def _pw(x, y):
    if y == 0:
        return 1.0
    return x ** y


def py_formula(k, c, w):
    """refractiveindex.info dispersion formulas, written from the published document (independent oracle)"""
    def pairs(start):
        if (len(c) - start) % 2:
            raise ValueError('dangling coefficient')
        return [(c[i], c[i + 1]) for i in range(start, len(c), 2)]
    w2 = w * w
    if k == 1:
        return math.sqrt(1 + c[0] + sum(B * w2 / (w2 - C * C) for B, C in pairs(1)))
    if k == 2:
        return math.sqrt(1 + c[0] + sum(B * w2 / (w2 - C) for B, C in pairs(1)))
    if k == 3:
        return math.sqrt(c[0] + sum(B * _pw(w, C) for B, C in pairs(1)))
    if k == 4:
        if len(c) < 9:
            raise ValueError('short')
        v = c[0] + c[1] * _pw(w, c[2]) / (w2 - _pw(c[3], c[4])) + c[5] * _pw(w, c[6]) / (w2 - _pw(c[7], c[8]))
        return math.sqrt(v + sum(B * _pw(w, C) for B, C in pairs(9)))
    if k == 5:
        return c[0] + sum(B * _pw(w, C) for B, C in pairs(1))
    if k == 6:
        return 1 + c[0] + sum(B / (C - 1 / w2) for B, C in pairs(1))
    if k == 7:
        L = 1 / (w2 - 0.028)
        return c[0] + c[1] * L + c[2] * L * L + sum(a * w ** (2 * (j + 1)) for j, a in enumerate(c[3:]))
    if k == 8:
        if len(c) != 4:
            raise ValueError('len')
        b = c[0] + c[1] * w2 / (w2 - c[2]) + c[3] * w2
        return math.sqrt((1 + 2 * b) / (1 - b))
    if k == 9:
        if len(c) != 6:
            raise ValueError('len')
        return math.sqrt(c[0] + c[1] / (w2 - c[2]) + c[3] * (w - c[4]) / ((w - c[4]) ** 2 + c[5]))
    raise KeyError(k)


def increasing(tbl):
    return all(a[0] < b[0] for a, b in zip(tbl, tbl[1:]))


def nondecreasing(xs):
    return all(a <= b for a, b in zip(xs, xs[1:]))


def table_oracle(tbl, w):
    """Linear interpolation of a table exactly as the data file lists it: the straight line through two CONSECUTIVE
    FILE ROWS that bracket w (no sorting, no de-duplication, no np.interp).
    ('ok', [values]) - every value a correct implementation may return (one value unless the wavelength column is
    not monotone, where several consecutive pairs can bracket w);  ('skip',) - nothing is promised here: w is a
    wavelength the file lists twice (a step), or lies outside a non-monotone table."""
    import bisect
    xs = [r[0] for r in tbl]
    mono = nondecreasing(xs)
    if mono:
        lo = bisect.bisect_left(xs, w)
        hi = bisect.bisect_right(xs, w)
        if hi - lo == 1:
            return ('ok', [tbl[lo][1]])             # a wavelength listed once: the tabulated value
        if hi - lo > 1:
            return ('skip',)                        # listed twice or more: a step, either value is defensible
        if lo == 0:
            return ('ok', [tbl[0][1]])              # below the table: first row
        if lo == len(xs):
            return ('ok', [tbl[-1][1]])             # above: last row
        (x0, f0), (x1, f1) = tbl[lo - 1], tbl[lo]   # consecutive rows with x0 < w < x1
        return ('ok', [f0 + (f1 - f0) / (x1 - x0) * (w - x0)])
    # rows out of order (15 catalogue files: swapped rows, typos).  Two readings of "the tabulated data" are
    # defensible - the file rows as listed, or the same rows put in increasing order (stable, nothing dropped);
    # a correct implementation returns the line through two consecutive rows of either
    if any(x == w for x in xs):
        return ('skip',)
    vals = []
    for t in (tbl, sorted(tbl, key=lambda r: r[0])):
        for (x0, f0), (x1, f1) in zip(t, t[1:]):
            if x0 < w < x1 or x1 < w < x0:
                vals.append(f0 + (f1 - f0) / (x1 - x0) * (w - x0))
    if w < min(xs):
        vals.append(sorted(tbl, key=lambda r: r[0])[0][1])
    if w > max(xs):
        vals.append(sorted(tbl, key=lambda r: r[0])[-1][1])
    return ('ok', vals) if vals else ('skip',)


def disordered_at(xs, w):
    """True when the rows with wavelength <= w do not all precede the rows with wavelength > w: there the result of a
    binary search on the unsorted column depends on the path taken (np.interp documents the result as undefined)"""
    seen_greater = False
    for x in xs:
        if x > w:
            seen_greater = True
        elif seen_greater:
            return True
    return False


def oracle_n(secs, w):
    """('ok', [values]) | ('none',) no dispersion section | ('multi',) | ('skip',) | ('bad', why)"""
    ns = [s for s in secs if s[0] in ('formula', 'n', 'nk')]
    if not ns:
        return ('none',)
    if len(ns) > 1:
        return ('multi',)
    s = ns[0]
    try:
        if s[0] == 'formula':
            with warnings.catch_warnings():
                warnings.simplefilter('ignore')
                return ('ok', [py_formula(s[1], s[2], w)])
        return table_oracle([(r[0], r[1]) for r in s[1]], w)
    except (ValueError, ZeroDivisionError, OverflowError, KeyError, IndexError) as e:
        return ('bad', type(e).__name__)


def oracle_k(secs, w):
    ks = [s for s in secs if s[0] in ('k', 'nk')]
    if len(ks) != 1:
        return ('none',)
    return table_oracle([(r[0], r[-1]) for r in ks[0][1]], w)


def table_samples(secs, lo, hi, budget):
    """wavelengths strictly inside the intervals between consecutive file rows of every table of the file, within the
    catalogue range [lo, hi]: 1/4, 1/2, 3/4 of every interval within two rows of a repeated or out-of-order
    wavelength (all of them, first), then midpoints of up to `budget` other intervals spread over the table"""
    prio, rest = [], []
    for s in secs:
        if s[0] not in ('n', 'k', 'nk'):
            continue
        xs = [r[0] for r in s[1]]
        odd = {j for j in range(len(xs) - 1) if xs[j] >= xs[j + 1]}
        near = set()
        for j in odd:
            near.update(range(max(0, j - 2), min(len(xs) - 1, j + 3)))
        others = [j for j in range(len(xs) - 1) if j not in near and xs[j] != xs[j + 1]]
        for j in sorted(near):
            if xs[j] != xs[j + 1]:
                prio += [xs[j] + (xs[j + 1] - xs[j]) * t for t in (0.25, 0.5, 0.75)]
        if len(others) > budget:
            step = len(others) / float(budget)
            others = [others[int(k * step)] for k in range(budget)]
        rest += [0.5 * (xs[j] + xs[j + 1]) for j in others]
    keep = lambda l: [w for w in l if lo <= w <= hi]
    return keep(prio), keep(rest)


def _agree_any(v, vals, tol=1e-9):
    return v is not None and any(_agree(v, e, tol) for e in vals)


def _agree(a, b, tol=1e-9):
    if isinstance(a, complex) or isinstance(b, complex):
        return False
    if math.isnan(a) or math.isnan(b):
        return math.isnan(a) and math.isnan(b)
    if math.isinf(a) or math.isinf(b):
        return a == b
    return abs(a - b) <= tol * (1 + abs(a) + abs(b))


# --------------------------------------------------------------------------
# Coq literals
# --------------------------------------------------------------------------
H = vlib.fhex


def coq_section(s):
    if s[0] == 'formula':
        return f'SFormula (O:=FOps) {s[1]}%Z [' + '; '.join(H(x) for x in s[2]) + ']'
    if s[0] == 'n':
        return 'STabN (O:=FOps) [' + '; '.join(f'({H(a)}, {H(b)})' for a, b in s[1]) + ']'
    if s[0] == 'k':
        return 'STabK (O:=FOps) [' + '; '.join(f'({H(a)}, {H(b)})' for a, b in s[1]) + ']'
    if s[0] == 'nk':
        return 'STabNK (O:=FOps) [' + '; '.join(f'({H(a)}, {H(b)}, {H(c)})' for a, b, c in s[1]) + ']'
    return 'SOther (O:=FOps)'


def coq_str(s):
    """code-point string: a UTF-8 literal decoded inside Coq (u8); control characters fall back to a Z list"""
    if any(ord(ch) < 32 for ch in s):
        return '[' + '; '.join(str(ord(ch)) for ch in s) + ']%Z'
    return '(u8 "' + s.replace('"', '""') + '"%string)'


IMPORTS = 'From OV Require Import OpsC18 Spec.S_C18 Gen.Materials Model.M_C18.\nLocal Open Scope bool_scope.'


def _opt_cmp(term, pyval, tol):
    """Coq bool: option-valued model term against what the implementation did (float or None=raised)"""
    if pyval is None:
        return f'match {term} with None => true | Some _ => false end'
    return f'match {term} with None => false | Some v => close {H(tol)} v {H(pyval)} end'


# --------------------------------------------------------------------------
# implementation side
# --------------------------------------------------------------------------
def _f(x):
    import numpy as np
    x = np.ravel(np.asarray(x))
    if x.size != 1:
        raise ValueError('size')
    v = x[0]
    if isinstance(v, complex) or np.iscomplexobj(v):
        raise ValueError('complex')
    return float(v)


def impl_index(path, ws):
    """what the implementation returns for one data file: dict(load_err | n=[..|None], n_arr, k, k_arr)"""
    import numpy as np
    from optiland.materials.material_file import MaterialFile
    out = {}
    with warnings.catch_warnings():
        warnings.simplefilter('ignore')
        np.seterr(all='ignore')
        try:
            m = MaterialFile(path)
        except Exception as e:
            return {'load_err': f'{type(e).__name__}: {e}'[:120]}
        for key, fn in (('n', m.n), ('k', m.k)):
            vals = []
            for w in ws:
                try:
                    vals.append(_f(fn(w)))
                except Exception as e:
                    vals.append(None)
                    out[key + '_err'] = f'{type(e).__name__}: {e}'[:100]
            out[key] = vals
            try:
                arr = fn(np.array(ws, dtype=float))
                out[key + '_arr'] = [float(v) for v in np.ravel(arr)]
                if len(out[key + '_arr']) != len(ws):
                    out[key + '_arr'] = None
            except Exception as e:
                out[key + '_arr'] = None
    return out


def row_wavelengths(r):
    lo, hi = float(r['min_wavelength']), float(r['max_wavelength'])
    return [lo + (hi - lo) * i / 8.0 for i in range(8)] + [hi]


_FORMULA_RX = re.compile(r'type:\s*formula\s+(\d+)\s*\n(?:\s*wavelength_range:[^\n]*\n)?\s*coefficients:\s*([^\n]+)')


def _formula_index():
    """{row: (formula number, coefficients)} by a fast text scan of every data file (0.1 s for the catalogue)"""
    if 'fidx' not in _cache:
        df = _catalog()
        out = {}
        for i, fn in enumerate(df['filename']):
            try:
                txt = open(_repo('database', 'data-nk', fn), encoding='utf-8').read()
            except OSError:
                continue
            m = _FORMULA_RX.search(txt)
            if m:
                try:
                    out[i] = (int(m.group(1)), [float(x) for x in m.group(2).split()])
                except ValueError:
                    pass
        _cache['fidx'] = out
    return _cache['fidx']


def sensitive_rows(per_formula=6):
    """catalogue rows on which EVERY coefficient position of their formula matters: per formula the rows with the most
    non-zero and most distinct coefficients and the longest lists; and every formula-4 row whose second resonance term
    is present (c6 != 0: KH2PO4, NH4H2PO4, KTiOPO4 ...).  Always part of the quick tier and tried first by search()."""
    if 'sens' in _cache:
        return _cache['sens']
    fi = _formula_index()
    pick = []
    for k in range(1, 10):
        rows = [(i, c) for i, (kk, c) in fi.items() if kk == k]
        rows.sort(key=lambda t: (-sum(1 for x in t[1] if x != 0), -len(set(t[1])), -len(t[1]), t[0]))
        pick += [i for i, _ in rows[:per_formula]]
        rows.sort(key=lambda t: (-len(t[1]), t[0]))
        pick += [i for i, _ in rows[:2]]
    pick += [i for i, (kk, c) in fi.items() if kk == 4 and len(c) > 6 and c[5] != 0]
    _cache['sens'] = sorted(set(pick))
    return _cache['sens']


_TAB_TYPE = re.compile(r'^(\s*)-\s*type:\s*tabulated\s+(\w+)\s*$')
_ANY_TYPE = re.compile(r'^\s*-\s*type:')
_DATA_KEY = re.compile(r'^\s*data:\s*\|')


def _table_index():
    """{row: [(kind, wavelength column)]} by a fast text scan of every data file (0.5 s for the catalogue); the rows
    selected from it are afterwards re-read with a real YAML parser"""
    if 'tidx' in _cache:
        return _cache['tidx']
    df = _catalog()
    out = {}
    for i, fn in enumerate(df['filename']):
        try:
            lines = open(_repo('database', 'data-nk', fn), encoding='utf-8').read().split('\n')
        except OSError:
            continue
        tabs = []
        k = 0
        while k < len(lines):
            m = _TAB_TYPE.match(lines[k])
            if not m:
                k += 1
                continue
            kind = m.group(2)
            k += 1
            while k < len(lines) and not _DATA_KEY.match(lines[k]) and not _ANY_TYPE.match(lines[k]):
                k += 1
            if k >= len(lines) or not _DATA_KEY.match(lines[k]):
                continue
            ind = len(lines[k]) - len(lines[k].lstrip())
            k += 1
            xs = []
            while k < len(lines):
                ln = lines[k]
                if ln.strip() and len(ln) - len(ln.lstrip()) <= ind:
                    break
                if ln.strip():
                    try:
                        xs.append(float(ln.split()[0]))
                    except ValueError:
                        pass
                k += 1
            tabs.append((kind, xs))
        if tabs:
            out[i] = tabs
    _cache['tidx'] = out
    return out


def table_structure():
    """{class: [rows]} of the structurally unusual / distinct table layouts of the catalogue, found at run time"""
    if 'tstruct' in _cache:
        return _cache['tstruct']
    fi = _formula_index()
    cls = {'repeated-wavelength': [], 'non-monotone-wavelengths': [], 'single-row-table': [], 'n-only': [],
           'nk-only': [], 'n+k': [], 'k-only': [], 'formula+k': [], 'formula+nk': []}
    for i, tabs in sorted(_table_index().items()):
        kinds = sorted(k for k, _ in tabs)
        for kind, xs in tabs:
            if any(a == b for a, b in zip(xs, xs[1:])):
                cls['repeated-wavelength'].append(i)
            if any(a > b for a, b in zip(xs, xs[1:])):
                cls['non-monotone-wavelengths'].append(i)
            if len(xs) == 1:
                cls['single-row-table'].append(i)
        lay = ('formula+' if i in fi else '') + '+'.join(kinds)
        lay = {'n': 'n-only', 'nk': 'nk-only', 'k+n': 'n+k', 'k': 'k-only'}.get(lay, lay)
        if lay in cls:
            cls[lay].append(i)
    _cache['tstruct'] = {k: sorted(set(v)) for k, v in cls.items()}
    return _cache['tstruct']


def unusual_table_rows(per_layout=3):
    """always part of the quick tier: every row with a repeated / out-of-order wavelength or a one-row table, and per
    table layout the first rows plus the one with the longest table"""
    st = table_structure()
    ti = _table_index()
    pick = set(st['repeated-wavelength']) | set(st['non-monotone-wavelengths']) | set(st['single-row-table'])
    for lay in ('n-only', 'nk-only', 'n+k', 'k-only', 'formula+k', 'formula+nk'):
        rows = st[lay]
        pick.update(rows[:per_layout])
        if rows:
            pick.add(max(rows, key=lambda i: (max(len(xs) for _, xs in ti[i]) if max(len(xs) for _, xs in ti[i]) < 4000 else 0, -i)))
    return sorted(pick)


def _index_rows(ctx):
    df = _catalog()
    idx = list(range(len(df)))
    if ctx.quick():
        rng = random.Random(ctx.seed * 31 + 18)
        pick = set(rng.sample(idx, ctx.n(220, len(idx))))
        # always include the DATA layouts that are rare in the catalogue (formulas 8 and 9, two dispersion sections)
        rare = ('polyvinylpyrrolidone/Konig', 'main/AgBr/Schroter', 'main/TlCl/Schroter', 'urea/Rosker-e')
        for i, fn in enumerate(df['filename']):
            if any(t in fn for t in rare):
                pick.add(i)
        pick.update(sensitive_rows())
        pick.update(unusual_table_rows())
        idx = sorted(pick)
    return idx


COQ_EXTRA_CAP = 150


def row_samples(ctx, r, secs, unusual):
    """(all wavelengths, how many of them also go to the Coq model): the 9 range points, then points strictly inside
    table intervals (those next to repeated / out-of-order wavelengths first)"""
    base = row_wavelengths(r)
    budget = 10 ** 9 if not ctx.quick() else (24 if unusual else 6)
    prio, rest = table_samples(secs, float(r['min_wavelength']), float(r['max_wavelength']), budget)
    if ctx.quick() and len(prio) > 240:
        step = len(prio) / 240.0
        prio = [prio[int(k * step)] for k in range(240)]
    ws = base + prio + rest
    mono = all(nondecreasing([q[0] for q in s[1]]) for s in secs if s[0] in ('n', 'k', 'nk'))
    if mono:
        return ws, list(range(len(base) + min(len(prio) + len(rest), COQ_EXTRA_CAP if unusual else 12)))
    # a table with rows out of order: the Coq model (file order, left-to-right search) is compared only where the
    # neighbouring rows are the same whether the table is read as listed or in increasing order
    cols = [[q[0] for q in s[1]] for s in secs if s[0] in ('n', 'k', 'nk')]
    return ws, [j for j, w in enumerate(base) if all(_order_free(xs, w) for xs in cols)]


def _order_free(xs, w):
    if disordered_at(xs, w) or w in xs:
        return False
    below = [x for x in xs if x < w]
    above = [x for x in xs if x > w]
    if not below or not above:
        return True
    k = next(i for i, x in enumerate(xs) if x > w)
    return k > 0 and xs[k - 1] == max(below) and xs[k] == min(above)


def check_index(ctx, idx=None, tol=1e-9, shard=24):
    """catalogue rows: implementation vs Coq file model (regenerated kernels) vs Coq spec, then the Python oracle"""
    df = _catalog()
    idx = _index_rows(ctx) if idx is None else idx
    res = {'name': 'catalogue-index', 'n': 0, 'nontrivial': 0, 'samples': [], 'disagreements': [],
           'histogram': {}, 'exhaustive': len(idx) == len(df)}
    hist = res['histogram']
    st = table_structure()
    unusual = set(st['repeated-wavelength']) | set(st['non-monotone-wavelengths']) | set(st['single-row-table'])
    inc = set(idx)
    for k, rows in st.items():
        hist['tables:' + k] = f'{len([i for i in rows if i in inc])} of {len(rows)} catalogue rows'
    hist['points-inside-table-intervals'] = 0
    items = []
    bodies = []
    cur = []
    sizes = 0
    for i in idx:
        r = df.iloc[i]
        path = _repo('database', 'data-nk', r['filename'])
        secs = read_sections(path)
        ws, coq_js = row_samples(ctx, r, secs, i in unusual)
        hist['points-inside-table-intervals'] += len(ws) - 9
        im = impl_index(path, ws)
        layout = '+'.join(s[0] + (str(s[1]) if s[0] == 'formula' else '') for s in secs)
        hist[layout] = hist.get(layout, 0) + 1
        items.append((i, r, secs, ws, im))
        lines = []
        sec_txt = '[' + '; '.join(coq_section(s) for s in secs) + ']'
        has_k = sum(1 for s in secs if s[0] in ('k', 'nk')) >= 1
        spec_ok = (len([s for s in secs if s[0] in ("formula", "n", "nk")]) == 1 and
                   all(increasing([(q[0],) for q in s[1]]) for s in secs if s[0] in ('n', 'nk')))
        for j in coq_js:
            w = ws[j]
            pn = None if 'load_err' in im else im['n'][j]
            lines.append(_opt_cmp(f'file_n secs {H(w)}', pn, tol))
            if spec_ok:
                lines.append(_opt_cmp(f'file_index secs {H(w)}', pn, tol))
            if pn is not None:
                if im.get('n_arr') is None:
                    lines.append('false')
                else:
                    lines.append(f'close {H(1e-14)} {H(pn)} {H(im["n_arr"][j])}')
            if has_k:
                pk = None if 'load_err' in im else im['k'][j]
                lines.append(_opt_cmp(f'file_kk secs {H(w)}', pk, tol))
                if pk is not None:
                    lines.append('false' if im.get('k_arr') is None else f'close {H(1e-14)} {H(pk)} {H(im["k_arr"][j])}')
        cur.append(f'(let secs := {sec_txt} in\n  ' + (' && '.join(lines) or 'true') + ')')
        sizes += sum(len(s[1]) for s in secs if s[0] in ('n', 'k', 'nk')) + 20 * len(coq_js)
        if len(cur) >= shard or sizes > 9000:
            bodies.append(cur)
            cur, sizes = [], 0
    if cur:
        bodies.append(cur)
    texts = ['Eval vm_compute in (report [\n' + ';\n'.join(b) + '\n]).\n' for b in bodies]
    # the property oracle does not depend on Coq: its verdicts are reported even when the model cannot be evaluated
    viols = [oracle_row(r, secs, ws, im) for (i, r, secs, ws, im) in items]
    bad_rows = set()
    coq_err = None
    try:
        out = vlib.run_cases('C18idx', IMPORTS, texts)
        pos = 0
        for b, o in zip(bodies, out):
            if o[0] == 'error':
                coq_err = o[1]
                break
            if o[1] > len(o[2]):
                bad_rows.update(range(pos, pos + len(b)))     # more failures than listed: the whole shard is suspect
            for k in o[2]:
                bad_rows.add(pos + k)
            pos += len(b)
    except RuntimeError as e:
        coq_err = str(e)
    if coq_err:
        bad_rows = set()
        if not any(viols):
            res['error'] = coq_err
            return res
        res['note'] = 'Coq model not evaluated: ' + coq_err[-300:]
    for n_, (i, r, secs, ws, im) in enumerate(items):
        res['n'] += len(ws)
        viol = viols[n_]
        if 'load_err' not in im and any(v is not None and math.isfinite(v) for v in im['n']):
            res['nontrivial'] += 1
        if n_ in bad_rows or viol:
            d = {'kind': 'index', 'file': r['filename'], 'row': int(i), 'model_agrees': n_ not in bad_rows,
                 'oracle': viol[:3], 'violations': len(viol), 'violates_property': bool(viol)}
            if viol:
                d['cause'] = viol[0]['cause']
            res['disagreements'].append(d)
    if items:
        i, r, secs, ws, im = items[0]
        res['samples'].append({'file': r['filename'], 'wavelengths': ws[:3], 'n': (im.get('n') or [None])[:3]})
    return res


def oracle_row(r, secs, ws, im):
    """the property stated on the implementation's answers for one catalogue row; list of violations"""
    out = []
    defines = any(s[0] in ('formula', 'n', 'nk') for s in secs)
    if 'load_err' in im:
        if not defines:
            return out
        multi = sum(1 for s in secs if s[0] in ('formula', 'n', 'nk')) > 1
        return [{'cause': 'multiple-dispersion-sections' if multi else 'load-error', 'error': im['load_err']}]
    ntab = [s for s in secs if s[0] in ('n', 'nk')]
    ktab = [s for s in secs if s[0] in ('k', 'nk')]
    nx = [q[0] for q in ntab[0][1]] if len(ntab) == 1 and not any(s[0] == 'formula' for s in secs) else None
    kx = [q[0] for q in ktab[0][1]] if len(ktab) == 1 else None
    dis = lambda xs, w: bool(xs) and not nondecreasing(xs) and disordered_at(xs, w)
    for j, w in enumerate(ws):
        if defines:
            o = oracle_n(secs, w)
            v = im['n'][j]
            if o[0] == 'ok' and not _agree_any(v, o[1]):
                out.append({'cause': 'index-value', 'wavelength': w, 'implementation': v,
                            'data_file_formula_or_consecutive_row_interpolation': o[1][:3],
                            'rows_out_of_order_here': dis(nx, w)})
            if v is not None and im.get('n_arr') is not None and not _agree(v, im['n_arr'][j], 1e-14):
                out.append({'cause': 'scalar-array', 'wavelength': w, 'scalar': v, 'array': im['n_arr'][j],
                            'rows_out_of_order_here': dis(nx, w)})
            if v is not None and im.get('n_arr') is None:
                out.append({'cause': 'scalar-array', 'wavelength': w, 'scalar': v, 'array': None,
                            'rows_out_of_order_here': False})
        ok_ = oracle_k(secs, w)
        if ok_[0] == 'ok':
            kv = im['k'][j]
            if not _agree_any(kv, ok_[1]):
                out.append({'cause': 'k-value', 'wavelength': w, 'implementation': kv,
                            'consecutive_row_interpolation_of_k_table': ok_[1][:3],
                            'rows_out_of_order_here': dis(kx, w)})
            if kv is not None and im.get('k_arr') is not None and not _agree(kv, im['k_arr'][j], 1e-14):
                out.append({'cause': 'scalar-array-k', 'wavelength': w, 'scalar': kv, 'array': im['k_arr'][j],
                            'rows_out_of_order_here': dis(kx, w)})
    if out and all(v.get('rows_out_of_order_here') for v in out):
        for v in out:
            v['cause'] = 'table-rows-out-of-order'
    return out


# --------------------------------------------------------------------------
# lookups
# --------------------------------------------------------------------------
@contextlib.contextmanager
def literal_contains():
    from pandas.core.strings.accessor import StringMethods
    orig = StringMethods.contains

    def lit(self, pat, *a, **k):
        k['regex'] = False
        return orig(self, pat, *a, **k)
    StringMethods.contains = lit
    try:
        yield
    finally:
        StringMethods.contains = orig


def impl_lookup(name, reference=None):
    """('ok', row-dict-of-first, [candidate keys], best score) | ('none',) | ('exc', text)"""
    from optiland.materials.material import Material
    df = _catalog()
    m = Material.__new__(Material)
    m.name, m.reference, m.robust, m.min_wavelength, m.max_wavelength = name, reference, True, None, None
    try:
        with contextlib.redirect_stdout(io.StringIO()), warnings.catch_warnings():
            warnings.simplefilter('ignore')
            d = m._find_material_matches(df)
    except Exception as e:
        return ('exc', f'{type(e).__name__}: {e}'[:100])
    if d.empty:
        return ('none',)
    first = d.loc[0].to_dict()
    keys = [(a, b, c, e) for a, b, c, e in zip(d['filename'], d['name'], d['reference'], d['category_name'])]
    return ('ok', first, keys, int(d['similarity_score'].iloc[0]))


def exact_rows(name, reference):
    """catalogue rows that match the query exactly (name or category name, case-sensitive) and carry the reference"""
    df = _catalog()
    out = []
    for i, (c, cf, rf, nm, fn) in enumerate(zip(df['category_name'], df['category_name_full'], df['reference'],
                                                 df['name'], df['filename'])):
        if nm == name or c == name:
            if reference and not any(reference.lower() in s.lower() for s in (c, cf, rf, nm, fn)):
                continue
            out.append(i)
    return out


def lookup_violation(name, reference):
    """None if the lookup of an exact catalogue name returns an entry with exactly that name; else a witness"""
    ex = exact_rows(name, reference)
    if not ex:
        return None
    r = impl_lookup(name, reference)
    if r[0] == 'ok' and (r[1]['name'] == name or r[1]['category_name'] == name):
        return None
    w = {'kind': 'lookup', 'name': name, 'reference': reference, 'violates_property': True,
         'implementation': r[0] if r[0] != 'ok' else {'name': r[1]['name'], 'category_name': r[1]['category_name'],
                                                       'score': r[3]}}
    if r[0] == 'exc':
        w['error'] = r[1]
    # cause: does the failure disappear with a literal substring filter?
    with literal_contains():
        r2 = impl_lookup(name, reference)
    lit_ok = r2[0] == 'ok' and (r2[1]['name'] == name or r2[1]['category_name'] == name)
    if lit_ok and (META.search(name) or (reference and META.search(reference))):
        w['cause'] = 'regex'
    elif r[0] == 'ok' and name.lower() in (r[1]['name'].lower(), r[1]['category_name'].lower()):
        w['cause'] = 'case-collision'
    else:
        w['cause'] = 'other'
    return w


def _queries(ctx):
    df = _catalog()
    names = sorted(set(df['name']))
    pairs = sorted(set(zip(df['category_name'], df['reference'])))
    rng = random.Random(ctx.seed * 17 + 5)
    if ctx.quick():
        names = rng.sample(names, 260)
        pairs = rng.sample(pairs, 140)
    coll = [(n, None) for g in collision_groups() for n in g]
    return coll + [(n, None) for n in names if (n, None) not in coll] + [(c, r) for c, r in pairs]


def check_lookup_property(ctx, queries=None):
    qs = _queries(ctx) if queries is None else queries
    res = {'name': 'catalogue-lookup-exact', 'n': len(qs), 'nontrivial': 0, 'samples': [], 'disagreements': [],
           'histogram': {'ok': 0, 'regex': 0, 'case-collision': 0, 'other': 0},
           'exhaustive': not ctx.quick()}
    for (n, rf) in qs:
        w = lookup_violation(n, rf)
        if w is None:
            res['histogram']['ok'] += 1
            res['nontrivial'] += 1
        else:
            res['histogram'][w['cause']] += 1
            res['disagreements'].append(w)
    res['samples'].append({'query': list(qs[0])})
    return res


def check_lookup_model(ctx):
    """literal-filter model (Model/M_C18.v lookup) against _find_material_matches on metacharacter-free queries"""
    df = _catalog()
    low = [[str(x).lower() for x in (c, cf, rf, nm, fn)] for c, cf, rf, nm, fn in
           zip(df['category_name'], df['category_name_full'], df['reference'], df['name'], df['filename'])]
    keyidx = {}
    for i, k4 in enumerate(zip(df['filename'], df['name'], df['reference'], df['category_name'])):
        keyidx.setdefault(k4, []).append(i)
    qs = [(n, rf) for (n, rf) in _queries(ctx) if not META.search(n) and not (rf and META.search(rf))]
    rng = random.Random(ctx.seed * 13 + 1)
    # add near-misses (one edit) so that non-zero scores and the "no match" path are exercised
    extra = []
    for (n, rf) in rng.sample(qs, min(len(qs), ctx.n(25, 300))):
        if len(n) > 2:
            k = rng.randrange(len(n))
            extra.append((n[:k] + n[k + 1:], rf))
    coll = [(n, None) for g in collision_groups() for n in g if not META.search(n)]
    qs = coll + rng.sample(qs, min(len(qs), ctx.n(70, 100000))) + [q for q in extra if not META.search(q[0])]
    res = {'name': 'lookup-model-vs-implementation', 'n': len(qs), 'nontrivial': 0, 'samples': [],
           'disagreements': [], 'histogram': {'match': 0, 'nomatch': 0}}
    rows_txt = _lower_rows_txt()
    try:
        rows_import = _rows_vo(rows_txt)
    except RuntimeError as e:
        res['error'] = str(e)
        return res
    rows_txt = ''
    per = max(1, (len(qs) + 3) // 4) if ctx.quick() else max(1, (len(qs) + 15) // 16)
    bodies, groups = [], []
    for s in range(0, len(qs), per):
        lines = []
        grp = qs[s:s + per]
        for (n, rf) in grp:
            r = impl_lookup(n, rf)
            if r[0] == 'ok':
                used = {}
                ids = []
                for k in r[2]:
                    j = used.get(k, 0)
                    used[k] = j + 1
                    ids.append(keyidx[k][j])
                ids.sort()
                sc = r[3]
                res['histogram']['match'] += 1
                res['nontrivial'] += 1
            else:
                ids, sc = [], -1
                res['histogram']['nomatch'] += 1
            oref = 'None' if not rf else f'(Some {coq_str(rf.lower())})'
            q = coq_str(n.lower())
            lines.append(f'(zlist_eqb (cand_idx {q} {oref} rows 0%Z) [{"; ".join(str(i) for i in ids)}]%Z '
                         f'&& (best_score {q} {oref} rows =? {sc})%Z)')
        bodies.append(rows_txt + 'Eval vm_compute in (report [\n' + ';\n'.join(lines) + '\n]).\n')
        groups.append(grp)
    try:
        out = vlib.run_cases('C18look', IMPORTS + '\n' + rows_import, bodies)
    except RuntimeError as e:
        res['error'] = str(e)
        return res
    for grp, o in zip(groups, out):
        if o[0] == 'error':
            res['error'] = o[1]
            return res
        for k in o[2]:
            n, rf = grp[k]
            w = lookup_violation(n, rf)
            res['disagreements'].append(w if w else {'kind': 'lookup-model', 'name': n, 'reference': rf,
                                                     'violates_property': False})
        if o[1] > len(o[2]):
            res['disagreements'].append({'kind': 'lookup-model', 'note': f'{o[1] - len(o[2])} more in shard',
                                         'violates_property': False})
    res['samples'].append({'query': list(qs[0])})
    return res


# ---- lookups through the real constructor, several in one process (history independence) ----
def _row_fields():
    if 'rowf' not in _cache:
        df = _catalog()
        _cache['rowf'] = [tuple(str(x) for x in t) for t in zip(df['category_name'], df['category_name_full'],
                                                                 df['reference'], df['name'], df['filename'])]
        _cache['rowr'] = [(float(a), float(b)) for a, b in zip(df['min_wavelength'], df['max_wavelength'])]
    return _cache['rowf'], _cache['rowr']


def py_lookup(q):
    """stateless reference model of the lookup: (candidate rows, their scores)"""
    rows, rng_ = _row_fields()
    name = q['name'].lower()
    ref = (q.get('reference') or '').lower()
    cands = []
    for i, f in enumerate(rows):
        if name not in f[0].lower() and name not in f[3].lower():
            continue
        if ref and not any(ref in x.lower() for x in f):
            continue
        ok = True
        for b in (q.get('min_wavelength'), q.get('max_wavelength')):
            if b and not (rng_[i][0] <= b <= rng_[i][1]):
                ok = False
        if ok:
            cands.append(i)
    scores = [min(py_lev(name, rows[i][0].lower()), py_lev(name, rows[i][3].lower())) for i in cands]
    return cands, scores


def impl_material(q):
    """the real constructor: ('ok', [possible catalogue rows of the returned entry], file) | ('raise', text)"""
    from optiland.materials.material import Material
    df = _catalog()
    if 'keyidx' not in _cache:
        k = {}
        for i, k4 in enumerate(zip(df['filename'], df['name'], df['reference'], df['category_name'])):
            k.setdefault(k4, []).append(i)
        _cache['keyidx'] = k
    try:
        with contextlib.redirect_stdout(io.StringIO()), warnings.catch_warnings():
            warnings.simplefilter('ignore')
            m = Material(q['name'], q.get('reference'), q.get('robust', True), q.get('min_wavelength'),
                         q.get('max_wavelength'))
    except Exception as e:
        return ('raise', f'{type(e).__name__}: {e}'[:120])
    d = m.material_data
    ids = _cache['keyidx'].get((d.get('filename'), d.get('name'), d.get('reference'), d.get('category_name')), [])
    return ('ok', ids, os.path.normpath(m.filename), d.get('filename'), m.name)


def history_step_violation(q, r):
    """judge ONE constructor call against the stateless model; None if it is what a fresh lookup must give"""
    rows, _ = _row_fields()
    cands, scores = py_lookup(q)
    name = q['name']
    if not cands or (not q.get('robust', True) and len(cands) > 1):
        return None if r[0] == 'raise' else 'expected ValueError (%d candidates)' % len(cands)
    if r[0] == 'raise':
        return 'raised ' + r[1]
    best = min(scores)
    good = {i for i, s_ in zip(cands, scores) if s_ == best}
    exact = {i for i in good if rows[i][3] == name or rows[i][0] == name}
    if exact:
        good = exact
    if not r[1] or not (set(r[1]) & good):
        got = rows[r[1][0]] if r[1] else None
        return 'returned %r; a fresh lookup gives one of %r' % (
            (got[0], got[3], got[4]) if got else r[3], sorted((rows[i][0], rows[i][3]) for i in good)[:3])
    if not r[2].endswith(os.path.normpath(r[3])) or r[4] != name:
        return 'loaded file %s / name %r do not belong to the selected row %s' % (r[2], r[4], r[3])
    return None


def collision_groups():
    df = _catalog()
    g = {}
    for n in set(df['name']) | set(df['category_name']):
        g.setdefault(n.lower(), set()).add(n)
    return [sorted(v) for v in g.values() if len(v) > 1]


def history_sequences(ctx):
    """sequences of constructor calls made in ONE process.  Always: every case-colliding catalogue name pair in both
    orders with repeats; the same name under different references / wavelength bounds / robust flags."""
    df = _catalog()
    rng = random.Random(ctx.seed * 19 + 7)
    Q = lambda n, rf=None, rb=True, lo=None, hi=None: {'name': n, 'reference': rf, 'robust': rb,
                                                       'min_wavelength': lo, 'max_wavelength': hi}
    seqs = []
    for grp in sorted(collision_groups()):
        for a in grp:
            for b in grp:
                if a != b:
                    seqs.append([Q(a), Q(b), Q(a), Q(b), Q(b.lower()), Q(a.upper()), Q(a)])
    bad_files = {fn for fn in df['filename'] if 'polyvinylpyrrolidone/Konig' in fn}
    cats = {}
    for i, (c, rf, fn, lo, hi) in enumerate(zip(df['category_name'], df['reference'], df['filename'],
                                                 df['min_wavelength'], df['max_wavelength'])):
        cats.setdefault(c, []).append((rf, fn, float(lo), float(hi)))
    multi = sorted(c for c, v in cats.items() if len({x[0] for x in v}) >= 2 and not any(x[1] in bad_files for x in v)
                   and not META.search(c))
    chosen = [c for c in ('BK7', 'SiO2') if c in multi] + rng.sample(multi, min(len(multi), ctx.n(3, 40)))
    for c in chosen:
        refs = sorted({x[0] for x in cats[c]})
        r1, r2 = refs[0], refs[-1]
        seqs.append([Q(c, r1), Q(c, r2), Q(c), Q(c, r1), Q(c, r2.lower()), Q(c, 'no-such-reference-xyz'), Q(c, r2)])
        seqs.append([Q(c, rb=True), Q(c, rb=False), Q(c, rb=True), Q(c, r1, rb=False), Q(c, r1, rb=True)])
        # wavelength bounds that select different rows of the same category
        v = cats[c]
        lo_max = max(x[2] for x in v)
        hi_max = max(x[3] for x in v)
        hi_min = min(x[3] for x in v)
        lo_min = min(x[2] for x in v)
        w_in = 0.5 * (lo_max + hi_min) if lo_max < hi_min else None
        ws = [w for w in (hi_max * 0.999, lo_min * 1.001, w_in, hi_max * 10.0) if w]
        seq = []
        for w in ws:
            seq += [Q(c, lo=w), Q(c), Q(c, hi=w)]
        seq += [Q(c, lo=ws[0], hi=ws[1]), Q(c, lo=ws[1], hi=ws[0]), Q(c)]
        seqs.append(seq)
    return seqs


def check_lookup_history(ctx, with_coq=True):
    """Material(...) constructed repeatedly in this process: every call must return what the stateless lookup model
    (Python reference; and Model/M_C18.v for the calls without wavelength bounds) gives for that call alone"""
    res = {'name': 'lookup-history-independence', 'n': 0, 'nontrivial': 0, 'samples': [], 'disagreements': [],
           'histogram': {'sequences': 0, 'returned': 0, 'raised': 0}}
    seqs = history_sequences(ctx)
    steps = []
    for si, seq in enumerate(seqs):
        res['histogram']['sequences'] += 1
        for k, q in enumerate(seq):
            r = impl_material(q)
            res['n'] += 1
            res['histogram']['returned' if r[0] == 'ok' else 'raised'] += 1
            res['nontrivial'] += int(r[0] == 'ok')
            steps.append((si, k, q, r))
            why = history_step_violation(q, r)
            if why:
                res['disagreements'].append({'kind': 'lookup-history', 'sequence': seq[:k + 1], 'step': k, 'query': q,
                                             'why': why, 'violates_property': True})
    if seqs:
        res['samples'].append({'sequence': [[q['name'], q['reference']] for q in seqs[0][:4]]})
    if not with_coq or res['disagreements']:
        return res
    # the same calls against the Coq lookup model (no wavelength bounds there)
    lines, meta = [], []
    done = set()
    for (si, k, q, r) in steps:
        if q['min_wavelength'] or q['max_wavelength']:
            continue
        sig = (q['name'].lower(), (q['reference'] or '').lower(), q['robust'], r[0], tuple(r[1]) if r[0] == 'ok' else ())
        if sig in done:
            continue                      # the model is stateless: identical (query, answer) pairs need one evaluation
        done.add(sig)
        qq = coq_str(q['name'].lower())
        oref = 'None' if not q['reference'] else f'(Some {coq_str(q["reference"].lower())})'
        if r[0] == 'ok' and r[1]:
            one = ' || '.join(f'(existsb (Z.eqb {i}%Z) (cand_idx {qq} {oref} rows 0%Z) && '
                              f'(score {qq} (nth {i} rows (mkRow [] [] [])) =? best_score {qq} {oref} rows)%Z)'
                              for i in r[1])
            lines.append(f'({one})')
        elif q['robust']:
            lines.append(f'zlist_eqb (cand_idx {qq} {oref} rows 0%Z) []')
        else:
            lines.append(f'negb (Nat.eqb (List.length (cand_idx {qq} {oref} rows 0%Z)) 1)')
        meta.append((si, k, q))
    try:
        low = _lower_rows_txt()
        imp = IMPORTS + '\n' + _rows_vo(low)
        per = max(1, (len(lines) + 1) // 2)
        bodies = ['Eval vm_compute in (report [\n' + ';\n'.join(lines[s:s + per]) + '\n]).\n'
                  for s in range(0, len(lines), per)]
        out = vlib.run_cases('C18hist', imp, bodies)
    except RuntimeError as e:
        res['error'] = str(e)
        return res
    for bi, o in enumerate(out):
        if o[0] == 'error':
            res['error'] = o[1]
            return res
        for kk in o[2]:
            si, k, q = meta[bi * per + kk]
            res['disagreements'].append({'kind': 'lookup-history-model', 'sequence': seqs[si][:k + 1], 'step': k,
                                         'query': q, 'violates_property': False})
        if o[1] > len(o[2]):
            res['disagreements'].append({'kind': 'lookup-history-model', 'note': 'more in shard',
                                         'violates_property': False})
    return res


def _lower_rows_txt():
    df = _catalog()
    low = [[str(x).lower() for x in (c, cf, rf, nm, fn)] for c, cf, rf, nm, fn in
           zip(df['category_name'], df['category_name_full'], df['reference'], df['name'], df['filename'])]
    # decoded once when the library is compiled (vm_compute), so that the shards do not decode 230k characters per query
    return 'Definition rows : list row := Eval vm_compute in [\n' + ';\n'.join(
        f'mkRow {coq_str(l[0])} {coq_str(l[3])} [{"; ".join(coq_str(x) for x in l)}]' for l in low) + '].\n'


def _rows_vo(rows_txt):
    """the lower-cased catalogue as a compiled Coq library (cached by content: parsing 230k characters of
    string literals takes ~25 s, far too long to repeat in every shard)"""
    import hashlib
    model = ''.join(open(os.path.join(vlib.COQ, *q)).read() for q in (
        ('Model', 'M_C18.v'), ('Gen', 'Materials.v'), ('Spec', 'S_C18.v'), ('Num', 'OpsC18.v'), ('Num', 'Ops.v'),
        ('Num', 'FloatInst.v')))
    h = hashlib.sha1((rows_txt + model).encode()).hexdigest()[:12]
    d = os.path.join(vlib.COQ, 'Cases', f'C18rows_{h}')
    vo = os.path.join(d, 'Rows.vo')
    import fcntl
    os.makedirs(vlib.BUILD, exist_ok=True)
    with open(os.path.join(vlib.BUILD, '.c18rows.lock'), 'w') as lk:     # own lock: never wait for other checks' proofs
        fcntl.flock(lk, fcntl.LOCK_EX)
        if not os.path.exists(vo):
            import glob, shutil
            for old in glob.glob(os.path.join(vlib.COQ, 'Cases', 'C18rows_*')):
                shutil.rmtree(old, ignore_errors=True)
            os.makedirs(d, exist_ok=True)
            with open(os.path.join(d, 'Rows.v'), 'w') as f:
                f.write(vlib.CASE_HEADER.format(imports=IMPORTS) + rows_txt)
            rc, out = vlib.sh(['timeout', '600', 'coqc', '-Q', vlib.COQ, 'OV', '-w', '-all', os.path.join(d, 'Rows.v')],
                              timeout=700)
            if rc != 0 or not os.path.exists(vo):
                raise RuntimeError('catalogue rows did not compile:\n' + out[-1500:])
    return f'From OV Require Import Cases.C18rows_{h}.Rows.'


def py_lev(a, b):
    prev = list(range(len(b) + 1))
    for i, ca in enumerate(a, 1):
        cur = [i]
        for j, cb in enumerate(b, 1):
            cur.append(min(prev[j] + 1, cur[j - 1] + 1, prev[j - 1] + (ca != cb)))
        prev = cur
    return prev[-1]


def _lev_pairs(ctx):
    df = _catalog()
    rng = random.Random(ctx.seed * 11 + 3)
    pool = [s.lower() for s in list(df['category_name']) + list(df['name'])]
    pairs = [('', ''), ('', 'abc'), ('abc', ''), ('kitten', 'sitting'), ('n-bk7', 'n-bk7'), ('a', 'b')]
    for _ in range(ctx.n(150, 3000)):
        a = rng.choice(pool)[:rng.randrange(1, 30)]
        m = rng.random()
        if m < 0.3:
            b = rng.choice(pool)[:rng.randrange(1, 30)]
        elif m < 0.4:
            b = a
        else:
            b = list(a)
            for _ in range(rng.randrange(1, 4)):
                op = rng.randrange(3)
                k = rng.randrange(len(b) + 1)
                if op == 0 and b:
                    del b[min(k, len(b) - 1)]
                elif op == 1:
                    b.insert(k, rng.choice('abcxyz019-() '))
                elif b:
                    b[min(k, len(b) - 1)] = rng.choice('abcxyz019-')
            b = ''.join(b)
        pairs.append((a, b))
    return pairs


def check_levenshtein(ctx):
    from optiland.materials.material import Material
    pairs = _lev_pairs(ctx)
    res = {'name': 'levenshtein-model-vs-implementation', 'n': len(pairs), 'nontrivial': 0, 'samples': [],
           'disagreements': [], 'histogram': {}}
    lines = []
    impl = []
    for a, b in pairs:
        d = int(Material._levenshtein_distance(a, b))
        impl.append(d)
        res['nontrivial'] += int(d > 0)
        lines.append(f'(lev {coq_str(a)} {coq_str(b)} =? {d})%Z')
    per = (len(lines) + 7) // 8
    bodies = ['Eval vm_compute in (report [\n' + ';\n'.join(lines[s:s + per]) + '\n]).\n' for s in range(0, len(lines), per)]
    try:
        out = vlib.run_cases('C18lev', IMPORTS, bodies)
    except RuntimeError as e:
        res['error'] = str(e)
        return res
    for bi, o in enumerate(out):
        if o[0] == 'error':
            res['error'] = o[1]
            return res
        for k in o[2]:
            a, b = pairs[bi * per + k]
            true = py_lev(a, b)
            got = impl[bi * per + k]
            res['disagreements'].append({'kind': 'levenshtein', 's1': a, 's2': b, 'implementation': got,
                                         'edit_distance': true,
                                         'violates_property': (got == 0) != (a == b) or got != true})
    res['samples'].append({'s1': pairs[3][0], 's2': pairs[3][1], 'distance': impl[3]})
    return res


# --------------------------------------------------------------------------
# Abbe number and model glass
# --------------------------------------------------------------------------
def _visible_files(ctx, limit):
    """catalogue rows whose range covers the F, d and C lines: a seeded sample, plus (always) rows whose index comes
    from an n,k table - absorbing media, where anomalous dispersion (n_F < n_C, negative Abbe number) occurs"""
    df = _catalog()
    ok = df[(df['min_wavelength'] <= 0.48) & (df['max_wavelength'] >= 0.66)]
    idx = list(ok.index)
    vis = set(idx)
    rng = random.Random(ctx.seed * 5 + 9)
    if len(idx) > limit:
        idx = rng.sample(idx, limit)
        nk = [i for i in table_structure()['nk-only'] if i in vis]
        keep = min(len(nk), max(30, limit // 4))
        step = len(nk) / float(keep) if keep else 1
        idx = sorted(set(idx) | {nk[int(k * step)] for k in range(keep)})
    return [df.loc[i] for i in sorted(idx)]


def check_abbe(ctx):
    from optiland.materials.material_file import MaterialFile
    from optiland.materials.ideal import IdealMaterial
    rows = _visible_files(ctx, ctx.n(120, 100000))
    res = {'name': 'abbe-number', 'n': 0, 'nontrivial': 0, 'samples': [], 'disagreements': [], 'histogram': {}}
    lines, meta = [], []
    with warnings.catch_warnings():
        warnings.simplefilter('ignore')
        mats = [('ideal-1.5', IdealMaterial(1.5))]
        for r in rows:
            try:
                mats.append((r['filename'], MaterialFile(_repo('database', 'data-nk', r['filename']))))
            except Exception:
                continue
        for tag, m in mats:
            try:
                nd, nF, nC = (_f(m.n(w)) for w in LINES)
                v = _f(m.abbe())
            except Exception:
                continue
            fn = (f'(fun w => if PrimFloat.eqb w {H(LINES[0])} then {H(nd)} else if PrimFloat.eqb w {H(LINES[1])} '
                  f'then {H(nF)} else if PrimFloat.eqb w {H(LINES[2])} then {H(nC)} else nan)')
            lines.append(f'(same (k_abbe FOps {fn}) {H(v)} && same (spec_abbe (O:=FOps) {H(nd)} {H(nF)} {H(nC)}) {H(v)})')
            exp = (nd - 1) / (nF - nC) if nF != nC else (math.copysign(math.inf, nd - 1) if nd != 1 else math.nan)
            meta.append((tag, nd, nF, nC, v, exp))
            res['nontrivial'] += int(math.isfinite(v))
    res['n'] = len(lines)
    res['histogram'] = {'anomalous_dispersion(n_F<n_C)': sum(1 for t in meta if t[2] < t[3]),
                        'normal_dispersion': sum(1 for t in meta if t[2] > t[3])}
    py_viol = any(not _agree(t[4], t[5], 1e-12) for t in meta)
    o = (0, 0, [])
    try:
        o = vlib.run_cases('C18abbe', IMPORTS, ['Eval vm_compute in (report [\n' + ';\n'.join(lines) + '\n]).\n'])[0]
        err = o[1] if o[0] == 'error' else None
    except RuntimeError as e:
        err = str(e)
    if err:
        # the definition of the Abbe number does not need the Coq model: report its verdicts anyway
        if not py_viol:
            res['error'] = err
            return res
        res['note'] = 'Coq model not evaluated: ' + err[-300:]
        o = (0, 0, [])
    bad = set(o[2])
    for k, (tag, nd, nF, nC, v, exp) in enumerate(meta):
        viol = not _agree(v, exp, 1e-12)
        if k in bad or viol:
            res['disagreements'].append({'kind': 'abbe', 'material': tag, 'n_d': nd, 'n_F': nF, 'n_C': nC,
                                         'implementation': v, 'definition': exp, 'violates_property': viol})
    if o[1] > len(o[2]):
        res['disagreements'].append({'kind': 'abbe', 'note': 'more mismatches', 'violates_property': False})
    if meta:
        res['samples'].append({'material': meta[-1][0], 'abbe': meta[-1][4]})
    return res


GLASS_TOL_N = 1e-3
GLASS_TOL_V = 0.12
GLASS_VMAX = 85.0


def schott_glasses():
    """(name, n_d, V_d) of the Schott catalogue glasses whose data cover the visible range (the glass-map region)"""
    if 'schott' in _cache:
        return _cache['schott']
    df = _catalog()
    g = df[df['filename'].str.startswith('glass/schott') & (df['min_wavelength'] <= 0.4) & (df['max_wavelength'] >= 0.7)]
    out = []
    for _, r in g.iterrows():
        secs = read_sections(_repo('database', 'data-nk', r['filename']))
        o = [oracle_n(secs, w) for w in LINES]
        if all(x[0] == 'ok' for x in o):
            nd, nF, nC = (x[1][0] for x in o)
            if nF != nC:
                out.append((r['name'], nd, (nd - 1) / (nF - nC)))
    _cache['schott'] = out
    return out


def glass_roundtrip(nd, vd):
    """(dn_d, relative dV, error text) of the implementation's model glass built from (nd, vd)"""
    from optiland.materials.abbe import AbbeMaterial
    a = AbbeMaterial(nd, vd)
    n_d, n_F, n_C = (_f(a.n(w)) for w in LINES)
    v = (n_d - 1) / (n_F - n_C) if n_F != n_C else math.inf
    return n_d - nd, (v - vd) / vd, v


def glass_violation(name, nd, vd):
    dn, dv, v = glass_roundtrip(nd, vd)
    if abs(dn) <= GLASS_TOL_N and abs(dv) <= GLASS_TOL_V:
        return None
    return {'kind': 'model-glass', 'glass': name, 'n_d': nd, 'V_d': vd, 'model_n_d_error': dn, 'model_V_d': v,
            'relative_V_error': dv, 'tolerance': [GLASS_TOL_N, GLASS_TOL_V], 'violates_property': True}


def check_model_glass(ctx):
    import numpy as np
    from optiland.materials.abbe import AbbeMaterial
    res = {'name': 'model-glass', 'n': 0, 'nontrivial': 0, 'samples': [], 'disagreements': [], 'histogram': {}}
    C = np.load(_repo('database', 'glass_model_coefficients.npy'))
    ctxt = '[' + '; '.join('[' + '; '.join(H(x) for x in row) + ']' for row in C) + ']'
    rng = random.Random(ctx.seed * 3 + 4)
    gl = schott_glasses()
    pts = [(nm, nd, vd) for nm, nd, vd in gl]
    for _ in range(ctx.n(60, 1500)):
        nm, nd, vd = rng.choice(gl)
        pts.append((nm + '~', nd + rng.uniform(-0.004, 0.004), vd + rng.uniform(-0.6, 0.6)))
    lines = []
    for nm, nd, vd in pts:
        a = AbbeMaterial(nd, vd)
        p = [float(x) for x in a._p]
        ws = [0.45, 0.5875618, 0.65]
        ns = [_f(a.n(w)) for w in ws]
        lines.append(f'(close_list {H(1e-11)} (glass_p (O:=FOps) C {H(nd)} {H(vd)}) [{"; ".join(H(x) for x in p)}] && '
                     + ' && '.join(f'close {H(1e-11)} (glass_n (O:=FOps) C {H(nd)} {H(vd)} {H(w)}) {H(n)}'
                                   for w, n in zip(ws, ns))
                     + ' && ' + ' && '.join(f'close {H(1e-13)} (k_abbe_n FOps {H(w)} [{"; ".join(H(x) for x in p)}]) {H(n)}'
                                            for w, n in zip(ws, ns)) + ')')
    res['n'] = len(pts)
    per = (len(lines) + 7) // 8
    bodies = [f'Definition C : list (list float) := {ctxt}.\nEval vm_compute in (report [\n' +
              ';\n'.join(lines[s:s + per]) + '\n]).\n' for s in range(0, len(lines), per)]
    try:
        out = vlib.run_cases('C18glass', IMPORTS, bodies)
    except RuntimeError as e:
        res['error'] = str(e)
        return res
    bad = set()
    for bi, o in enumerate(out):
        if o[0] == 'error':
            res['error'] = o[1]
            return res
        bad.update(bi * per + k for k in o[2])
        if o[1] > len(o[2]):
            bad.update(range(bi * per, min(len(pts), (bi + 1) * per)))
    for k, (nm, nd, vd) in enumerate(pts):
        # catalogue glasses are always judged; jittered points only inside the region the fit is good for
        w = glass_violation(nm, nd, vd) if (not nm.endswith('~') or vd <= GLASS_VMAX) else None
        res['nontrivial'] += 1
        if w:
            res['disagreements'].append(w)
        elif k in bad:
            res['disagreements'].append({'kind': 'model-glass-model', 'glass': nm, 'n_d': nd, 'V_d': vd,
                                         'violates_property': False})
    res['histogram'] = {'catalogue_glasses': len(gl), 'jittered': len(pts) - len(gl)}
    res['samples'].append({'glass': pts[0][0], 'n_d': pts[0][1], 'V_d': pts[0][2]})
    return res


def check_abbe_call(ctx):
    """`material.abbe()` must be callable on every material kind the property mentions"""
    from optiland.materials.abbe import AbbeMaterial
    from optiland.materials.ideal import IdealMaterial
    res = {'name': 'abbe-callable', 'n': 2, 'nontrivial': 2, 'samples': [], 'disagreements': [], 'histogram': {}}
    for tag, m in (('IdealMaterial(1.5)', IdealMaterial(1.5)), ('AbbeMaterial(1.5168, 64.17)', AbbeMaterial(1.5168, 64.17))):
        try:
            with warnings.catch_warnings():
                warnings.simplefilter('ignore')
                m.abbe()
        except ZeroDivisionError:
            pass                      # dispersion-free material: V is undefined
        except TypeError as e:
            res['disagreements'].append({'kind': 'abbe-call', 'material': tag, 'error': f'{type(e).__name__}: {e}'[:100],
                                         'violates_property': True})
    return res


# --------------------------------------------------------------------------
# the interface used by tools/runner.py
# --------------------------------------------------------------------------
def kernel_cases(ctx):
    g = ctx.gen
    df = _catalog()
    rng = random.Random(ctx.seed * 7 + 18)
    by_formula = {}
    for i in rng.sample(range(len(df)), len(df)):
        r = df.iloc[i]
        if len(by_formula) >= 8 and all(len(v) >= ctx.n(12, 60) for v in by_formula.values()):
            break
        for s in read_sections(_repo('database', 'data-nk', r['filename'])):
            if s[0] == 'formula' and len(by_formula.get(s[1], [])) < ctx.n(12, 60):
                by_formula.setdefault(s[1], []).append((s[2], float(r['min_wavelength']), float(r['max_wavelength'])))
    n = ctx.n(40, 400)
    for k in range(1, 10):
        cases = []
        for (c, lo, hi) in by_formula.get(k, []):
            for w in (lo, hi, g.uni(lo, hi)):
                cases.append([w, c])
        for i in range(n):
            ln = rng.choice([0, 1, 2, 3, 4, 5, 6, 7, 9, 10, 11, 12])
            if k in (8, 9) and i % 2:
                ln = 4 if k == 8 else 6
            c = [g.uni(-0.5, 2.5) if j % 2 == 0 else rng.choice([0.0, 1.0, 2.0, -2.0, g.uni(-4, 4)]) for j in range(ln)]
            if k in (1, 2, 6, 8, 9):
                c = [g.uni(0.001, 1.5) for _ in range(ln)]
            if k == 4:
                c = [abs(x) + 0.01 if j in (3, 7) else x for j, x in enumerate(c)]
            cases.append([g.uni(0.2, 3.0), c])
        yield f'formula_{k}', cases, {'tol': 1e-11}
    tabs = []
    for i in range(n):
        m = rng.choice([1, 2, 3, 5, 9, 30])
        xs = sorted(g.uni(0.2, 5.0) for _ in range(m))
        if i % 7 == 0 and m > 2:
            xs[1] = xs[0]                      # a repeated wavelength
        fs = [g.uni(0.0, 4.0) for _ in range(m)]
        w = rng.choice([xs[0], xs[-1], xs[rng.randrange(m)], g.uni(0.1, 5.5), g.uni(xs[0], xs[-1])])
        tabs.append([w, xs, fs])
    yield 'tabulated_n', tabs, {'tol': 1e-15, 'arrays': ['self._n_wavelength', 'self._n']}
    yield 'mat_k', tabs, {'tol': 1e-15, 'arrays': ['self._k_wavelength', 'self._k']}
    pol = [[g.uni(0.3, 2.5), [g.uni(-2, 2) for _ in range(rng.choice([1, 2, 4, 4, 6]))]] for _ in range(n)]
    yield 'abbe_n', pol, {'tol': 1e-14, 'arrays': ['self._p']}


# ---- wavelength arguments of any shape ----
def shape_rows(ctx):
    """rows of EVERY formula and table layout present in the catalogue (structural selection at run time: the rows on
    which every coefficient matters, each table layout, repeated-wavelength tables) plus a seeded sample"""
    df = _catalog()
    fi = _formula_index()
    st = table_structure()
    pick = []
    for k in range(1, 10):
        rows = [i for i in sensitive_rows() if fi.get(i, (0,))[0] == k]
        pick += rows[:2]
        lens = {}
        for i, (kk, c) in sorted(fi.items()):
            if kk == k:
                lens.setdefault(len(c), i)          # one row per number of terms
        pick += list(lens.values())[:4]
    for lay in ('n-only', 'nk-only', 'n+k', 'k-only', 'formula+k', 'formula+nk', 'repeated-wavelength', 'single-row-table'):
        pick += st[lay][:2]
    rng = random.Random(ctx.seed * 23 + 11)
    pick += rng.sample(range(len(df)), ctx.n(12, 400))
    bad = {i for i, fn in enumerate(df['filename']) if 'polyvinylpyrrolidone/Konig' in fn}
    return [i for i in sorted(set(pick)) if i not in bad]


def shape_arguments(rng, lo, hi, nterms):
    """wavelength arguments inside [lo, hi]: scalar, 0-d, 1-D and 2-D arrays; second dimensions equal to the number of
    formula terms, 1, and others; (1, b), (a, 1)"""
    import numpy as np
    m = max(1, nterms)
    shapes = [(), (1,), (4,), (1, 3), (3, 1), (1, m), (m, 1), (2, m), (m, m), (3, m + 1), (2, 3), (3, 2), (4, 7),
              (2, 2, m)]
    out = []
    for sh in shapes:
        n = int(np.prod(sh)) if sh else 1
        vals = [lo + (hi - lo) * rng.uniform(0.02, 0.98) for _ in range(n)]
        out.append(np.array(vals, dtype=float).reshape(sh))
    return out


def shape_violations(path, secs, lo, hi, rng):
    """n() and k() of one data file on arguments of many shapes: the result must have the argument's shape and each
    element must equal the scalar call at that wavelength and the data file's formula / consecutive-row interpolation"""
    import numpy as np
    from optiland.materials.material_file import MaterialFile
    out = []
    with warnings.catch_warnings():
        warnings.simplefilter('ignore')
        np.seterr(all='ignore')
        try:
            m = MaterialFile(path)
        except Exception as e:
            return out, 0
        fsec = [s for s in secs if s[0] == 'formula']
        nterms = (len(fsec[0][2]) - 1) // 2 if fsec else 3
        has_n = sum(1 for s in secs if s[0] in ('formula', 'n', 'nk')) == 1
        has_k = sum(1 for s in secs if s[0] in ('k', 'nk')) == 1
        count = 0
        for key, fn, orc, present in (('n', m.n, oracle_n, has_n), ('k', m.k, oracle_k, has_k)):
            if not present:
                continue
            for arg in shape_arguments(rng, lo, hi, nterms):
                count += arg.size
                what = f'{key}(array of shape {arg.shape})'
                try:
                    res = fn(arg)
                except Exception as e:
                    out.append({'cause': 'array-argument-raises', 'call': what, 'error': f'{type(e).__name__}: {e}'[:100]})
                    continue
                if np.shape(res) != arg.shape:
                    out.append({'cause': 'array-shape', 'call': what, 'result_shape': list(np.shape(res)),
                                'argument': np.ravel(arg).tolist()[:8]})
                    continue
                fa, fr = np.ravel(arg), np.ravel(np.asarray(res))
                for w, v in zip(fa, fr):
                    w = float(w)
                    if np.iscomplexobj(v):
                        continue
                    v = float(v)
                    try:
                        sv = _f(fn(w))
                    except Exception:
                        sv = None
                    o = orc(secs, w)
                    if sv is None or not _agree(v, sv, 1e-13):
                        out.append({'cause': 'scalar-array', 'call': what, 'wavelength': w, 'array_element': v,
                                    'scalar_call': sv, 'oracle': o[1][:2] if o[0] == 'ok' else None})
                        break
                    if o[0] == 'ok' and not _agree_any(v, o[1]):
                        out.append({'cause': 'index-value' if key == 'n' else 'k-value', 'call': what, 'wavelength': w,
                                    'array_element': v, 'oracle': o[1][:2]})
                        break
    return out, count


def check_shapes(ctx, rows=None):
    """"scalar and array wavelength arguments agree" over array arguments of any shape (implementation-level oracle only:
    no Coq involved, so it reports even when a kernel cannot be translated)"""
    df = _catalog()
    rows = shape_rows(ctx) if rows is None else rows
    rng = random.Random(ctx.seed * 29 + 2)
    res = {'name': 'array-argument-shapes', 'n': 0, 'nontrivial': 0, 'samples': [], 'disagreements': [],
           'histogram': {}}
    for i in rows:
        r = df.iloc[i]
        path = _repo('database', 'data-nk', r['filename'])
        secs = read_sections(path)
        layout = '+'.join(s[0] + (str(s[1]) if s[0] == 'formula' else '') for s in secs)
        res['histogram'][layout] = res['histogram'].get(layout, 0) + 1
        if any(not nondecreasing([q[0] for q in s[1]]) for s in secs if s[0] in ('n', 'k', 'nk')):
            continue                        # rows out of order: covered by catalogue-index
        viol, cnt = shape_violations(path, secs, float(r['min_wavelength']), float(r['max_wavelength']), rng)
        res['n'] += cnt
        res['nontrivial'] += int(cnt > 0)
        if viol:
            res['disagreements'].append({'kind': 'array-shape', 'file': r['filename'], 'row': int(i),
                                         'cause': viol[0]['cause'], 'oracle': viol[:3], 'violations': len(viol),
                                         'violates_property': True})
    res['samples'].append({'shapes': '(), (1,), (4,), (1,3), (3,1), (1,m), (m,1), (2,m), (m,m), (3,m+1), (2,3), (3,2), (4,7), (2,2,m); m = number of formula terms'})
    return res


# ---- wavelength arguments of any numeric TYPE (whole microns passed as integers) ----
INT_SYNTH_PER_FORMULA = 5


def _whole_microns(lo, hi, cap=4):
    """the whole numbers of microns inside [lo, hi] (first, last and evenly spread ones, at most `cap`)"""
    a, b = max(1, int(math.ceil(lo - 1e-12))), int(math.floor(hi + 1e-12))
    ws = [w for w in range(a, min(b, a + 5000) + 1) if lo <= w <= hi]
    if len(ws) > cap:
        ws = sorted({ws[0], ws[-1]} | {ws[(len(ws) - 1) * j // (cap - 1)] for j in range(cap)})
    return ws


def type_rows(ctx):
    """catalogue rows whose stated range contains a whole number of microns: per formula the rows on which every
    coefficient matters, one row per number of terms and the first ones in catalogue order; per table layout the first
    rows; plus a seeded sample.  {row: class}"""
    df = _catalog()
    fi = _formula_index()
    st = table_structure()

    def whole(i):
        r = df.iloc[i]
        return bool(_whole_microns(float(r['min_wavelength']), float(r['max_wavelength'])))
    bad = {i for i, fn in enumerate(df['filename']) if 'polyvinylpyrrolidone/Konig' in fn}
    ti = _table_index()
    pick = {}
    for k in range(1, 10):
        rows = [i for i in sensitive_rows() if fi.get(i, (0,))[0] == k and whole(i)]
        lens = {}
        allk = [i for i, (kk, c) in sorted(fi.items()) if kk == k and whole(i)]
        for i in allk:
            lens.setdefault(len(fi[i][1]), i)
        for i in (rows[:4] + list(lens.values())[:8] + allk)[:ctx.n(30, 120)]:    # thorough: capped (the whole catalogue took > 40 min)
            pick.setdefault(i, f'formula {k}')
    for lay in ('n-only', 'nk-only', 'n+k', 'k-only', 'formula+k', 'formula+nk', 'repeated-wavelength'):
        rows = [i for i in st[lay] if whole(i) and max(len(xs) for _, xs in ti[i]) < 3000]
        for i in rows[:ctx.n(3, 40)]:
            pick.setdefault(i, 'table ' + lay)
    rng = random.Random(ctx.seed * 37 + 5)
    cand = [i for i in range(len(df)) if i not in pick and i not in bad and whole(i)
            and (i in fi or i not in ti or max(len(xs) for _, xs in ti[i]) < 3000)]
    for i in rng.sample(cand, min(len(cand), ctx.n(100, 600))):
        pick.setdefault(i, 'seeded sample')
    return {i: c for i, c in sorted(pick.items()) if i not in bad}


def typed_arguments(ws):
    """[(description, argument, [float wavelengths in result order], result shape)] - the same whole-micron
    wavelengths as Python / numpy integers, 0-d, 1-D and 2-D integer arrays, and as floats (reference route)"""
    import numpy as np
    out = []
    for w in ws:
        out.append((f'{w} (python int)', int(w), [float(w)], ()))
        out.append((f'numpy.int64({w})', np.int64(w), [float(w)], ()))
        if w <= 1000:
            out.append((f'numpy.int32({w})', np.int32(w), [float(w)], ()))
        out.append((f'numpy.array({w}) (0-d, integer dtype)', np.array(int(w)), [float(w)], ()))
        out.append((f'{float(w)!r} (python float)', float(w), [float(w)], ()))
        out.append((f'numpy.float64({w})', np.float64(w), [float(w)], ()))
    fl = [float(w) for w in ws]
    out.append((f'numpy.array({list(ws)}, dtype=int64)', np.array(ws, dtype=np.int64), fl, (len(ws),)))
    if max(ws) <= 1000:
        out.append((f'numpy.array({list(ws)}, dtype=int32)', np.array(ws, dtype=np.int32), fl, (len(ws),)))
    out.append((f'numpy.array([{list(ws)}], dtype=int64) (2-D)', np.array([ws], dtype=np.int64), fl, (1, len(ws))))
    out.append((f'numpy.array({list(ws)}, dtype=float)', np.array(ws, dtype=float), fl, (len(ws),)))
    return out


def typed_violations(m, secs, ws, formula=None):
    """n() and k() of one loaded data file on whole-micron wavelengths of every numeric type: each result must have
    the argument's shape and equal the data file's formula / consecutive-row interpolation at float(w) - the expected
    value is computed here from the file, never from another call of the implementation"""
    import numpy as np
    out, count = [], 0
    has_n = sum(1 for s in secs if s[0] in ('formula', 'n', 'nk')) == 1
    has_k = sum(1 for s in secs if s[0] in ('k', 'nk')) == 1
    with warnings.catch_warnings():
        warnings.simplefilter('ignore')
        np.seterr(all='ignore')
        for key, fn, orc, present in (('n', m.n, oracle_n, has_n), ('k', m.k, oracle_k, has_k)):
            if not present:
                continue
            orcs = {float(w): orc(secs, float(w)) for w in ws}
            if any(o[0] == 'ok' and any(isinstance(e, complex) or not math.isfinite(e) for e in o[1])
                   for o in orcs.values()):
                continue
            wk = [w for w in ws if orcs[float(w)][0] == 'ok']      # (a 0/0 term of the file itself: nothing promised)
            for desc, arg, fl, shape in (typed_arguments(wk) if wk else []):
                integer = 'float' not in desc
                count += len(fl)
                base = {'call': f'{key}({desc})', 'formula': formula}
                try:
                    res = fn(arg)
                except Exception as e:
                    out.append(dict(base, cause='integer-argument-raises' if integer else 'float-argument-raises',
                                    error=f'{type(e).__name__}: {e}'[:120],
                                    oracle=[orcs[w][1][:2] if orcs[w][0] == 'ok' else None for w in fl]))
                    continue
                if np.shape(res) != shape:
                    out.append(dict(base, cause='integer-argument-shape' if integer else 'array-shape',
                                    result_shape=list(np.shape(res)), argument_shape=list(shape)))
                    continue
                for w, v in zip(fl, np.ravel(np.asarray(res))):
                    o = orcs[w]
                    if o[0] != 'ok':
                        continue
                    if np.iscomplexobj(v) or not _agree_any(float(v), o[1]):
                        out.append(dict(base, cause=('integer-argument-value' if integer else
                                                     ('index-value' if key == 'n' else 'k-value')),
                                        wavelength=w, implementation=complex(v).real if np.iscomplexobj(v) else float(v),
                                        oracle=o[1][:2], result_dtype=str(np.asarray(res).dtype)))
                        break
    return out, count


def synthetic_files(ctx, tmp):
    """generated data files of all nine formulas (every coefficient non-zero and distinct, exponents integral and
    fractional, positive and negative) valid at 1, 2 and 3 um: [(path, formula)].  Formulas 7 and 8 have no catalogue
    row whose range contains a whole micron."""
    rng = random.Random(ctx.seed * 41 + 9)
    out = []
    for k in range(1, 10):
        made = 0
        for _ in range(80):
            ln = {4: rng.choice([9, 11, 13]), 7: rng.choice([3, 4, 5, 6]), 8: 4, 9: 6}.get(k, rng.choice([3, 5, 7]))
            scale = 0.12 if k == 8 else (0.02 if k == 7 else 1.0)
            c = [round((rng.uniform(0.05, 0.9) + 0.01 * j) * scale, 5) for j in range(ln)]
            if k in (3, 5):
                c[0] = round(rng.uniform(1.2, 3.4), 6)
                for j in range(2, ln, 2):
                    c[j] = rng.choice([-4.0, -2.0, 2.0, 4.0, -1.0, 1.0, 0.5, -1.5])
                    c[j - 1] = round(c[j - 1] * 0.02, 6)
            if k == 4:
                c[0] = round(rng.uniform(1.5, 3.0), 6)
                for j in (2, 6):
                    c[j] = rng.choice([0.0, 2.0])
                for j in (4, 8):
                    c[j] = rng.choice([1.0, 2.0])
                for j in range(10, ln, 2):
                    c[j] = rng.choice([-4.0, -2.0, 2.0, 4.0])
                    c[j - 1] = round(c[j - 1] * 0.01, 6)
            if k == 6:
                c = [round(x * 1e-3, 8) if j % 2 == 1 or j == 0 else round(20 + 80 * x, 5) for j, x in enumerate(c)]
            if k == 7:
                c[0] = round(rng.uniform(1.4, 2.5), 6)
            try:
                vals = [py_formula(k, c, float(w)) for w in (1, 2, 3)]
            except (ValueError, ZeroDivisionError, OverflowError):
                continue
            if any(isinstance(v, complex) or not math.isfinite(v) or not 1.0 <= v < 6 for v in vals):
                continue
            path = os.path.join(tmp, f'synthetic_formula{k}_{made}.yml')
            with open(path, 'w') as f:
                f.write('REFERENCES: "generated by the C18 check"\nDATA:\n  - type: formula %d\n'
                        '    wavelength_range: 0.9 3.1\n    coefficients: %s\n' % (k, ' '.join(repr(x) for x in c)))
            out.append((path, k))
            made += 1
            if made >= ctx.n(INT_SYNTH_PER_FORMULA, 40):
                break
    return out


def check_argument_types(ctx):
    """"the index returned at ANY wavelength inside the range equals the formula ... scalar and array arguments agree"
    for wavelengths that are whole numbers of microns handed over as Python ints, numpy integer scalars and
    integer-dtype arrays (implementation-level oracle; expected values from the data file)"""
    import tempfile
    from optiland.materials.material_file import MaterialFile
    df = _catalog()
    res = {'name': 'integer-typed-wavelengths', 'n': 0, 'nontrivial': 0, 'samples': [], 'disagreements': [],
           'histogram': {}}
    hist = res['histogram']

    def run(path, label, secs, ws, formula, row=None):
        try:
            with warnings.catch_warnings():
                warnings.simplefilter('ignore')
                m = MaterialFile(path)
        except Exception:
            return
        viol, cnt = typed_violations(m, secs, ws, formula)
        res['n'] += cnt
        res['nontrivial'] += int(cnt > 0)
        seen = set()
        for v in viol:
            if v['cause'] in seen:
                continue
            seen.add(v['cause'])
            res['disagreements'].append(dict(v, kind='argument-type', file=label, row=row, wavelengths=list(ws),
                                             violations=sum(1 for x in viol if x['cause'] == v['cause']),
                                             violates_property=True))

    for i, cls in type_rows(ctx).items():
        r = df.iloc[i]
        path = _repo('database', 'data-nk', r['filename'])
        secs = read_sections(path)
        if any(not nondecreasing([q[0] for q in s[1]]) for s in secs if s[0] in ('n', 'k', 'nk')):
            continue
        ws = _whole_microns(float(r['min_wavelength']), float(r['max_wavelength']))
        layout = '+'.join(s[0] + (str(s[1]) if s[0] == 'formula' else '') for s in secs)
        hist['catalogue ' + layout] = hist.get('catalogue ' + layout, 0) + 1
        hist['whole microns per row: %d' % len(ws)] = hist.get('whole microns per row: %d' % len(ws), 0) + 1
        fs = [s[1] for s in secs if s[0] == 'formula']
        run(path, r['filename'], secs, ws, fs[0] if fs else None, int(i))
    tmp = tempfile.mkdtemp(prefix='c18_types_', dir='/tmp')
    try:
        for path, k in synthetic_files(ctx, tmp):
            secs = read_sections(path)
            hist[f'generated formula{k}'] = hist.get(f'generated formula{k}', 0) + 1
            run(path, 'generated:' + open(path).read().split('coefficients:')[1].strip(), secs, [1, 2, 3], k)
    finally:
        import shutil
        shutil.rmtree(tmp, ignore_errors=True)
    res['samples'].append({'argument types': 'python int, numpy.int64, numpy.int32, 0-d / 1-D / 2-D integer arrays, '
                                             'python float, numpy.float64, float array; whole microns inside the range'})
    return res


def system_checks(ctx):
    yield check_index(ctx)
    yield check_shapes(ctx)
    yield check_argument_types(ctx)
    yield check_lookup_property(ctx)
    yield check_lookup_model(ctx)
    yield check_lookup_history(ctx)
    yield check_levenshtein(ctx)
    yield check_abbe(ctx)
    yield check_model_glass(ctx)
    yield check_abbe_call(ctx)


def search(ctx, broken, disagreements):
    """the property stated directly on the implementation (Python oracles only), seeded sweep"""
    found = []
    df = _catalog()
    rng = random.Random(ctx.seed + 1818)
    idx = rng.sample(range(len(df)), ctx.n(400, len(df)))
    # rows on which every coefficient position matters come first (a changed coefficient index shows there)
    first = sensitive_rows() + [i for i in unusual_table_rows() if i not in set(sensitive_rows())]
    idx = first + [i for i in idx if i not in set(first)]
    for i in idx:
        r = df.iloc[i]
        path = _repo('database', 'data-nk', r['filename'])
        secs = read_sections(path)
        ws, _ = row_samples(ctx, r, secs, True)
        viol = oracle_row(r, secs, ws, impl_index(path, ws))
        if viol:
            found.append({'kind': 'index', 'file': r['filename'], 'row': int(i), 'cause': viol[0]['cause'],
                          'oracle': viol[:3], 'violates_property': True})
            if len([f for f in found if f['kind'] == 'index' and f['cause'] != 'table-rows-out-of-order']) >= 6:
                break
    from optiland.materials.material import Material
    for a, b in _lev_pairs(ctx):
        d = int(Material._levenshtein_distance(a, b))
        if d != py_lev(a, b):
            found.append({'kind': 'levenshtein', 's1': a, 's2': b, 'implementation': d, 'edit_distance': py_lev(a, b),
                          'violates_property': True})
            break
    seen = set()
    for (n, rf) in _queries(ctx):
        w = lookup_violation(n, rf)
        if w and w['cause'] not in seen:
            seen.add(w['cause'])
            found.append(w)
    r = check_abbe_python(ctx)
    found.extend(r)
    found.extend(check_shapes(ctx)['disagreements'][:4])
    found.extend(check_lookup_history(ctx, with_coq=False)['disagreements'][:3])
    if not any(f['kind'] == 'index' for f in found):
        found.extend(synthetic_formula_search(ctx))
    for nm, nd, vd in schott_glasses():
        w = glass_violation(nm, nd, vd)
        if w:
            found.append(w)
    r = check_abbe_call(ctx)
    found.extend(r['disagreements'])
    return found or None


def synthetic_formula_search(ctx):
    """all nine formulas on generated data files (every coefficient non-zero and distinct): used when no catalogue
    row shows a difference (formula 7 has no catalogue entry at all)"""
    from optiland.materials.material_file import MaterialFile
    rng = random.Random(ctx.seed + 77)
    out = []
    for k in range(1, 10):
        for _ in range(40):
            ln = {4: rng.choice([9, 11, 13]), 7: rng.choice([3, 4, 5, 6]), 8: 4, 9: 6}.get(k, rng.choice([3, 5, 7]))
            c = [round(rng.uniform(0.05, 0.9) + 0.01 * j, 4) for j in range(ln)]
            if k in (3, 4, 5):
                for j in range(ln):
                    if (k != 4 and j % 2 == 0 and j > 0) or (k == 4 and j in (2, 4, 6, 8) or (k == 4 and j > 9 and j % 2 == 0)):
                        c[j] = float(rng.choice([-4, -2, 2, 4])) + 0.5 * (j % 3)
            w = rng.uniform(1.2, 2.0)
            try:
                exp = py_formula(k, c, w)
            except (ValueError, ZeroDivisionError, OverflowError):
                continue
            if isinstance(exp, complex) or not math.isfinite(exp):
                continue
            m = MaterialFile.__new__(MaterialFile)
            m.coefficients = list(c)
            try:
                with warnings.catch_warnings():
                    warnings.simplefilter('ignore')
                    got = _f(getattr(m, f'_formula_{k}')(w))
            except Exception as e:
                got = None
            if got is None or not _agree(got, exp):
                out.append({'kind': 'formula-synthetic', 'formula': k, 'coefficients': c, 'wavelength': w,
                            'implementation': got, 'published_formula': exp, 'violates_property': True})
                break
    return out


def check_abbe_python(ctx):
    from optiland.materials.material_file import MaterialFile
    out = []
    with warnings.catch_warnings():
        warnings.simplefilter('ignore')
        for r in _visible_files(ctx, 60):
            try:
                m = MaterialFile(_repo('database', 'data-nk', r['filename']))
                nd, nF, nC = (_f(m.n(w)) for w in LINES)
                v = _f(m.abbe())
            except Exception:
                continue
            if nF != nC and not _agree(v, (nd - 1) / (nF - nC), 1e-12):
                out.append({'kind': 'abbe', 'material': r['filename'], 'implementation': v,
                            'definition': (nd - 1) / (nF - nC), 'violates_property': True})
                break
    return out


def matches_finding(w, f):
    m = f.get('match', {})
    if w.get('kind') != m.get('kind'):
        return False
    k = m['kind']
    if k == 'lookup':
        if w.get('cause') != m.get('cause'):
            return False
        if m.get('cause') == 'case-collision':
            return w.get('name') in m.get('queries', [])
        return True           # cause 'regex' is established by re-running the lookup with a literal filter
    if k == 'index':
        return w.get('cause') == m.get('cause') and ('file' not in m or w.get('file') == m.get('file'))
    if k == 'abbe-call':
        return m.get('class', '') in w.get('material', '') and 'not callable' in w.get('error', '')
    if k == 'argument-type':
        return (w.get('cause') == m.get('cause') and w.get('formula') == m.get('formula')
                and m.get('error', '') in w.get('error', '') and 'python int' not in w.get('call', '')
                and 'float' not in w.get('call', ''))
    if k == 'model-glass':
        return w.get('V_d', 0) > m.get('V_d_above', 1e9) and abs(w.get('model_n_d_error', 1)) <= GLASS_TOL_N
    return False


def replay_finding(ctx, f):
    m = f.get('match', {})
    k = m.get('kind')
    if k == 'lookup':
        w = lookup_violation(m['example']['name'], m['example'].get('reference'))
        return bool(w) and w['cause'] == m['cause']
    if k == 'index':
        df = _catalog()
        fname = m.get('file') or m.get('example', {}).get('file')
        rows = [i for i, fn in enumerate(df['filename']) if fn == fname]
        if not rows:
            return False
        r = df.iloc[rows[0]]
        path = _repo('database', 'data-nk', r['filename'])
        secs = read_sections(path)
        ws, _ = row_samples(ctx, r, secs, True)
        viol = oracle_row(r, secs, ws, impl_index(path, ws))
        return bool(viol) and viol[0]['cause'] == m['cause']
    if k == 'abbe-call':
        return any(m['class'] in d['material'] for d in check_abbe_call(ctx)['disagreements'])
    if k == 'argument-type':
        import numpy as np
        from optiland.materials.material_file import MaterialFile
        ex = m['example']
        path = _repo('database', 'data-nk', ex['file'])
        o = oracle_n(read_sections(path), float(ex['wavelength']))
        try:
            with warnings.catch_warnings():
                warnings.simplefilter('ignore')
                v = _f(MaterialFile(path).n(np.int64(ex['wavelength'])))
        except Exception as e:
            return m.get('error', '') in str(e)
        return not (o[0] == 'ok' and _agree_any(v, o[1]))
    if k == 'model-glass':
        ex = m['example']
        return glass_violation(ex['glass'], ex['n_d'], ex['V_d']) is not None
    return None


def broken_explained(b, known, witnesses):
    """no proof or correspondence obligation of C18 is expected to break because of a listed finding:
    the findings show up as property violations inside otherwise-discharged system checks"""
    return False

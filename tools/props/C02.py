"""C02 - every traced ray obeys Snell / reflection on the prescribed surface."""
import math
from props.common import BASE_TRUSTED

PROP = 'C02'
KERNELS = ['align', 'refract', 'reflect', 'rotate_x', 'rotate_y', 'rotate_z',
           'std_sag', 'std_distance', 'std_normal', 'plane_distance']
THEOREMS = ['C02_refract_unit', 'C02_refract_snell', 'C02_refract_halfspace', 'C02_reflect_unit',
            'C02_reflect_law', 'C02_rotate_x_orthogonal', 'C02_rotate_y_orthogonal',
            'C02_rotate_z_orthogonal', 'C02_rotate_x_inverse', 'C02_rotate_y_inverse',
            'C02_rotate_z_inverse', 'C02_plane_distance_sound', 'C02_plane_distance_miss',
            'C02_conic_distance_sound', 'C02_conic_distance_miss', 'C02_std_normal_unit',
            'C02_std_normal_parallel_gradient', 'C02_std_sag_on_quadric']
TRUSTED_BASE = BASE_TRUSTED + [
    'modelled, not verified: material.n(w) values are inputs of the trace model (C18 covers them)',
]
RULE = ('kernel cases: seeded random unit directions/normals, index pairs in [1,4], radii of both signs, '
        'conics incl. 0/-1, axis-parallel rays (a==0 branch), misses and TIR (~15%); non-trivial = finite result')
PARTIAL = ['conic sheet selection: the hit is proved to lie on the quadric; that it is the sag sheet is a hypothesis of std_normal_parallel_gradient']


def kernel_cases(ctx):
    g = ctx.gen
    n = ctx.n(300, 3000)
    # refract / reflect / align
    cases_r, cases_f = [], []
    for i in range(n):
        d = g.unit3()
        nn = g.unit3()
        n1 = g.uni(1, 4)
        n2 = g.uni(1, 4)
        if i % 17 == 0:
            nn = [0.0, 0.0, 1.0]
        if i % 23 == 0:
            d = [0.0, 0.0, 1.0]
        cases_r.append(nn + [n1, n2] + d)
        cases_f.append(nn + d)
    yield 'refract', cases_r, {}
    yield 'reflect', cases_f, {}
    yield 'align', cases_f, {}
    rot = []
    for i in range(n):
        a = g.uni(-0.6, 0.6) if i % 5 else g.uni(-3.2, 3.2)
        rot.append([a, g.uni(-50, 50), g.uni(-50, 50)] + g.unit3()[:2])
    yield 'rotate_x', rot, {'tol': 1e-12, 'scalars': ['rx']}
    yield 'rotate_y', rot, {'tol': 1e-12, 'scalars': ['ry']}
    yield 'rotate_z', rot, {'tol': 1e-12, 'scalars': ['rz']}
    # conic distance: inputs (k N L M z x y R)
    dist = []
    for i in range(n):
        R = g.uni(5, 200) * g.r.choice([-1, 1])
        k = g.r.choice([0.0, -1.0, g.uni(-3, 2), g.uni(-1.2, 0.5)])
        d = g.unit3()
        if d[2] < 0 and i % 4:
            d[2] = -d[2]
        if i % 11 == 0:
            d = [0.0, 0.0, 1.0]              # axis-parallel: a == 0 when k == -1
        x, y = g.uni(-0.8, 0.8) * abs(R), g.uni(-0.8, 0.8) * abs(R)
        if i % 7 == 0:
            x, y = x * 3, y * 3              # miss
        z = g.uni(-30, 5)
        dist.append([k, d[2], d[0], d[1], z, x, y, R])
    yield 'std_distance', dist, {'scalars': ['self.k', 'self.radius']}
    sag = []
    for i in range(n):
        R = g.uni(5, 200) * g.r.choice([-1, 1])
        k = g.r.choice([0.0, -1.0, g.uni(-3, 2)])
        s = 1.5 if i % 9 == 0 else 0.7
        sag.append([g.uni(-s, s) * abs(R), g.uni(-s, s) * abs(R), R, k])
    yield 'std_sag', sag, {'scalars': ['self.k', 'self.radius']}
    yield 'std_normal', sag, {'scalars': ['self.k', 'self.radius']}
    pl = [[g.uni(-50, 50), g.unit3()[2]] for _ in range(n)] + [[1.0, 0.0], [0.0, 0.0], [-2.0, 0.0]]
    yield 'plane_distance', pl, {}


def system_checks(ctx):
    return []


def search(ctx, broken, disagreements):
    return None


def matches_finding(w, f):
    return False


def replay_finding(ctx, f):
    return None


def broken_explained(b, known, witnesses):
    return False

"""C02 - every traced ray obeys Snell / reflection on the prescribed surface."""
import math
from props.common import BASE_TRUSTED

PROP = 'C02'
KERNELS = ['align', 'refract', 'reflect', 'rotate_x', 'rotate_y', 'rotate_z', 'translate', 'propagate',
           'std_sag', 'std_distance', 'std_normal', 'plane_distance', 'nr_sphere', 'ea_sag', 'ea_normal',
           'pg_sag', 'pg_normal', 'cheb_T', 'cheb_dT', 'cheb_validate', 'cheb_sag', 'cheb_normal',
           'radial_clip', 'rr_clip', 'coat_transmit', 'coat_reflect',
           'plumb_trace_real', 'plumb_interact', 'plumb_surface_trace', 'plumb_localize', 'plumb_globalize', 'plumb_coat_interact', 'plumb_group_trace', 'plumb_geom_localize', 'plumb_geom_globalize']
THEOREMS = ['C02_refract_unit', 'C02_refract_snell', 'C02_refract_halfspace', 'C02_reflect_unit',
            'C02_reflect_law', 'C02_rotate_x_orthogonal', 'C02_rotate_y_orthogonal',
            'C02_rotate_z_orthogonal', 'C02_rotate_x_inverse', 'C02_rotate_y_inverse',
            'C02_rotate_z_inverse', 'C02_plane_distance_sound', 'C02_plane_distance_miss',
            'C02_conic_distance_sound', 'C02_conic_distance_miss', 'C02_std_normal_unit',
            'C02_std_normal_parallel_gradient', 'C02_std_sag_on_quadric',
            'C02_surface_opd', 'C02_opl_is_sum', 'C02_opl_increment_n_times_t', 'C02_propagate_is_translation',
            'C02_propagate_length', 'C02_std_sag_dx', 'C02_std_sag_dy', 'C02_std_normal_is_gradient',
            'C02_ea_sag_is_conic_plus_poly', 'C02_ea_sag_dx', 'C02_ea_normal_is_gradient',
            'C02_refract_tir_nonfinite', 'C02_refract_lift', 'C02_reflect_lift',
            'C02_globalize_localize', 'C02_localize_globalize', 'C02_recorded_point_in_surface_frame',
            'C02_conic_distance_sound_sheet', 'C02_sheet_is_sag_sheet', 'C02_conic_distance_nonneg',
            'C02_trace_surface_is_regenerated_plumbing', 'C02_trace_is_regenerated_plumbing', 'C02_frame_change_is_regenerated_plumbing', 'C02_repo_lists_def']
TRUSTED_BASE = BASE_TRUSTED + [
    'modelled, not verified: material.n(w) values are inputs of the trace model (C18 covers them)',
    'hand model coq/Model/Trace.v: proved equal to the execution (coq/Model/Plumb.v) of the plumbing lists regenerated from the source by tools/py2coq_plumb.py (statement-pattern table, fail-closed) and tied by per-surface correspondence of the recorded rays',
]
RULE = ('kernel cases: seeded random unit directions/normals, index pairs in [1,4], radii of both signs, '
        'conics incl. 0/-1, axis-parallel rays (a==0 branch), misses and TIR (~15%); non-trivial = finite result')
COQ_TARGETS = ['Model/Trace.vo']
PARTIAL = []


def kernel_cases(ctx):
    g = ctx.gen
    n = ctx.n(300, 3000)
    # refract / reflect / align
    cases_r, cases_f = [], []
    for i in range(n):
        d = g.unit3()
        nn = g.unit3()
        n1 = g.uni(1, 4)
        n2 = g.uni(1, 4)
        if i % 17 == 0:
            nn = [0.0, 0.0, 1.0]
        if i % 23 == 0:
            d = [0.0, 0.0, 1.0]
        cases_r.append(nn + [n1, n2] + d)
        cases_f.append(nn + d)
    yield 'refract', cases_r, {}
    yield 'reflect', cases_f, {}
    yield 'align', cases_f, {}
    rot = []
    for i in range(n):
        a = g.uni(-0.6, 0.6) if i % 5 else g.uni(-3.2, 3.2)
        rot.append([a, g.uni(-50, 50), g.uni(-50, 50)] + g.unit3()[:2])
    yield 'rotate_x', rot, {'tol': 1e-12, 'scalars': ['rx']}
    yield 'rotate_y', rot, {'tol': 1e-12, 'scalars': ['ry']}
    yield 'rotate_z', rot, {'tol': 1e-12, 'scalars': ['rz']}
    # conic distance: inputs (k N L M z x y R)
    dist = []
    for i in range(n):
        R = g.uni(5, 200) * g.r.choice([-1, 1])
        k = g.r.choice([0.0, -1.0, g.uni(-3, 2), g.uni(-1.2, 0.5)])
        d = g.unit3()
        if d[2] < 0 and i % 4:
            d[2] = -d[2]
        if i % 11 == 0:
            d = [0.0, 0.0, 1.0]              # axis-parallel: a == 0 when k == -1
        x, y = g.uni(-0.8, 0.8) * abs(R), g.uni(-0.8, 0.8) * abs(R)
        if i % 7 == 0:
            x, y = x * 3, y * 3              # miss
        z = g.uni(-30, 5)
        dist.append([k, d[2], d[0], d[1], z, x, y, R])
    # (Python-float `radius**2` goes through libm pow: allow 1-2 ulp)
    yield 'std_distance', dist, {'scalars': ['self.k', 'self.radius'], 'tol': 1e-14}
    sag = []
    for i in range(n):
        R = g.uni(5, 200) * g.r.choice([-1, 1])
        k = g.r.choice([0.0, -1.0, g.uni(-3, 2)])
        s = 1.5 if i % 9 == 0 else 0.7
        sag.append([g.uni(-s, s) * abs(R), g.uni(-s, s) * abs(R), R, k])
    yield 'std_sag', sag, {'scalars': ['self.k', 'self.radius'], 'tol': 1e-15}
    yield 'std_normal', sag, {'scalars': ['self.k', 'self.radius'], 'tol': 1e-15}
    pl = [[g.uni(-50, 50), g.unit3()[2]] for _ in range(n)] + [[1.0, 0.0], [0.0, 0.0], [-2.0, 0.0]]
    yield 'plane_distance', pl, {}



def _lens_cases(ctx, nl, rays_per):
    import random, warnings
    import lensgen, tracecorr
    warnings.simplefilter('ignore')
    rng = random.Random(ctx.seed * 7 + 2)
    cases = []
    hist = {'lenses': 0, 'build_errors': {}, 'trace_errors': {}, 'shapes': {}, 'mirrors': 0, 'tilted': 0,
            'finite_rays': 0, 'nonfinite_rays': 0}
    corp = lensgen.corpus()
    _r2 = random.Random(ctx.seed * 7 + 3)        # own stream: the main stream stays as it was
    corp += [lensgen.wide_hyperboloid_spec(_r2) for _ in range(4)]
    for li in range(nl + len(corp)):
        spec = corp[li] if li < len(corp) else lensgen.gen_spec(rng)
        if li >= len(corp):
            # decentres and tilts also ONE AT A TIME (a frame change that only works when several components are set together)
            for s_ in spec['surfaces']:
                if 'rx' in s_ and rng.random() < 0.6:
                    keep = rng.choice(['dx', 'dy', 'rx', 'ry', 'rx', 'ry'])
                    for key in ('dx', 'dy', 'rx', 'ry'):
                        if key != keep:
                            s_[key] = 0.0
                    hist['single_component_frames'] = hist.get('single_component_frames', 0) + 1
        route = {1: 'handbuilt', 2: 'reuse', 3: 'roundtrip'}.get(li % 5, 'direct') if li >= len(corp) else 'direct'
        edits = []
        try:
            o = lensgen.build_via(spec, route, rng)
            if li >= len(corp) and li % 4 == 1:
                # a history of public setter calls before tracing (incl. the image-space medium)
                edits = lensgen.random_edits(o, spec, rng, kinds=['index', 'image_index', 'radius', 'thickness', 'conic'])
        except Exception as e:
            hist['build_errors'][type(e).__name__] = hist['build_errors'].get(type(e).__name__, 0) + 1
            continue
        hist['lenses'] += 1
        hist.setdefault('routes', {})[route] = hist.setdefault('routes', {}).get(route, 0) + 1
        hist['edited'] = hist.get('edited', 0) + int(bool(edits))
        # the traced object must BE the prescription that was entered (vertex positions, media continuity, radii)
        pp = lensgen.prescription_problems(spec, o, spec['wavelengths'][0][0], edits)
        if pp:
            hist.setdefault('prescription_violations', []).append(
                {'spec': spec, 'route': route, 'edits': edits, 'oracle': pp, 'violates_property': True})
        for wv, _ in spec['wavelengths'][:1]:
            surfs = lensgen.model_surfaces(o, wv)
            for s in surfs:
                hist['shapes'][s['shape'][0]] = hist['shapes'].get(s['shape'][0], 0) + 1
                hist['mirrors'] += int(s['refl'])
                hist['tilted'] += int(bool(s['rx'] or s['ry']))
            # fixed corpus lenses are also traced with the rays a user writes first: the axial ray and the four marginal
            # rays exactly on the pupil axes, on axis (numerically special: r = 0, x or y exactly 0, the exact rim)
            exact = [(0.0, 0.0, 0.0, 0.0), (0.0, 0.0, 0.0, 1.0), (0.0, 0.0, 0.0, -1.0), (0.0, 0.0, 1.0, 0.0), (0.0, 0.0, -1.0, 0.0)] \
                if li < len(corp) else []
            hist['exact_axis_and_rim_rays'] = hist.get('exact_axis_and_rim_rays', 0) + len(exact)
            for ri in range(rays_per + len(exact)):
                import math
                if ri >= rays_per:
                    Hx, Hy, Px, Py = exact[ri - rays_per]
                else:
                    Hy = rng.choice([0.0, 1.0, rng.uniform(-1, 1)])
                    Hx = rng.choice([0.0, 0.0, rng.uniform(-1, 1)])
                    rr, th = rng.choice([0.3, 0.7, 1.0, 1.4 if ri % 5 == 4 else 0.9]), rng.uniform(0, 6.283)
                    Px, Py = rr * math.cos(th), rr * math.sin(th)
                r = tracecorr.impl_trace(o, Hx, Hy, Px, Py, wv)
                if r[0] == 'err':
                    hist['trace_errors'][r[1]] = hist['trace_errors'].get(r[1], 0) + 1
                    if r[1] == 'ValueError' and any(s['shape'][0] == 'cheb' for s in surfs):
                        # Chebyshev domain error: the model must also refuse (launch unknown -> skip)
                        pass
                    continue
                recs = r[1]
                fin = all(math.isfinite(v) for v in recs[-1][:6])
                hist['finite_rays' if fin else 'nonfinite_rays'] += 1
                cases.append(dict(surfs=surfs, w=wv, launch=recs[0], expect=recs[1:], recs=recs, spec=spec,
                                  ray=[Hx, Hy, Px, Py, wv]))
    return cases, hist


def _plumbing_result(ctx):
    """what tools/py2coq_plumb.py regenerated on this run (the theorems *_is_regenerated_plumbing are about these lists)"""
    pl = {k: m for k, m in (getattr(ctx, 'manifests', None) or {}).items() if isinstance(m, dict) and m.get('plumbing')}
    return {'name': 'plumbing-lists-regenerated-from-source (order and identity of the statements of _trace_real, _interact, '
                    'localize, globalize, coating interact, group trace)',
            'n': sum(len(m['steps']) for m in pl.values()), 'nontrivial': len(pl), 'samples': [],
            'histogram': {k: ' ; '.join(m['steps']) for k, m in sorted(pl.items())}, 'disagreements': []}


def system_checks(ctx):
    yield _plumbing_result(ctx)
    import tracecorr, oracles
    nl, rp = ctx.n(40, 500), ctx.n(4, 8)
    cases, hist = _lens_cases(ctx, nl, rp)
    # (a) hand model Model/Trace.v against the implementation, per surface x y z L M N intensity opd
    res = {'name': 'trace-model-vs-implementation', 'n': len(cases), 'histogram': hist,
           'nontrivial': 0, 'samples': [], 'disagreements': []}
    try:
        ok, raw = tracecorr.run(cases, tol=1e-9, tag='C02trace')
    except RuntimeError as e:
        res['error'] = str(e)
        yield res
        return
    seen = set()
    for c, good in zip(cases, ok):
        key = (tuple(c['launch']), len(c['surfs']))
        import math
        if all(math.isfinite(v) for v in c['expect'][-1][:6]) and key not in seen:
            seen.add(key)
            res['nontrivial'] += 1
        bad = oracles.check_trace(c['surfs'], c['recs'])
        if not good or bad:
            res['disagreements'].append({'spec': c['spec'], 'ray': c['ray'], 'model_agrees': bool(good),
                                         'oracle': bad[:4], 'violates_property': bool(bad)})
    res['disagreements'] += hist.pop('prescription_violations', [])[:3]
    if cases:
        c = cases[0]
        res['samples'].append({'ray(Hx,Hy,Px,Py,w)': c['ray'], 'surfaces': [s['shape'][0] for s in c['surfs']],
                               'image_record': c['expect'][-1]})
    yield res
    bad, n = _bundle_oracle(ctx, ctx.n(25, 300))
    yield {'name': 'bundle-trace-oracle (rays traced together)', 'n': n, 'nontrivial': n, 'samples': [],
           'disagreements': bad[:5]}


def _bundle_oracle(ctx, nl):
    """rays traced TOGETHER (the iterative intersection stops on a batch-wide test): every ray of the bundle
    must still satisfy the property"""
    import random, warnings, math
    import numpy as np
    import lensgen, oracles
    warnings.simplefilter('ignore')
    rng = random.Random(ctx.seed * 29 + 8)
    out, n = [], 0
    corp = [c for c in lensgen.corpus() if c['name'] in ('asphere-positive', 'asphere-finite')]
    for li in range(nl + len(corp)):
        spec = dict(corp[li]) if li < len(corp) else lensgen.gen_spec(rng, nsurf=rng.choice([1, 2, 3, 4]), allow=['even_asphere', 'polynomial', 'chebyshev', 'standard'])
        try:
            o = lensgen.build(spec)
        except Exception:      # noqa
            continue
        wv = spec['wavelengths'][0][0]
        surfs = lensgen.model_surfaces(o, wv)
        if not any(s['shape'][0] in ('even', 'poly', 'cheb') for s in surfs):
            continue
        m = 13
        Px = np.array([0.0] + [0.9 * math.cos(2 * math.pi * j / 6) * r for r in (0.5, 1.0) for j in range(6)])
        Py = np.array([0.0] + [0.9 * math.sin(2 * math.pi * j / 6) * r for r in (0.5, 1.0) for j in range(6)])
        Hy = 1.0 if li < len(corp) else rng.choice([0.0, 1.0, 0.7])
        try:
            o.trace_generic(np.zeros(m), np.full(m, Hy), Px.copy(), Py.copy(), wv)
        except Exception:      # noqa
            continue
        sg = o.surface_group
        cols = [sg.x, sg.y, sg.z, sg.L, sg.M, sg.N, sg.intensity, sg.opd]
        for j in range(m):
            recs = [[float(c[k, j]) for c in cols] for k in range(cols[0].shape[0])]
            n += 1
            bad = oracles.check_trace(surfs, recs)
            if bad:
                out.append({'spec': spec, 'ray': [0.0, Hy, float(Px[j]), float(Py[j]), wv], 'bundle_of': m,
                            'oracle': bad[:4], 'violates_property': True})
                break
    return out, n


def search(ctx, broken, disagreements):
    """Snell / on-surface / path-length oracle on the implementation, seeded sweep"""
    import oracles
    cases, hist = _lens_cases(ctx, ctx.n(60, 600), 6)
    out = list(hist.get('prescription_violations', []))[:4]
    for c in cases:
        bad = oracles.check_trace(c['surfs'], c['recs'])
        if bad:
            out.append({'spec': c['spec'], 'ray': c['ray'], 'oracle': bad[:4], 'violates_property': True})
    # witnesses that are NOT the listed Chebyshev finding first (the driver reports the first unlisted one)
    out.sort(key=lambda w: matches_finding(w, {'id': 'chebyshev-normal-norm'}) or matches_finding(w, {'id': 'paraboloid-axis-parallel-behind-ray'}))
    return out[:12] or None



CHEB_REPLAY = {
    'object_thickness': float('inf'),
    'surfaces': [{'type': 'chebyshev', 'radius': 60.0, 'conic': 0.0, 'thickness': 5.0, 'is_stop': True,
                  'coefficients': [[0.0, 0.02], [0.03, 0.01]], 'norm_x': 40.0, 'norm_y': 50.0,
                  'material': ['ideal', 1.6, 0.0]},
                 {'type': 'standard', 'radius': -80.0, 'thickness': 60.0, 'material': 'air'}],
    'aperture': ['EPD', 8.0], 'field_type': 'angle', 'fields': [[0.0, 0.0, 0.0, 0.0]],
    'wavelengths': [[0.55, True]], 'telecentric': False}


def matches_finding(w, f):
    """a witness is the listed Chebyshev finding only if EVERY oracle complaint is a Snell / half-space /
    reflection-law residual at a Chebyshev surface whose normalisation differs from 1 (wrong surface normal)"""
    orc = w.get('oracle') or []
    if f['id'] == 'paraboloid-axis-parallel-behind-ray':
        return bool(orc) and all(isinstance(v, dict) and v.get('kind') == 'behind-ray' and v.get('a_is_zero') is True for v in orc)
    if f['id'] != 'chebyshev-normal-norm':
        return False
    if not orc:
        return False
    for v in orc:
        if not isinstance(v, dict) or v.get('shape') != 'cheb' or v.get('kind') not in ('snell', 'halfspace', 'reflect'):
            return False
        sp = w['spec']['surfaces'][v['surface'] - 1] if v['surface'] - 1 < len(w['spec']['surfaces']) else {}
        if sp.get('norm_x', 1) == 1 and sp.get('norm_y', 1) == 1:
            return False
    return True


A0_REPLAY = {
    'object_thickness': float('inf'),
    'surfaces': [{'type': 'standard', 'radius': float('inf'), 'thickness': 0.01, 'material': 'air', 'is_stop': True},
                 {'type': 'standard', 'radius': -20.0, 'conic': -1.0, 'thickness': 30.0, 'material': ['ideal', 1.5, 0.0]}],
    'aperture': ['EPD', 6.0], 'field_type': 'angle', 'fields': [[0.0, 0.0, 0.0, 0.0]],
    'wavelengths': [[0.55, True]], 'telecentric': False}


def replay_finding(ctx, f):
    import lensgen, tracecorr, oracles, warnings
    warnings.simplefilter('ignore')
    if f['id'] == 'paraboloid-axis-parallel-behind-ray':
        o = lensgen.build(A0_REPLAY)
        r = tracecorr.impl_trace(o, 0.0, 0.0, 0.0, 0.7, 0.55)
        if r[0] != 'ok':
            return None
        bad = oracles.check_trace(lensgen.model_surfaces(o, 0.55), r[1])
        return any(v['kind'] == 'behind-ray' and v.get('a_is_zero') for v in bad)
    if f['id'] != 'chebyshev-normal-norm':
        return None
    o = lensgen.build(CHEB_REPLAY)
    r = tracecorr.impl_trace(o, 0.0, 0.0, 0.3, 0.6, 0.55)
    if r[0] != 'ok':
        return None
    bad = oracles.check_trace(lensgen.model_surfaces(o, 0.55), r[1])
    return any(v['kind'] == 'snell' and v['shape'] == 'cheb' for v in bad)


def broken_explained(b, known, witnesses):
    return False
